/-
Every 32-bit quantity that the rule encoder accumulates fits a word.
-/
import LA.Proofs.Num
import LA.Proofs.Tables
import LA.Model.Flags

namespace LA.Rule
open LA

structure EnvOk (env : Env) : Prop where
  users : ∀ p ∈ env.users, p.2 < 4294967296
  groups : ∀ p ∈ env.groups, p.2 < 4294967296

theorem lookupB_mem {α : Type} {l : List (Bytes × α)} {k : Bytes} {v : α} (h : lookupB l k = some v) : ∃ p ∈ l, p.2 = v := by
  unfold lookupB at h
  cases hf : l.find? (fun p => p.1 == k) with
  | none => simp [hf] at h
  | some p => simp [hf] at h; exact ⟨p, List.mem_of_find?_eq_some hf, h⟩

theorem ok_toNat_lt {s : Bytes} {base : Nat} {v : Int} (h : parseUintGo s base 32 = .ok v) : v.toNat < 4294967296 := by
  have := parseUintGo_bound h
  have e : ((2 ^ 32 - 1 : Nat) : Int) = 4294967295 := by decide
  omega

theorem getUID_lt {env : Env} (he : EnvOk env) {s : Bytes} {v : Nat} (h : getUID env s = some v) : v < 4294967296 := by
  unfold getUID at h
  split at h
  · simp at h; omega
  · cases hp : parseUintGo s 10 32 with
    | ok w => simp [hp] at h; subst h; exact ok_toNat_lt hp
    | range => simp [hp] at h
    | _ =>
      simp [hp] at h
      obtain ⟨p, hp1, hp2⟩ := lookupB_mem h
      rw [← hp2]; exact he.users p hp1

theorem getGID_lt {env : Env} (he : EnvOk env) {s : Bytes} {v : Nat} (h : getGID env s = some v) : v < 4294967296 := by
  unfold getGID at h
  cases hp : parseUintGo s 10 32 with
  | ok w => simp [hp] at h; subst h; exact ok_toNat_lt hp
  | range => simp [hp] at h
  | _ =>
    simp [hp] at h
    obtain ⟨p, hp1, hp2⟩ := lookupB_mem h
    rw [← hp2]; exact he.groups p hp1

theorem parseUint_le {s : Bytes} {m v : Nat} (h : parseUint s m = some v) : v ≤ m := by
  unfold parseUint at h
  split at h
  · simp at h
  · split at h
    · split at h
      · simp at h; omega
      · simp at h
    · simp at h

theorem getType_lt {s : Bytes} {v : Nat} (h : MsgType.getType s = some v) : v < 4294967296 := by
  have cert : LA.Gen.MsgTypes.nameToType.all (fun p => decide (p.2 < 65536)) = true := by decide +kernel
  unfold MsgType.getType at h
  simp only at h
  cases hf : LA.Gen.MsgTypes.nameTree.find (encode (upper s)) with
  | some t =>
    simp [hf] at h
    subst h
    have hm := Tree.find_mem hf
    rw [MsgType.cert_nameTree_sound] at hm
    obtain ⟨p, hp, hpe⟩ := List.mem_map.mp hm
    have := List.all_eq_true.mp cert p hp
    have e : p.2 = t := by simpa using congrArg Prod.snd hpe
    simp at this; omega
  | none =>
    simp only [hf] at h
    split at h
    · simp at h
    · split at h
      · simp at h
      · have := parseUint_le h; omega

theorem getAuditMsgType_lt {s : Bytes} {v : Nat} (h : getAuditMsgType s = some v) : v < 4294967296 := by
  unfold getAuditMsgType at h
  cases hp : parseUintGo s 0 32 with
  | ok w => simp [hp] at h; subst h; exact ok_toNat_lt hp
  | range => simp [hp] at h
  | _ => simp [hp] at h; exact getType_lt h

theorem parseNum_lt {s : Bytes} {v : Nat} (h : parseNum s = some v) : v < 4294967296 := by
  unfold parseNum at h
  by_cases hneg : (s.head? == some 45) = true
  · rw [if_pos hneg] at h
    cases hp : parseIntGo s 0 32 with
    | ok w => simp [hp] at h; subst h; exact toU32_lt w
    | _ => simp [hp] at h
  · rw [if_neg hneg] at h
    cases hp : parseUintGo s 0 32 with
    | ok w => simp [hp] at h; subst h; exact ok_toNat_lt hp
    | _ => simp [hp] at h

theorem archCode_lt {real : Bytes} {c : Nat} (hc : Tables.archCode real = some c) : c < 4294967296 := by
  have cert : LA.Gen.Arches.archNames.all (fun q => decide (q.1 < 4294967296)) = true := by decide +kernel
  unfold Tables.archCode at hc
  cases hf : LA.Gen.Arches.archNames.find? (fun q => q.2 == real) with
  | none => rw [hf] at hc; simp at hc
  | some q =>
    rw [hf] at hc
    simp only [Option.map_some, Option.some.injEq] at hc
    subst hc
    have := List.all_eq_true.mp cert q (List.mem_of_find?_eq_some hf)
    simpa using this

theorem getArch_lt {s : Bytes} {p : Bytes × Nat} (h : getArch s = some p) : p.2 < 4294967296 := by
  unfold getArch at h
  simp only at h
  generalize (if (s.map lowerB == ofString "b64") = true then runtimeArch
    else if (s.map lowerB == ofString "b32") = true then ofString "i386" else s) = real at h
  cases hc : Tables.archCode real with
  | none => rw [hc] at h; simp at h
  | some c =>
    rw [hc] at h
    simp only [Option.some.injEq] at h
    subst h
    exact archCode_lt hc

theorem getPerm_lt16 {s : Bytes} {v : Nat} (h : getPerm s = some v) : v < 16 := by
  have key : ∀ (l : Bytes) (acc : Option Nat) (v : Nat), (∀ a, acc = some a → a < 16) →
      l.foldl (fun (acc : Option Nat) b =>
        match acc with
        | none => none
        | some bits =>
          if b == 114 then some (bits ||| LA.Gen.RuleTables.readPerm)
          else if b == 119 then some (bits ||| LA.Gen.RuleTables.writePerm)
          else if b == 120 then some (bits ||| LA.Gen.RuleTables.execPerm)
          else if b == 97 then some (bits ||| LA.Gen.RuleTables.attrPerm)
          else none) acc = some v → v < 16 := by
    intro l
    induction l with
    | nil => intro acc v ha h; simp at h; exact ha v h
    | cons b bs ih =>
      intro acc v ha h
      simp only [List.foldl_cons] at h
      refine ih _ v ?_ h
      intro a hacc
      cases acc with
      | none => simp at hacc
      | some bits =>
        have hb := ha bits rfl
        have c1 : LA.Gen.RuleTables.readPerm = 4 := by decide
        have c2 : LA.Gen.RuleTables.writePerm = 2 := by decide
        have c3 : LA.Gen.RuleTables.execPerm = 1 := by decide
        have c4 : LA.Gen.RuleTables.attrPerm = 8 := by decide
        simp only [c1, c2, c3, c4] at hacc
        split at hacc
        · simp at hacc; subst hacc; exact Nat.or_lt_two_pow (n := 4) hb (by omega)
        · split at hacc
          · simp at hacc; subst hacc; exact Nat.or_lt_two_pow (n := 4) hb (by omega)
          · split at hacc
            · simp at hacc; subst hacc; exact Nat.or_lt_two_pow (n := 4) hb (by omega)
            · split at hacc
              · simp at hacc; subst hacc; exact Nat.or_lt_two_pow (n := 4) hb (by omega)
              · simp at hacc
  exact key s (some 0) v (by intro a ha; simp at ha; omega) h

theorem getPerm_lt {s : Bytes} {v : Nat} (h : getPerm s = some v) : v < 4294967296 := by
  have := getPerm_lt16 h
  omega

theorem getFiletype_lt {s : Bytes} {v : Nat} (h : getFiletype s = some v) : v < 4294967296 := by
  have cert : filetypeNames.all (fun p => decide (p.2 < 4294967296)) = true := by decide +kernel
  unfold getFiletype at h
  split at h
  · rename_i w hw
    simp at h; subst h
    obtain ⟨p, hp1, hp2⟩ := lookupB_mem hw
    have := List.all_eq_true.mp cert p hp1
    rw [← hp2]; simpa using this
  · cases hp : parseUintGo s 10 32 with
    | ok w =>
      simp only [hp] at h
      split at h
      · simp at h; subst h; exact ok_toNat_lt hp
      · simp at h
    | _ => simp [hp] at h

theorem getFiletype_mem {s : Bytes} {v : Nat} (h : getFiletype s = some v) : ∃ p ∈ filetypeNames, p.2 = v := by
  unfold getFiletype at h
  split at h
  · rename_i w hw
    simp at h; subst h
    exact lookupB_mem hw
  · cases hp : parseUintGo s 10 32 with
    | ok w =>
      simp only [hp] at h
      split at h
      · rename_i hany
        simp only [Option.some.injEq] at h
        obtain ⟨p, hp1, hp2⟩ := List.any_eq_true.mp hany
        refine ⟨p, hp1, ?_⟩
        have : (p.2 : Int) = w := by simpa using hp2
        omega
      · simp at h
    | _ => simp [hp] at h

theorem mapTriple {o : Option Nat} {v : Nat} {s a : Option Bytes}
    (h : o.map (fun v => ((v, none, none) : Nat × Option Bytes × Option Bytes)) = some (v, s, a)) :
    o = some v ∧ s = none := by
  cases o with
  | none => simp at h
  | some w => simp at h; exact ⟨by rw [h.1], h.2.1.symm⟩

/-- the value computed for a filter fits a word; a string to append is at most PATH_MAX long and
the value is its length. -/
theorem filterValue_bound {env : Env} (he : EnvOk env) {r : RuleData} {f opc : Nat} {rhs : Bytes}
    {v : Nat} {s a : Option Bytes} (h : filterValue env r f opc rhs = some (v, s, a)) :
    v < 4294967296 ∧ ∀ str, s = some str → str.length ≤ 4096 := by
  have pm : LA.Gen.RuleTables.pathMax = 4096 := by decide
  unfold filterValue at h
  by_cases c1 : uidFields.contains f = true
  · rw [if_pos c1] at h
    obtain ⟨hw, rfl⟩ := mapTriple h
    exact ⟨getUID_lt he hw, by simp⟩
  rw [if_neg c1] at h
  by_cases c2 : gidFields.contains f = true
  · rw [if_pos c2] at h
    obtain ⟨hw, rfl⟩ := mapTriple h
    exact ⟨getGID_lt he hw, by simp⟩
  rw [if_neg c2] at h
  by_cases c3 : (f == LA.Gen.RuleTables.exitField) = true
  · rw [if_pos c3] at h
    split at h
    · simp at h
    · cases hg : getExitCode rhs with
      | none => rw [hg] at h; simp at h
      | some w =>
        rw [hg] at h
        simp only [Option.map_some, Option.some.injEq, Prod.mk.injEq] at h
        obtain ⟨rfl, rfl, _⟩ := h
        exact ⟨toU32_lt w, by simp⟩
  rw [if_neg c3] at h
  by_cases c4 : (f == LA.Gen.RuleTables.msgTypeField) = true
  · rw [if_pos c4] at h
    split at h
    · simp at h
    · obtain ⟨hw, rfl⟩ := mapTriple h
      exact ⟨getAuditMsgType_lt hw, by simp⟩
  rw [if_neg c4] at h
  by_cases c5 : stringFields.contains f = true
  · rw [if_pos c5] at h
    split at h
    · simp at h
    · split at h
      · simp at h
      · split at h
        · simp at h
        · rename_i hlen
          simp only [Option.some.injEq, Prod.mk.injEq] at h
          obtain ⟨rfl, rfl, _⟩ := h
          rw [pm] at hlen
          exact ⟨by omega, by intro str hs; simp at hs; subst hs; omega⟩
  rw [if_neg c5] at h
  by_cases c6 : (f == LA.Gen.RuleTables.archField) = true
  · rw [if_pos c6] at h
    split at h
    · simp at h
    · cases hg : getArch rhs with
      | none => rw [hg] at h; simp at h
      | some w =>
        rw [hg] at h
        simp only [Option.map_some, Option.some.injEq, Prod.mk.injEq] at h
        obtain ⟨rfl, rfl, _⟩ := h
        exact ⟨getArch_lt hg, by simp⟩
  rw [if_neg c6] at h
  by_cases c7 : (f == LA.Gen.RuleTables.permField) = true
  · rw [if_pos c7] at h
    split at h
    · simp at h
    · split at h
      · simp at h
      · obtain ⟨hw, rfl⟩ := mapTriple h
        exact ⟨getPerm_lt hw, by simp⟩
  rw [if_neg c7] at h
  by_cases c8 : (f == LA.Gen.RuleTables.filetypeField) = true
  · rw [if_pos c8] at h
    split at h
    · simp at h
    · obtain ⟨hw, rfl⟩ := mapTriple h
      exact ⟨getFiletype_lt hw, by simp⟩
  rw [if_neg c8] at h
  by_cases c9 : (f == LA.Gen.RuleTables.inodeField) = true
  · rw [if_pos c9] at h
    split at h
    · simp at h
    · split at h
      · simp at h
      · obtain ⟨hw, rfl⟩ := mapTriple h
        exact ⟨parseNum_lt hw, by simp⟩
  rw [if_neg c9] at h
  by_cases c10 : (f == LA.Gen.RuleTables.saddrFamField) = true
  · rw [if_pos c10] at h
    cases hg : parseNum rhs with
    | none => rw [hg] at h; simp at h
    | some w =>
      rw [hg] at h
      simp only [Option.bind_some] at h
      split at h
      · simp only [Option.some.injEq, Prod.mk.injEq] at h
        obtain ⟨rfl, rfl, _⟩ := h
        exact ⟨parseNum_lt hg, by simp⟩
      · simp at h
  rw [if_neg c10] at h
  split at h
  · split at h
    · simp at h
    · obtain ⟨hw, rfl⟩ := mapTriple h
      exact ⟨parseNum_lt hw, by simp⟩
  · obtain ⟨hw, rfl⟩ := mapTriple h
    exact ⟨parseNum_lt hw, by simp⟩

end LA.Rule

namespace LA.Rule
open LA

structure WordsInv (r : RuleData) : Prop where
  flags : r.flags < 4294967296
  action : r.action < 4294967296
  trips : ∀ t ∈ r.trips, t.1 < 4294967296 ∧ t.2.1 < 4294967296 ∧ t.2.2 < 4294967296
  syscalls : ∀ w ∈ r.syscalls, w < 2048
  strCount : r.strings.length ≤ r.trips.length
  strLen : ∀ s ∈ r.strings, s.length ≤ 4096

theorem field_code_lt {lhs : Bytes} {f : Nat} (h : lookupB LA.Gen.RuleTables.fieldsTable lhs = some f) : f < 4294967296 := by
  have cert : LA.Gen.RuleTables.fieldsTable.all (fun p => decide (p.2 < 4294967296)) = true := by decide +kernel
  obtain ⟨p, hp1, hp2⟩ := lookupB_mem h
  have := List.all_eq_true.mp cert p hp1
  rw [← hp2]; simpa using this

theorem op_code_lt {op : Bytes} {c : Nat} (h : lookupB LA.Gen.RuleTables.operatorsTable op = some c) : c < 4294967296 := by
  have cert : LA.Gen.RuleTables.operatorsTable.all (fun p => decide (p.2 < 4294967296)) = true := by decide +kernel
  obtain ⟨p, hp1, hp2⟩ := lookupB_mem h
  have := List.all_eq_true.mp cert p hp1
  rw [← hp2]; simpa using this

theorem inv_addFilter {env : Env} (he : EnvOk env) {r r' : RuleData} {l o v : Bytes} (hi : WordsInv r)
    (h : addFilter env r l o v = some r') : WordsInv r' ∧ r'.flags = r.flags ∧ r'.action = r.action := by
  unfold addFilter at h
  split at h
  · rename_i opc f hop hf
    split at h
    · simp at h
    · cases hv : filterValue env r f opc v with
      | none => rw [hv] at h; simp at h
      | some x =>
        obtain ⟨val, s, a⟩ := x
        rw [hv] at h
        simp only [Option.map_some, Option.some.injEq] at h
        subst h
        obtain ⟨hb1, hb2⟩ := filterValue_bound he hv
        refine ⟨⟨hi.flags, hi.action, ?_, hi.syscalls, ?_, ?_⟩, rfl, rfl⟩
        · intro t ht
          simp only [List.mem_append, List.mem_cons, List.mem_nil_iff, or_false] at ht
          rcases ht with ht | rfl
          · exact hi.trips t ht
          · exact ⟨field_code_lt hf, hb1, op_code_lt hop⟩
        · cases s with
          | none => simp only [List.length_append, List.length_cons, List.length_nil]; have := hi.strCount; omega
          | some str => simp only [List.length_append, List.length_cons, List.length_nil]; have := hi.strCount; omega
        · cases s with
          | none => exact hi.strLen
          | some str =>
            intro x hx
            simp only [List.mem_append, List.mem_cons, List.mem_nil_iff, or_false] at hx
            rcases hx with hx | rfl
            · exact hi.strLen x hx
            · exact hb2 x rfl
  · simp at h

theorem inv_addInterField {r r' : RuleData} {l o v : Bytes} (hi : WordsInv r)
    (h : addInterField r l o v = some r') : WordsInv r' ∧ r'.flags = r.flags ∧ r'.action = r.action := by
  have certc : LA.Gen.RuleTables.comparisonsTable.all (fun e => decide (e.2.2 < 4294967296)) = true := by decide +kernel
  have fc : LA.Gen.RuleTables.fieldCompare < 4294967296 := by decide
  unfold addInterField at h
  cases hop : lookupB LA.Gen.RuleTables.operatorsTable o with
  | none => rw [hop] at h; simp at h
  | some opc =>
    rw [hop] at h
    simp only at h
    split at h
    · simp at h
    · split at h
      · rename_i lf rf _ _
        split at h
        · simp at h
        · cases hc : lookupComparison lf rf with
          | none => rw [hc] at h; simp at h
          | some c =>
            rw [hc] at h
            simp only [Option.some.injEq] at h
            subst h
            have hcl : c < 4294967296 := by
              unfold lookupComparison at hc
              cases hf : LA.Gen.RuleTables.comparisonsTable.find? (fun e => e.1 == lf && e.2.1 == rf) with
              | none => rw [hf] at hc; simp at hc
              | some e =>
                rw [hf] at hc
                simp only [Option.map_some, Option.some.injEq] at hc
                subst hc
                have := List.all_eq_true.mp certc e (List.mem_of_find?_eq_some hf)
                simpa using this
            refine ⟨⟨hi.flags, hi.action, ?_, hi.syscalls, ?_, hi.strLen⟩, rfl, rfl⟩
            · intro t ht
              simp only [List.mem_append, List.mem_cons, List.mem_nil_iff, or_false] at ht
              rcases ht with ht | rfl
              · exact hi.trips t ht
              · exact ⟨fc, hcl, op_code_lt hop⟩
            · simp only [List.length_append, List.length_cons, List.length_nil]; have := hi.strCount; omega
      · simp at h

theorem inv_addSyscall {r r' : RuleData} {sc : Bytes} (hi : WordsInv r) (h : addSyscall r sc = some r') :
    WordsInv r' ∧ r'.flags = r.flags ∧ r'.action = r.action := by
  have bm : LA.Gen.RuleTables.syscallBitmaskSize * 32 = 2048 := by decide
  unfold addSyscall at h
  split at h
  · simp only [Option.some.injEq] at h; subst h
    exact ⟨⟨hi.flags, hi.action, hi.trips, hi.syscalls, hi.strCount, hi.strLen⟩, rfl, rfl⟩
  · simp only at h
    split at h
    · simp at h
    · rename_i n _
      split at h
      · simp at h
      · rename_i hr
        simp only [Option.some.injEq] at h; subst h
        refine ⟨⟨hi.flags, hi.action, hi.trips, ?_, hi.strCount, hi.strLen⟩, rfl, rfl⟩
        intro w hw
        simp only [List.mem_append, List.mem_cons, List.mem_nil_iff, or_false] at hw
        rcases hw with hw | rfl
        · exact hi.syscalls w hw
        · rw [bm] at hr; omega

theorem inv_addKeys {env : Env} (he : EnvOk env) {r r' : RuleData} {keys : List Bytes} (hi : WordsInv r)
    (h : addKeys env r keys = some r') : WordsInv r' := by
  unfold addKeys at h
  split at h
  · simp only [Option.some.injEq] at h; subst h; exact hi
  · exact (inv_addFilter he hi h).1

/-- every rule data that Build accumulates has all its 32-bit quantities within a word, syscall
numbers below 2048, at most one string per field and strings of at most PATH_MAX bytes. -/
theorem inv_ruleDataOf {env : Env} (he : EnvOk env) {rule : Rule} {r : RuleData} (h : ruleDataOf env rule = some r) :
    WordsInv r := by
  have ef : LA.Gen.RuleTables.exitFilter < 4294967296 := by decide
  have aa : LA.Gen.RuleTables.alwaysAction < 4294967296 := by decide
  cases rule with
  | deleteAll ks => simp [ruleDataOf] at h
  | watch path perms keys =>
    simp only [ruleDataOf, addFileWatch] at h
    split at h
    · simp at h
    · have h0 : WordsInv { flags := LA.Gen.RuleTables.exitFilter, action := LA.Gen.RuleTables.alwaysAction, allSyscalls := true } :=
        ⟨ef, aa, by simp, by simp, by simp, by simp⟩
      obtain ⟨r1, h1, h⟩ := Option.bind_eq_some_iff.mp h
      obtain ⟨r2, h2, h⟩ := Option.bind_eq_some_iff.mp h
      have i1 := (inv_addFilter he h0 h1).1
      exact inv_addKeys he (inv_addFilter he i1 h2).1 h
  | syscall t list action filters syscalls keys =>
    simp only [ruleDataOf] at h
    split at h
    · rename_i fl ac hfl hac
      have hfl' : fl < 4294967296 := by
        unfold setList at hfl
        split at hfl
        · simp at hfl; subst hfl; decide
        · split at hfl
          · simp at hfl; subst hfl; decide
          · split at hfl
            · simp at hfl; subst hfl; decide
            · split at hfl
              · simp at hfl; subst hfl; decide
              · simp at hfl
      have hac' : ac < 4294967296 := by
        unfold setAction at hac
        split at hac
        · simp at hac; subst hac; decide
        · split at hac
          · simp at hac; subst hac; decide
          · simp at hac
      have h0 : WordsInv { flags := fl, action := ac, allSyscalls := true } := ⟨hfl', hac', by simp, by simp, by simp, by simp⟩
      -- the two folds preserve the invariant
      have foldF : ∀ (fs : List FilterSpec) (acc : Option RuleData), (∀ x, acc = some x → WordsInv x) →
          ∀ x, fs.foldl (fun (acc : Option RuleData) f =>
            acc.bind fun r =>
              if (f.typ == 2) = true then addFilter env r f.lhs f.op f.rhs
              else if (f.typ == 1) = true then addInterField r f.lhs f.op f.rhs
              else some r) acc = some x → WordsInv x := by
        intro fs
        induction fs with
        | nil => intro acc ha x hx; exact ha x hx
        | cons f fs ih =>
          intro acc ha x hx
          simp only [List.foldl_cons] at hx
          refine ih _ ?_ x hx
          intro y hy
          cases acc with
          | none => simp at hy
          | some r0 =>
            simp only [Option.bind_some] at hy
            have hr0 := ha r0 rfl
            split at hy
            · exact (inv_addFilter he hr0 hy).1
            · split at hy
              · exact (inv_addInterField hr0 hy).1
              · simp only [Option.some.injEq] at hy; subst hy; exact hr0
      have foldS : ∀ (ss : List Bytes) (acc : Option RuleData), (∀ x, acc = some x → WordsInv x) →
          ∀ x, ss.foldl (fun (acc : Option RuleData) s => acc.bind fun r => addSyscall r s) acc = some x → WordsInv x := by
        intro ss
        induction ss with
        | nil => intro acc ha x hx; exact ha x hx
        | cons s ss ih =>
          intro acc ha x hx
          simp only [List.foldl_cons] at hx
          refine ih _ ?_ x hx
          intro y hy
          cases acc with
          | none => simp at hy
          | some r0 =>
            simp only [Option.bind_some] at hy
            exact (inv_addSyscall (ha r0 rfl) hy).1
      obtain ⟨r2, hr2, h⟩ := Option.bind_eq_some_iff.mp h
      have i2 : WordsInv r2 := foldS syscalls _ (fun x hx => foldF filters _ (fun y hy => by simp only [Option.some.injEq] at hy; subst hy; exact h0) x hx) r2 hr2
      exact inv_addKeys he i2 h
    · simp at h

end LA.Rule
