/-
Lemmas about Base/Num: strconv parsing of what the decimal printer emits.
-/
import LA.Base.Num

namespace LA

theorem parseDigits_mono {s : Bytes} {a v : Nat} (h : parseDigits s a = some v) : a ≤ v := by
  induction s generalizing a with
  | nil => simp [parseDigits] at h; omega
  | cons b bs ih =>
    simp only [parseDigits] at h
    split at h
    · have := ih h; omega
    · simp at h

/-- the digit loop agrees with plain decimal parsing on digit strings whose value fits. -/
theorem digitLoop_dec {s : Bytes} {a v M : Nat} {b0 us : Bool} (hd : ∀ b ∈ s, isDigit b = true)
    (h : parseDigits s a = some v) (hv : v ≤ M) :
    digitLoop 10 M b0 s a us = (.ok v, us) := by
  induction s generalizing a with
  | nil => simp [parseDigits] at h; simp [digitLoop, h]
  | cons b bs ih =>
    have hb := hd b (by simp)
    have hb' : 48 ≤ b ∧ b ≤ 57 := by simpa [isDigit] using hb
    simp only [parseDigits, hb, if_true] at h
    have hmono := parseDigits_mono h
    unfold digitLoop
    have h95 : (b == 95 && b0) = false := by
      have : (b == 95) = false := by simp; omega
      simp [this]
    simp only [h95, Bool.false_eq_true, if_false]
    have hdv : digitVal b = some (b - 48) := by simp [digitVal, hb']
    simp only [hdv]
    have h1 : ¬ (b - 48 ≥ 10) := by omega
    have h2 : ¬ (a * 10 + (b - 48) > M) := by omega
    simp only [h1, h2, if_false]
    exact ih (fun x hx => hd x (by simp [hx])) h

theorem parseUintGo_dec10 (n bits : Nat) (h : n ≤ 2 ^ bits - 1) : parseUintGo (dec n) 10 bits = .ok n := by
  unfold parseUintGo
  have hne : (dec n).isEmpty = false := by
    cases hd : dec n with
    | nil => exact absurd hd (dec_ne_nil n)
    | cons => rfl
  simp only [hne, Bool.false_eq_true, if_false]
  have : ((10 : Nat) == 0) = false := by decide
  simp only [this, Bool.false_eq_true, if_false]
  rw [digitLoop_dec (dec_digits n) (parseDigits_dec n) h]

/-- the first digit of a positive number is not '0'. -/
theorem dec_head_ne_zero (n : Nat) (h : 0 < n) : ∃ d tl, dec n = d :: tl ∧ d ≠ 48 ∧ isDigit d = true := by
  induction n using Nat.strongRecOn with
  | _ n ih =>
    rw [dec]
    split
    · exact ⟨48 + n, [], rfl, by omega, by simp [isDigit]; omega⟩
    · rename_i hn
      obtain ⟨d, tl, hd, hne, hdig⟩ := ih (n / 10) (by omega) (by omega)
      exact ⟨d, tl ++ [48 + n % 10], by rw [hd]; rfl, hne, hdig⟩

/-- base 0 (prefix detection, underscores allowed): what the decimal printer emits parses back. -/
theorem parseUintGo_dec0 (n bits : Nat) (h : n ≤ 2 ^ bits - 1) : parseUintGo (dec n) 0 bits = .ok n := by
  by_cases hz : n = 0
  · subst hz
    have : dec 0 = [48] := by rw [dec]; simp
    rw [this]
    have hb : basePrefix [48] = (8, []) := rfl
    simp [parseUintGo, hb, digitLoop]
  · obtain ⟨d, tl, hd, hne, hdig⟩ := dec_head_ne_zero n (by omega)
    unfold parseUintGo
    rw [hd]
    simp only [List.isEmpty_cons, Bool.false_eq_true, if_false, beq_self_eq_true, if_true]
    have hm : basePrefix (d :: tl) = (10, d :: tl) := by
      unfold basePrefix
      split
      · rename_i heq; simp at heq; exact absurd heq.1 hne
      · rename_i heq; simp at heq; exact absurd heq.1 hne
      · rfl
    simp only [hm]
    have hl := digitLoop_dec (M := 2 ^ bits - 1) (b0 := true) (us := false) (dec_digits n) (parseDigits_dec n) h
    rw [hd] at hl
    rw [hl]
    simp

end LA

namespace LA

theorem digitLoop_bound {base M : Nat} {b0 : Bool} {s : Bytes} {acc : Nat} {us us' : Bool} {v : Int}
    (h : digitLoop base M b0 s acc us = (.ok v, us')) (hacc : acc ≤ M) : 0 ≤ v ∧ v ≤ M := by
  induction s generalizing acc us with
  | nil => simp [digitLoop] at h; omega
  | cons b bs ih =>
    unfold digitLoop at h
    split at h
    · exact ih h hacc
    · split at h
      · simp at h
      · rename_i d _
        split at h
        · simp at h
        · split at h
          · simp at h
          · rename_i hle
            exact ih h (by omega)

theorem parseUintGo_bound {s : Bytes} {base bits : Nat} {v : Int} (h : parseUintGo s base bits = .ok v) :
    0 ≤ v ∧ v ≤ ((2 ^ bits - 1 : Nat) : Int) := by
  unfold parseUintGo at h
  split at h
  · simp at h
  · simp only at h
    split at h
    · generalize hr : digitLoop (basePrefix s).1 (2 ^ bits - 1) true (basePrefix s).2 0 false = r at h
      obtain ⟨r1, r2⟩ := r
      simp only at h
      cases r1 with
      | ok w =>
        simp only at h
        split at h
        · simp at h
        · simp only [NumRes.ok.injEq] at h
          subst h
          exact digitLoop_bound hr (by omega)
      | _ => simp at h
    · generalize hr : digitLoop base (2 ^ bits - 1) false s 0 false = r at h
      obtain ⟨r1, r2⟩ := r
      simp only at h
      subst h
      exact digitLoop_bound hr (by omega)

theorem toU32_lt (x : Int) : toU32 x < 4294967296 := by
  unfold toU32; omega

end LA
