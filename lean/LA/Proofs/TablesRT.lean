/-
The two table round trips that other properties build on (C04: type names, C07: type names and
errno names). They live here, importing only the record-type and errno tables, so that C04 and C07
do not depend on the tables only C20 looks at. `LA/Props/C20.lean` restates them as C20 theorems.
-/
import LA.Proofs.Tables
import LA.Model.Tables

namespace LA.TablesRT
open LA LA.MsgType LA.Tables

/-- Every record type code converts to a name and back to the same number. -/
theorem type_roundtrip (t : Nat) (ht : t < 65536) : getType (typeName t) = some t := by
  rcases typeName_cases t with h | ⟨n, h, hm⟩
  · rw [h]; exact getType_unknownName t ht
  · rw [h]
    have := List.all_eq_true.mp cert_type_name_type (t, n) hm
    simp only [beq_iff_eq] at this
    simp [getType, this]

/-- Every errno number maps to a name that maps back to it. -/
theorem errno_num_name_num :
    ∀ n name, errnoName n = some name → errnoNum name = some n := by
  have cert : LA.Gen.Errno.errnoToName.all (fun p => LA.Gen.Errno.numTree.find (encode p.2) == some p.1) = true := by
    decide +kernel
  intro n name h
  have := List.all_eq_true.mp cert (n, name) (lookupN_mem h)
  simpa [errnoNum] using this

end LA.TablesRT
