/-
What the library keeps between calls outside the objects it hands out (Reassembler, AuditClient, AuditMessage).

The models read the parser, the rule encoder and decoder and the coalescer as functions of their arguments, and the
Reassembler and the client as functions of the object they are given. `LA.Gen.State.runtimeWrites` is regenerated from
the sources on every run (harness/cmd/extract/state.go) and lists every place outside `init` that writes, or could
write, a package-level variable. The property files state, per property, that the list for the packages the property
is about is the one below; a cache, a pool or a lazily built table added to one of those packages changes the list.
-/
import LA.Gen.State

namespace LA.StateFacts

abbrev Fact := String × String × String × String × String

/-- the facts about one package ("" is the root package) -/
def ofPkg (p : String) : List Fact := LA.Gen.State.runtimeWrites.filter (fun f => f.1 == p)

/-- package rule: the reverse lookup tables are filled by five builders, which nothing but `init` mentions. -/
def ruleTableBuilders : List Fact := [
  ("rule", "tables.go", "buildReverseArchTable", "write", "reverseArch"),
  ("rule", "tables.go", "buildReverseComparisonsTable", "write", "reverseComparisonsTable"),
  ("rule", "tables.go", "buildReverseFieldsTable", "write", "reverseFieldsTable"),
  ("rule", "tables.go", "buildReverseOperatorsTable", "write", "reverseOperatorsTable"),
  ("rule", "tables.go", "buildReverseSyscallTable", "write", "reverseSyscall")]

/-- package aucoalesce: `ResolveIDs` (not part of `CoalesceMessages`) hands the two id caches to
`ResolveIDsFromCaches`; nothing else is kept. -/
def coalesceIdCaches : List Fact := [
  ("aucoalesce", "id_lookup.go", "ResolveIDs", "passes", "groupLookup to ResolveIDsFromCaches"),
  ("aucoalesce", "id_lookup.go", "ResolveIDs", "passes", "userLookup to ResolveIDsFromCaches")]

end LA.StateFacts
