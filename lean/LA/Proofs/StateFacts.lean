/-
What the library keeps between calls outside the objects it hands out (Reassembler, AuditClient, AuditMessage).

The models read the parser, the rule encoder and decoder and the coalescer as functions of their arguments, and the
Reassembler and the client as functions of the object they are given. `LA.Gen.State.runtimeWrites` is regenerated from
the sources on every run (harness/cmd/extract/state.go) and lists every place outside `init` that writes, or could
write, a package-level variable. The property files state, per property, that the list for the packages the property
is about is the one below; a cache, a pool or a lazily built table added to one of those packages changes the list.
-/
import LA.Gen.State

namespace LA.StateFacts

abbrev Fact := String × String × String × String × String

/-- the facts about one package ("" is the root package) -/
def ofPkg (p : String) : List Fact := LA.Gen.State.runtimeWrites.filter (fun f => f.1 == p)

/-- package rule: the reverse lookup tables are filled by five builders, which nothing but `init` mentions. -/
def ruleTableBuilders : List Fact := [
  ("rule", "tables.go", "buildReverseArchTable", "write", "reverseArch"),
  ("rule", "tables.go", "buildReverseComparisonsTable", "write", "reverseComparisonsTable"),
  ("rule", "tables.go", "buildReverseFieldsTable", "write", "reverseFieldsTable"),
  ("rule", "tables.go", "buildReverseOperatorsTable", "write", "reverseOperatorsTable"),
  ("rule", "tables.go", "buildReverseSyscallTable", "write", "reverseSyscall")]

/-- package aucoalesce: `ResolveIDs` (not part of `CoalesceMessages`) hands the two id caches to
`ResolveIDsFromCaches`; nothing else is kept. -/
def coalesceIdCaches : List Fact := [
  ("aucoalesce", "id_lookup.go", "ResolveIDs", "passes", "groupLookup to ResolveIDsFromCaches"),
  ("aucoalesce", "id_lookup.go", "ResolveIDs", "passes", "userLookup to ResolveIDsFromCaches")]

/-- what one package ("" is the root package) reads of the process environment: the callees, in order. -/
def envOf (p : String) : List String := (LA.Gen.State.envReads.filter (fun f => f.1 == p)).map (·.2)

/-- root package: the clock (the Reassembler's deadlines), the process id (SetPID) and the page size (the default
receive buffer of a netlink client). -/
def rootEnv : List String := ["os.Getpagesize", "os.Getpid", "time.Now"]

/-- package rule: the file type of a watched path and the user and group databases — the `Env` the rule model is given. -/
def ruleEnv : List String := ["os.Stat", "os/user.Lookup", "os/user.LookupGroup", "os/user.LookupGroupId", "os/user.LookupId"]

/-- package aucoalesce: the user and group databases and the clock of the id caches (ResolveIDs only). -/
def coalesceEnv : List String := ["os/user.Lookup", "os/user.LookupGroup", "os/user.LookupGroupId", "os/user.LookupId", "time.Now"]

end LA.StateFacts
