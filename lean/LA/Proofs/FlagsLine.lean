/-
The flag loop read as a list of flag occurrences: helper definitions and lemmas for
`C14_whole_line`.
-/
import LA.Model.Flags
namespace LA.Flags
open LA LA.Rule

/-- what one flag occurrence says: `-D` (with the boolean it carries) or a value flag with the
complete text of its value. -/
inductive Item where
  | del (b : Bool)
  | val (n : Nat) (v : Bytes)
deriving Repr, DecidableEq

/-- how a token list is read as a list of flag occurrences: every token is a flag carrying its value
inline, a flag followed by the token that is its value, a `-D`, or a final `--`; there is no other
way to consume a token, so a token list that is read leaves no word unaccounted for. -/
inductive Reads : List Bytes → List Item → Prop
  | nil : Reads [] []
  | term (s : Bytes) : classify s = .term → Reads [s] []
  | delBare (s v : Bytes) (rest : List Bytes) (its : List Item) :
      classify s = .flag 68 false v → Reads rest its → Reads (s :: rest) (.del true :: its)
  | delVal (s v : Bytes) (b : Bool) (rest : List Bytes) (its : List Item) :
      classify s = .flag 68 true v → parseBool v = some b → Reads rest its → Reads (s :: rest) (.del b :: its)
  | inline (s v : Bytes) (n : Nat) (rest : List Bytes) (its : List Item) :
      classify s = .flag n true v → (n == 68) = false → valueFlags.contains n = true → Reads rest its →
      Reads (s :: rest) (.val n v :: its)
  | sep (s v0 v : Bytes) (n : Nat) (rest : List Bytes) (its : List Item) :
      classify s = .flag n false v0 → (n == 68) = false → valueFlags.contains n = true → Reads rest its →
      Reads (s :: v :: rest) (.val n v :: its)

def applyItem (fs : FS) : Item → Option FS
  | .del b => some { fs with deleteAll := b, visited := fs.visited ++ [68] }
  | .val n v => setFlag fs n v

def applyItems : List Item → FS → Option FS
  | [], fs => some fs
  | it :: its, fs => (applyItem fs it).bind (applyItems its)

/-- The flag loop that ends with no positional word left has read the whole token list as flag
occurrences and applied them in order. -/
theorem parseLoop_reads (fuel : Nat) (args : List Bytes) (fs fs' : FS)
    (h : parseLoop fuel args fs = some (fs', 0)) :
    ∃ its, Reads args its ∧ applyItems its fs = some fs' := by
  induction fuel generalizing args fs with
  | zero => simp [parseLoop] at h
  | succ fuel ih =>
    cases args with
    | nil =>
      simp [parseLoop] at h
      exact ⟨[], .nil, by simp [applyItems, h]⟩
    | cons s rest =>
      unfold parseLoop at h
      cases hc : classify s with
      | nonflag => rw [hc] at h; simp at h
      | term =>
        rw [hc] at h
        simp only [Option.some.injEq, Prod.mk.injEq] at h
        obtain ⟨rfl, hl⟩ := h
        have : rest = [] := List.length_eq_zero_iff.mp hl
        subst this
        exact ⟨[], .term s hc, rfl⟩
      | bad => rw [hc] at h; simp at h
      | flag k hasValue value =>
        rw [hc] at h
        simp only at h
        by_cases h68 : (k == 68) = true
        · have hk : k = 68 := by simpa using h68
          subst hk
          simp only [beq_self_eq_true, if_true] at h
          cases hasValue with
          | true =>
            simp only [if_true] at h
            cases hb : parseBool value with
            | none => rw [hb] at h; simp at h
            | some b =>
              rw [hb] at h
              simp only at h
              obtain ⟨its, hr, ha⟩ := ih rest _ h
              exact ⟨.del b :: its, .delVal s value b rest its hc hb hr, by simpa [applyItems, applyItem] using ha⟩
          | false =>
            simp only [Bool.false_eq_true, if_false] at h
            obtain ⟨its, hr, ha⟩ := ih rest _ h
            exact ⟨.del true :: its, .delBare s value rest its hc hr, by simpa [applyItems, applyItem] using ha⟩
        · have h68' : (k == 68) = false := by simpa using h68
          rw [if_neg h68] at h
          by_cases hv : valueFlags.contains k = true
          · rw [if_pos hv] at h
            cases hasValue with
            | true =>
              simp only [if_true] at h
              obtain ⟨fs1, h1, h2⟩ := Option.bind_eq_some_iff.mp h
              obtain ⟨its, hr, ha⟩ := ih rest fs1 h2
              exact ⟨.val k value :: its, .inline s value k rest its hc h68' hv hr, by simp [applyItems, applyItem, h1, ha]⟩
            | false =>
              simp only [Bool.false_eq_true, if_false] at h
              cases rest with
              | nil => simp at h
              | cons v rest' =>
                simp only at h
                obtain ⟨fs1, h1, h2⟩ := Option.bind_eq_some_iff.mp h
                obtain ⟨its, hr, ha⟩ := ih rest' fs1 h2
                exact ⟨.val k v :: its, .sep s value v k rest' its hc h68' hv hr, by simp [applyItems, applyItem, h1, ha]⟩
          · rw [if_neg hv] at h; simp at h

def permCode (b : Nat) : Option Nat :=
  if b == 114 then some 1 else if b == 119 then some 2 else if b == 120 then some 3 else if b == 97 then some 4 else none

theorem foldl_none {α β : Type} (f : Option α → β → Option α) (hf : ∀ b, f none b = none) (v : List β) :
    v.foldl f none = none := by
  induction v with
  | nil => rfl
  | cons b bs ih => simp [List.foldl_cons, hf, ih]

/-- -p: every letter of the value is one of r, w, x, a and contributes its code, in order. -/
theorem setPerms_spec (cur : List Nat) (v : Bytes) (p : List Nat) (h : setPerms cur v = some p) :
    p = cur ++ v.filterMap permCode ∧ ∀ b ∈ v, (permCode b).isSome = true := by
  induction v generalizing cur with
  | nil => simp [setPerms] at h; simp [h]
  | cons b bs ih =>
    unfold setPerms at h
    simp only [List.foldl_cons] at h
    by_cases h1 : (b == 114) = true
    · simp only [h1, if_true] at h
      obtain ⟨e, hall⟩ := ih (cur ++ [1]) (by unfold setPerms; exact h)
      refine ⟨by simp [e, permCode, h1], ?_⟩
      intro x hx; rcases List.mem_cons.mp hx with rfl | hx
      · simp [permCode, h1]
      · exact hall x hx
    · by_cases h2 : (b == 119) = true
      · simp only [h1, h2, if_true, Bool.false_eq_true, if_false] at h
        obtain ⟨e, hall⟩ := ih (cur ++ [2]) (by unfold setPerms; exact h)
        refine ⟨by simp [e, permCode, h1, h2], ?_⟩
        intro x hx; rcases List.mem_cons.mp hx with rfl | hx
        · simp [permCode, h1, h2]
        · exact hall x hx
      · by_cases h3 : (b == 120) = true
        · simp only [h1, h2, h3, if_true, Bool.false_eq_true, if_false] at h
          obtain ⟨e, hall⟩ := ih (cur ++ [3]) (by unfold setPerms; exact h)
          refine ⟨by simp [e, permCode, h1, h2, h3], ?_⟩
          intro x hx; rcases List.mem_cons.mp hx with rfl | hx
          · simp [permCode, h1, h2, h3]
          · exact hall x hx
        · by_cases h4 : (b == 97) = true
          · simp only [h1, h2, h3, h4, if_true, Bool.false_eq_true, if_false] at h
            obtain ⟨e, hall⟩ := ih (cur ++ [4]) (by unfold setPerms; exact h)
            refine ⟨by simp [e, permCode, h1, h2, h3, h4], ?_⟩
            intro x hx; rcases List.mem_cons.mp hx with rfl | hx
            · simp [permCode, h1, h2, h3, h4]
            · exact hall x hx
          · simp only [h1, h2, h3, h4, Bool.false_eq_true, if_false] at h
            rw [foldl_none _ (fun _ => rfl)] at h
            cases h

/-! ### what each flag occurrence contributes -/

def Item.syscalls : Item → List Bytes
  | .val n v => if n == 83 then splitList v else []
  | _ => []

def Item.keys : Item → List Bytes
  | .val n v => if n == 107 then splitList v else []
  | _ => []

def Item.filters : Item → List FilterSpec
  | .val n v =>
    if n == 70 then (matchFilter v).toList.map (fun m => ⟨2, m.1, m.2.1, m.2.2⟩)
    else if n == 67 then (matchComparison v).toList.map (fun m => ⟨1, m.1, m.2.1, m.2.2⟩)
    else []
  | _ => []

def Item.perms : Item → List Nat
  | .val n v => if n == 112 then v.filterMap permCode else []
  | _ => []

/-- an accepted occurrence: a -F / -C value matched as a whole (so it contributes exactly one
filter), every letter of a -p value is a permission. -/
def Item.Ok : Item → Prop
  | .val n v =>
    (n = 70 → (matchFilter v).isSome = true) ∧ (n = 67 → (matchComparison v).isSome = true) ∧
    (n = 112 → ∀ b ∈ v, (permCode b).isSome = true)
  | _ => True

theorem applyItem_content {fs fs1 : FS} {it : Item} (h : applyItem fs it = some fs1) :
    fs1.syscalls = fs.syscalls ++ it.syscalls ∧ fs1.keys = fs.keys ++ it.keys ∧
    fs1.filters = fs.filters ++ it.filters ∧ fs1.perms = fs.perms ++ it.perms ∧ it.Ok := by
  cases it with
  | del b =>
    simp only [applyItem, Option.some.injEq] at h
    subst h
    simp [Item.syscalls, Item.keys, Item.filters, Item.perms, Item.Ok]
  | val n v =>
    simp only [applyItem] at h
    unfold setFlag at h
    simp only at h
    by_cases h97 : (n == 97) = true
    · have : n = 97 := by simpa using h97
      subst this
      simp only [beq_self_eq_true, if_true] at h
      cases hs : setAdd fs.append v with
      | none => rw [hs] at h; simp at h
      | some x => rw [hs] at h; simp at h; subst h; simp [Item.syscalls, Item.keys, Item.filters, Item.perms, Item.Ok]
    rw [if_neg h97] at h
    by_cases h65 : (n == 65) = true
    · have : n = 65 := by simpa using h65
      subst this
      simp only [beq_self_eq_true, if_true] at h
      cases hs : setAdd fs.prepend v with
      | none => rw [hs] at h; simp at h
      | some x => rw [hs] at h; simp at h; subst h; simp [Item.syscalls, Item.keys, Item.filters, Item.perms, Item.Ok]
    rw [if_neg h65] at h
    by_cases h67 : (n == 67) = true
    · have : n = 67 := by simpa using h67
      subst this
      simp only [beq_self_eq_true, if_true] at h
      cases hs : matchComparison v with
      | none => rw [hs] at h; simp at h
      | some x => rw [hs] at h; simp at h; subst h; simp [Item.syscalls, Item.keys, Item.filters, Item.perms, Item.Ok, hs]
    rw [if_neg h67] at h
    by_cases h70 : (n == 70) = true
    · have : n = 70 := by simpa using h70
      subst this
      simp only [beq_self_eq_true, if_true] at h
      cases hs : matchFilter v with
      | none => rw [hs] at h; simp at h
      | some x => rw [hs] at h; simp at h; subst h; simp [Item.syscalls, Item.keys, Item.filters, Item.perms, Item.Ok, hs]
    rw [if_neg h70] at h
    have n67 : n ≠ 67 := by simpa using h67
    have n70 : n ≠ 70 := by simpa using h70
    by_cases h83 : (n == 83) = true
    · have : n = 83 := by simpa using h83
      subst this
      rw [if_pos h83] at h; simp at h; subst h; simp [Item.syscalls, Item.keys, Item.filters, Item.perms, Item.Ok]
    rw [if_neg h83] at h
    have n83 : n ≠ 83 := by simpa using h83
    by_cases h112 : (n == 112) = true
    · have : n = 112 := by simpa using h112
      subst this
      rw [if_pos h112] at h
      cases hs : setPerms fs.perms v with
      | none => rw [hs] at h; simp at h
      | some x =>
        rw [hs] at h; simp at h; subst h
        obtain ⟨e, hall⟩ := setPerms_spec _ _ _ hs
        simp [Item.syscalls, Item.keys, Item.filters, Item.perms, Item.Ok, e]
        exact hall
    rw [if_neg h112] at h
    have n112 : n ≠ 112 := by simpa using h112
    by_cases h119 : (n == 119) = true
    · have : n = 119 := by simpa using h119
      subst this
      rw [if_pos h119] at h
      split at h
      · simp at h
      · simp at h; subst h; simp [Item.syscalls, Item.keys, Item.filters, Item.perms, Item.Ok]
    rw [if_neg h119] at h
    by_cases h107 : (n == 107) = true
    · have : n = 107 := by simpa using h107
      subst this
      rw [if_pos h107] at h; simp at h; subst h; simp [Item.syscalls, Item.keys, Item.filters, Item.perms, Item.Ok]
    rw [if_neg h107] at h
    simp at h

/-- applying a list of occurrences: the syscalls, keys, filters and permissions accumulated are the
concatenation, in order, of what each occurrence contributes, and every occurrence was accepted. -/
theorem applyItems_content (its : List Item) (fs fs' : FS) (h : applyItems its fs = some fs') :
    fs'.syscalls = fs.syscalls ++ its.flatMap Item.syscalls ∧ fs'.keys = fs.keys ++ its.flatMap Item.keys ∧
    fs'.filters = fs.filters ++ its.flatMap Item.filters ∧ fs'.perms = fs.perms ++ its.flatMap Item.perms ∧
    ∀ it ∈ its, it.Ok := by
  induction its generalizing fs with
  | nil => simp [applyItems] at h; subst h; simp
  | cons it its ih =>
    simp only [applyItems] at h
    obtain ⟨fs1, h1, h2⟩ := Option.bind_eq_some_iff.mp h
    obtain ⟨a1, a2, a3, a4, a5⟩ := applyItem_content h1
    obtain ⟨b1, b2, b3, b4, b5⟩ := ih fs1 h2
    refine ⟨by simp [b1, a1], by simp [b2, a2], by simp [b3, a3], by simp [b4, a4], ?_⟩
    intro x hx
    rcases List.mem_cons.mp hx with rfl | hx
    · exact a5
    · exact b5 x hx

/-! ### single-valued flags -/

/-- the value of a `-w` / `-a` / `-A` occurrence -/
def Item.wval : Item → Option Bytes
  | .val n v => if n == 119 then some v else none
  | _ => none
def Item.aval : Item → Option Bytes
  | .val n v => if n == 97 then some v else none
  | _ => none
def Item.pval : Item → Option Bytes
  | .val n v => if n == 65 then some v else none
  | _ => none

theorem applyItem_slots {fs fs1 : FS} {it : Item} (h : applyItem fs it = some fs1) :
    (match it.wval with
      | some v => fs.pathSet = false ∧ fs1.path = v ∧ fs1.pathSet = true
      | none => fs1.path = fs.path ∧ fs1.pathSet = fs.pathSet) ∧
    (match it.aval with
      | some v => fs.append = none ∧ fs1.append = setAdd none v ∧ fs1.append.isSome = true
      | none => fs1.append = fs.append) ∧
    (match it.pval with
      | some v => fs.prepend = none ∧ fs1.prepend = setAdd none v ∧ fs1.prepend.isSome = true
      | none => fs1.prepend = fs.prepend) := by
  cases it with
  | del b =>
    simp only [applyItem, Option.some.injEq] at h
    subst h
    simp [Item.wval, Item.aval, Item.pval]
  | val n v =>
    simp only [applyItem] at h
    unfold setFlag at h
    simp only at h
    by_cases h97 : (n == 97) = true
    · have : n = 97 := by simpa using h97
      subst this
      simp only [beq_self_eq_true, if_true] at h
      cases hc : fs.append with
      | some q => rw [hc] at h; simp [setAdd] at h
      | none =>
        rw [hc] at h
        cases hs : setAdd none v with
        | none => rw [hs] at h; simp at h
        | some x => rw [hs] at h; simp at h; subst h; simp [Item.wval, Item.aval, Item.pval, hs]
    rw [if_neg h97] at h
    have n97 : (n == 97) = false := by simpa using h97
    by_cases h65 : (n == 65) = true
    · have : n = 65 := by simpa using h65
      subst this
      simp only [beq_self_eq_true, if_true] at h
      cases hc : fs.prepend with
      | some q => rw [hc] at h; simp [setAdd] at h
      | none =>
        rw [hc] at h
        cases hs : setAdd none v with
        | none => rw [hs] at h; simp at h
        | some x => rw [hs] at h; simp at h; subst h; simp [Item.wval, Item.aval, Item.pval, hs]
    rw [if_neg h65] at h
    have n65 : (n == 65) = false := by simpa using h65
    by_cases h67 : (n == 67) = true
    · have : n = 67 := by simpa using h67
      subst this
      simp only [beq_self_eq_true, if_true] at h
      cases hs : matchComparison v with
      | none => rw [hs] at h; simp at h
      | some x => rw [hs] at h; simp at h; subst h; simp [Item.wval, Item.aval, Item.pval]
    rw [if_neg h67] at h
    by_cases h70 : (n == 70) = true
    · have : n = 70 := by simpa using h70
      subst this
      simp only [beq_self_eq_true, if_true] at h
      cases hs : matchFilter v with
      | none => rw [hs] at h; simp at h
      | some x => rw [hs] at h; simp at h; subst h; simp [Item.wval, Item.aval, Item.pval]
    rw [if_neg h70] at h
    by_cases h83 : (n == 83) = true
    · have : n = 83 := by simpa using h83
      subst this
      rw [if_pos h83] at h; simp at h; subst h; simp [Item.wval, Item.aval, Item.pval]
    rw [if_neg h83] at h
    by_cases h112 : (n == 112) = true
    · have : n = 112 := by simpa using h112
      subst this
      rw [if_pos h112] at h
      cases hs : setPerms fs.perms v with
      | none => rw [hs] at h; simp at h
      | some x => rw [hs] at h; simp at h; subst h; simp [Item.wval, Item.aval, Item.pval]
    rw [if_neg h112] at h
    by_cases h119 : (n == 119) = true
    · have : n = 119 := by simpa using h119
      subst this
      rw [if_pos h119] at h
      split at h
      · simp at h
      · rename_i hps
        simp at h; subst h
        simp [Item.wval, Item.aval, Item.pval]
        simpa using hps
    rw [if_neg h119] at h
    have n119 : (n == 119) = false := by simpa using h119
    by_cases h107 : (n == 107) = true
    · have : n = 107 := by simpa using h107
      subst this
      rw [if_pos h107] at h; simp at h; subst h; simp [Item.wval, Item.aval, Item.pval]
    rw [if_neg h107] at h
    simp at h

/-- -w is single-valued over the whole line: starting from no path, an accepted line has at most one
`-w` occurrence and the path is its complete value. -/
theorem applyItems_path (its : List Item) (fs fs' : FS) (h : applyItems its fs = some fs') :
    (fs.pathSet = true → its.filterMap Item.wval = [] ∧ fs'.path = fs.path ∧ fs'.pathSet = true) ∧
    (fs.pathSet = false →
      (its.filterMap Item.wval = [] ∧ fs'.path = fs.path ∧ fs'.pathSet = false) ∨
      (∃ v, its.filterMap Item.wval = [v] ∧ fs'.path = v ∧ fs'.pathSet = true)) := by
  induction its generalizing fs with
  | nil => simp [applyItems] at h; subst h; simp
  | cons it its ih =>
    simp only [applyItems] at h
    obtain ⟨fs1, h1, h2⟩ := Option.bind_eq_some_iff.mp h
    have hs := (applyItem_slots h1).1
    obtain ⟨i1, i2⟩ := ih fs1 h2
    cases hw : it.wval with
    | none =>
      rw [hw] at hs
      simp only [List.filterMap_cons, hw]
      rw [← hs.1, ← hs.2]
      exact ⟨i1, i2⟩
    | some v =>
      rw [hw] at hs
      obtain ⟨hf, hp, hps⟩ := hs
      simp only [List.filterMap_cons, hw]
      refine ⟨fun ht => (by rw [hf] at ht; cases ht), fun _ => Or.inr ⟨v, ?_⟩⟩
      obtain ⟨e1, e2, e3⟩ := i1 hps
      exact ⟨by rw [e1], by rw [e2, hp], e3⟩

theorem applyItems_append (its : List Item) (fs fs' : FS) (h : applyItems its fs = some fs') :
    (fs.append.isSome = true → its.filterMap Item.aval = [] ∧ fs'.append = fs.append) ∧
    (fs.append = none →
      (its.filterMap Item.aval = [] ∧ fs'.append = none) ∨
      (∃ v, its.filterMap Item.aval = [v] ∧ fs'.append = setAdd none v ∧ fs'.append.isSome = true)) := by
  induction its generalizing fs with
  | nil => simp [applyItems] at h; subst h; simp
  | cons it its ih =>
    simp only [applyItems] at h
    obtain ⟨fs1, h1, h2⟩ := Option.bind_eq_some_iff.mp h
    have hs := (applyItem_slots h1).2.1
    obtain ⟨i1, i2⟩ := ih fs1 h2
    cases hw : it.aval with
    | none =>
      rw [hw] at hs
      simp only [List.filterMap_cons, hw]
      rw [← hs]
      exact ⟨i1, i2⟩
    | some v =>
      rw [hw] at hs
      obtain ⟨hf, hp, hps⟩ := hs
      simp only [List.filterMap_cons, hw]
      refine ⟨fun ht => (by rw [hf] at ht; cases ht), fun _ => Or.inr ⟨v, ?_⟩⟩
      obtain ⟨e1, e2⟩ := i1 hps
      exact ⟨by rw [e1], by rw [e2, hp], by rw [e2]; exact hps⟩

theorem applyItems_prepend (its : List Item) (fs fs' : FS) (h : applyItems its fs = some fs') :
    (fs.prepend.isSome = true → its.filterMap Item.pval = [] ∧ fs'.prepend = fs.prepend) ∧
    (fs.prepend = none →
      (its.filterMap Item.pval = [] ∧ fs'.prepend = none) ∨
      (∃ v, its.filterMap Item.pval = [v] ∧ fs'.prepend = setAdd none v ∧ fs'.prepend.isSome = true)) := by
  induction its generalizing fs with
  | nil => simp [applyItems] at h; subst h; simp
  | cons it its ih =>
    simp only [applyItems] at h
    obtain ⟨fs1, h1, h2⟩ := Option.bind_eq_some_iff.mp h
    have hs := (applyItem_slots h1).2.2
    obtain ⟨i1, i2⟩ := ih fs1 h2
    cases hw : it.pval with
    | none =>
      rw [hw] at hs
      simp only [List.filterMap_cons, hw]
      rw [← hs]
      exact ⟨i1, i2⟩
    | some v =>
      rw [hw] at hs
      obtain ⟨hf, hp, hps⟩ := hs
      simp only [List.filterMap_cons, hw]
      refine ⟨fun ht => (by rw [hf] at ht; cases ht), fun _ => Or.inr ⟨v, ?_⟩⟩
      obtain ⟨e1, e2⟩ := i1 hps
      exact ⟨by rw [e1], by rw [e2, hp], by rw [e2]; exact hps⟩
end LA.Flags
