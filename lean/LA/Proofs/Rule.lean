/-
Helper lemmas about Model.Rule: little-endian words, layout, mask bits.
-/
import LA.Model.Flags
import LA.Spec.RuleLayout

namespace LA.Rule
open LA
open LA.Auparse (Res)

/-! ### words -/

theorem le32_length (w : Nat) : (le32 w).length = 4 := rfl

theorem flatMap_le32_length (ws : List Nat) : (ws.flatMap le32).length = 4 * ws.length := by
  induction ws with
  | nil => rfl
  | cons w ws ih => simp [List.flatMap_cons, ih, le32_length]; omega

theorem spec_word_le32 (w : Nat) (rest : Bytes) (h : w < 4294967296) :
    LA.Spec.RuleLayout.word (le32 w ++ rest) 0 = some w := by
  simp only [LA.Spec.RuleLayout.word, le32, List.drop_zero, List.cons_append, List.nil_append]
  congr 1
  omega

theorem spec_word_skip (pre : Bytes) (b : Bytes) (off : Nat) :
    LA.Spec.RuleLayout.word (pre ++ b) (pre.length + off) = LA.Spec.RuleLayout.word b off := by
  have : (pre ++ b).drop (pre.length + off) = b.drop off := by
    rw [← List.drop_drop]; simp
  simp only [LA.Spec.RuleLayout.word, this]

theorem spec_words_flatMap (ws : List Nat) (rest : Bytes) (h : ∀ w ∈ ws, w < 4294967296) (off : Nat) (pre : Bytes)
    (hoff : off = pre.length) :
    LA.Spec.RuleLayout.words (pre ++ (ws.flatMap le32 ++ rest)) off ws.length = some ws := by
  induction ws generalizing pre off with
  | nil => rfl
  | cons w ws ih =>
    simp only [List.length_cons, LA.Spec.RuleLayout.words, List.flatMap_cons, List.append_assoc]
    have h1 : LA.Spec.RuleLayout.word (pre ++ (le32 w ++ (ws.flatMap le32 ++ rest))) off = some w := by
      subst hoff
      have := spec_word_skip pre (le32 w ++ (ws.flatMap le32 ++ rest)) 0
      simp only [Nat.add_zero] at this
      rw [this]
      exact spec_word_le32 w _ (h w (by simp))
    have h2 := ih (fun x hx => h x (by simp [hx])) (off + 4) (pre ++ le32 w) (by simp [hoff, le32_length])
    simp only [List.append_assoc] at h2
    rw [h1, h2]

/-! ### mask bits -/

/-- partial sums of the bit construction. -/
def bitSum (p : Nat → Bool) : Nat → Nat
  | 0 => 0
  | n + 1 => bitSum p n + (if p n then 2 ^ n else 0)

theorem bitSum_lt (p : Nat → Bool) (n : Nat) : bitSum p n < 2 ^ n := by
  induction n with
  | zero => simp [bitSum]
  | succ n ih =>
    simp only [bitSum]
    have : 2 ^ (n + 1) = 2 ^ n + 2 ^ n := by rw [Nat.pow_succ]; omega
    split <;> omega

theorem testBit_bitSum (p : Nat → Bool) (n k : Nat) : (bitSum p n).testBit k = (decide (k < n) && p k) := by
  induction n with
  | zero => simp [bitSum]
  | succ n ih =>
    simp only [bitSum]
    by_cases hp : p n
    · simp only [hp, if_true]
      rw [Nat.add_comm]
      by_cases hk : k = n
      · subst hk
        rw [Nat.testBit_two_pow_add_eq, ih]
        simp [hp]
      · by_cases hlt : k < n
        · rw [Nat.testBit_two_pow_add_gt hlt, ih]
          simp [hlt, show k < n + 1 by omega]
        · have hgt : n < k := by omega
          have hlt' : 2 ^ n + bitSum p n < 2 ^ k := by
            have := bitSum_lt p n
            have : 2 ^ (n + 1) ≤ 2 ^ k := Nat.pow_le_pow_right (by omega) (by omega)
            have : 2 ^ (n + 1) = 2 ^ n + 2 ^ n := by rw [Nat.pow_succ]; omega
            omega
          rw [Nat.testBit_lt_two_pow hlt']
          simp [show ¬ k < n + 1 by omega]
    · simp only [hp, Bool.false_eq_true, if_false, Nat.add_zero, ih]
      by_cases hk : k = n
      · subst hk; simp [hp]
      · by_cases hlt : k < n
        · simp [hlt, show k < n + 1 by omega]
        · simp [hlt, show ¬ k < n + 1 by omega]

theorem foldl_range_bitSum (p : Nat → Bool) (n : Nat) :
    (List.range n).foldl (fun acc bit => if p bit then acc + 2 ^ bit else acc) 0 = bitSum p n := by
  induction n with
  | zero => rfl
  | succ n ih =>
    rw [List.range_succ, List.foldl_append, ih]
    simp only [List.foldl_cons, List.foldl_nil, bitSum]
    split <;> simp

theorem maskWord_eq (syscalls : List Nat) (w : Nat) :
    maskWord syscalls w = bitSum (fun bit => syscalls.contains (w * 32 + bit)) 32 := by
  unfold maskWord
  exact foldl_range_bitSum _ 32

end LA.Rule

namespace LA.Rule
open LA LA.Spec.RuleLayout

theorem words_length {b : Bytes} {off n : Nat} {l : List Nat} (h : words b off n = some l) : l.length = n := by
  induction n generalizing off l with
  | zero => simp [words] at h; subst h; rfl
  | succ n ih =>
    simp only [words] at h
    cases hw : word b off with
    | none => simp [hw] at h
    | some w =>
      cases hr : words b (off + 4) n with
      | none => simp [hw, hr] at h
      | some ws =>
        simp [hw, hr] at h
        subst h
        simp [ih hr]

theorem words_add (b : Bytes) (off n m : Nat) :
    words b off (n + m) =
      match words b off n, words b (off + 4 * n) m with
      | some a, some c => some (a ++ c)
      | _, _ => none := by
  induction n generalizing off with
  | zero => simp [words]; cases words b off m <;> rfl
  | succ n ih =>
    have e : n + 1 + m = (n + m) + 1 := by omega
    rw [e]
    simp only [words]
    rw [ih (off + 4)]
    have e2 : off + 4 + 4 * n = off + 4 * (n + 1) := by omega
    rw [e2]
    cases word b off <;> cases words b (off + 4) n <;> cases words b (off + 4 * (n + 1)) m <;> simp

/-- splitting a successful read of n + m words. -/
theorem words_split {b : Bytes} {off n m : Nat} {l : List Nat} (h : words b off (n + m) = some l) :
    words b off n = some (l.take n) ∧ words b (off + 4 * n) m = some (l.drop n) := by
  rw [words_add] at h
  cases ha : words b off n with
  | none => simp [ha] at h
  | some a =>
    cases hc : words b (off + 4 * n) m with
    | none => simp [ha, hc] at h
    | some c =>
      simp [ha, hc] at h
      subst h
      have := words_length ha
      simp [← this]

theorem word_of_words1 {b : Bytes} {off : Nat} {w : Nat} (h : words b off 1 = some [w]) : word b off = some w := by
  simp only [words] at h
  cases hw : word b off with
  | none => simp [hw] at h
  | some x => simp [hw] at h; rw [h]

end LA.Rule
