/-
Certificates over the regenerated tables (re-checked by the kernel whenever a table
changes) and the lemmas that lift them to statements about every entry.
-/
import LA.Model.MsgType

namespace LA.MsgType
open LA LA.Gen.MsgTypes

/-- every name→type entry is found through the search tree … -/
theorem cert_nameTree_complete :
    nameToType.all (fun p => nameTree.find (encode p.1) == some p.2) = true := by decide +kernel

/-- … and the tree contains nothing else. -/
theorem cert_nameTree_sound :
    nameTree.toList = nameToType.map (fun p => (encode p.1, p.2)) := by decide +kernel

/-- type → name followed by name → type is the identity on the table
(names are already upper case, so `upper` does nothing). -/
theorem cert_type_name_type :
    typeToName.all (fun p => nameTree.find (encode (upper p.2)) == some p.1) = true := by decide +kernel

/-- … also through the lower-cased text form. -/
theorem cert_type_lower_type :
    typeToName.all (fun p => nameTree.find (encode (upper (lower p.2))) == some p.1) = true := by decide +kernel

/-- names are byte strings without '[' . -/
theorem cert_names_clean :
    nameToType.all (fun p => p.1.all (fun b => decide (b < 256) && !(b == 91))) = true := by decide +kernel

/-- every type → name entry is reachable through the type tree. -/
theorem cert_typeTree_complete :
    (typeToName.zipIdx).all (fun q => typeTree.find q.1.1 == some q.2) = true := by decide +kernel

end LA.MsgType

namespace LA.MsgType
open LA LA.Gen.MsgTypes

theorem typeName_cases (t : Nat) :
    (typeName t = unknownName t) ∨ (∃ n, typeName t = n ∧ (t, n) ∈ typeToName) := by
  unfold typeName
  split
  · rename_i i _
    split
    · rename_i t' n hget
      split
      · rename_i heq
        right
        refine ⟨n, rfl, ?_⟩
        have : t' = t := by simpa using heq
        subst this
        exact List.mem_of_getElem? hget
      · exact Or.inl rfl
    · exact Or.inl rfl
  · exact Or.inl rfl

theorem indexOf_append_of_not_mem {c : Nat} {a : Bytes} (b : Bytes) (h : ∀ x ∈ a, (x == c) = false) :
    indexOf c (a ++ b) = (indexOf c b).map (· + a.length) := by
  induction a with
  | nil => simp
  | cons x a ih =>
    simp only [List.cons_append, indexOf, h x (by simp), Bool.false_eq_true, if_false,
      ih (fun y hy => h y (by simp [hy])), List.length_cons, Option.map_map]
    cases indexOf c b <;> simp [Nat.add_assoc]

theorem unknownName_isBytes (t : Nat) : IsBytes (unknownName t) := by
  intro b hb
  simp only [unknownName, unknownPrefix, List.mem_append, List.mem_cons, List.mem_nil_iff, or_false] at hb
  rcases hb with (hb | hb) | hb
  · rcases hb with h | h | h | h | h | h | h | h <;> omega
  · have := dec_digits _ b hb; simp [isDigit] at this; omega
  · omega

theorem upper_unknownName (t : Nat) : upper (unknownName t) = unknownName t := by
  apply upper_id_of
  intro b hb
  simp only [unknownName, unknownPrefix, List.mem_append, List.mem_cons, List.mem_nil_iff, or_false] at hb
  rcases hb with (hb | hb) | hb
  · rcases hb with h | h | h | h | h | h | h | h <;> subst h <;> rfl
  · exact digit_not_lower (dec_digits _ b hb)
  · subst hb; rfl

theorem unknownName_not_in_tree (t : Nat) : nameTree.find (encode (unknownName t)) = none := by
  cases h : nameTree.find (encode (unknownName t)) with
  | none => rfl
  | some v =>
    exfalso
    have hm := Tree.find_mem h
    rw [cert_nameTree_sound] at hm
    obtain ⟨p, hp, hpe⟩ := List.mem_map.mp hm
    have hclean := List.all_eq_true.mp cert_names_clean p hp
    have hclean' := List.all_eq_true.mp hclean
    have hb : IsBytes p.1 := fun b hb => by have := hclean' b hb; simp at this; exact this.1
    have heq : p.1 = unknownName t := encode_inj hb (unknownName_isBytes t) (by simpa using congrArg Prod.fst hpe)
    have : (91 : Nat) ∈ p.1 := by rw [heq]; simp [unknownName, unknownPrefix]
    have := hclean' 91 this
    simp at this

theorem getType_unknownName (t : Nat) (ht : t < 65536) : getType (unknownName t) = some t := by
  unfold getType
  simp only [upper_unknownName, unknownName_not_in_tree]
  have hmod : t % 65536 = t := Nat.mod_eq_of_lt ht
  have h1 : indexOf 91 (unknownName t) = some 7 := by
    simp [unknownName, unknownPrefix, indexOf]
  simp only [h1]
  have h2 : (unknownName t).drop (7 + 1) = dec t ++ [93] := by
    simp [unknownName, unknownPrefix, hmod]
  rw [h2]
  have h3 : indexOf 93 (dec t ++ [93]) = some (dec t).length := by
    rw [indexOf_append_of_not_mem]
    · simp [indexOf]
    · intro x hx
      have := dec_digits t x hx
      simp [isDigit] at this
      simp; omega
  simp only [h3, List.take_left']
  exact parseUint_dec t 65535 (by omega)

end LA.MsgType
