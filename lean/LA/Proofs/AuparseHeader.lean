/-
Lemmas for the header round trip (C04): parsing a line that was written from its parts.
-/
import LA.Proofs.Auparse
import LA.Proofs.Tables

namespace LA.Auparse
open LA

theorem indexOf_append_sep {c : Nat} {a : Bytes} (b : Bytes) (h : c ∉ a) :
    indexOf c (a ++ c :: b) = some a.length := by
  induction a with
  | nil => simp [indexOf]
  | cons x a ih =>
    have hx : (x == c) = false := by simpa using fun hh => h (by simp [hh])
    simp only [List.cons_append, indexOf, hx, Bool.false_eq_true, if_false, ih (fun hh => h (by simp [hh])),
      Option.map_some, List.length_cons]

theorem indexOfSub_append {t : Bytes} {a : Bytes} (b : Bytes) (h : (109 : Nat) ∉ a) :
    indexOfSub (109 :: t) (a ++ (109 :: t) ++ b) = some a.length := by
  induction a with
  | nil => simp [indexOfSub, hasPrefix]
  | cons x a ih =>
    have hx : x ≠ 109 := fun hh => h (by simp [hh])
    simp only [List.cons_append, List.append_assoc, indexOfSub, hasPrefix]
    have hp : (109 :: t).isPrefixOf (x :: (a ++ (109 :: (t ++ b)))) = false := by
      simp [List.isPrefixOf, Ne.symm hx]
    simp only [hp, Bool.false_eq_true, if_false]
    have := ih (fun hh => h (by simp [hh]))
    simp only [List.append_assoc, List.cons_append] at this
    simp [this]

theorem slice_mid (a b c : Bytes) :
    slice (a ++ b ++ c) (a.length : Int) ((a.length + b.length : Nat) : Int) = Res.ok b := by
  rw [slice_ok (by simp; omega)]
  simp only [Int.toNat_natCast, List.append_assoc, List.drop_left']
  have e : a.length + b.length - a.length = b.length := by omega
  rw [e, List.take_left' rfl]

/-- the header indices of a line written from its parts. -/
theorem headerIdx_decomp (pre S M N rest : Bytes) (h1 : (40 : Nat) ∉ pre) (h2 : (46 : Nat) ∉ S) (h3 : (58 : Nat) ∉ M)
    (h4 : (41 : Nat) ∉ N) :
    headerIdx (pre ++ 40 :: (S ++ 46 :: (M ++ 58 :: (N ++ 41 :: rest)))) =
      some (pre.length, pre.length + (1 + S.length), pre.length + (1 + S.length) + (1 + M.length),
        pre.length + (1 + S.length) + (1 + M.length) + (1 + N.length)) := by
  unfold headerIdx
  rw [indexOf_append_sep _ h1]
  simp only [List.drop_left']
  have e1 : indexOf 46 (40 :: (S ++ 46 :: (M ++ 58 :: (N ++ 41 :: rest)))) = some (1 + S.length) := by
    have := indexOf_append_sep (c := 46) (a := 40 :: S) (M ++ 58 :: (N ++ 41 :: rest)) (by simp [h2])
    simpa [Nat.add_comm] using this
  rw [e1]
  simp only
  have d1 : (pre ++ 40 :: (S ++ 46 :: (M ++ 58 :: (N ++ 41 :: rest)))).drop (pre.length + (1 + S.length)) =
      46 :: (M ++ 58 :: (N ++ 41 :: rest)) := by
    have : pre ++ 40 :: (S ++ 46 :: (M ++ 58 :: (N ++ 41 :: rest))) = (pre ++ 40 :: S) ++ 46 :: (M ++ 58 :: (N ++ 41 :: rest)) := by simp
    rw [this, List.drop_left' (by simp; omega)]
  rw [d1]
  have e2 : indexOf 58 (46 :: (M ++ 58 :: (N ++ 41 :: rest))) = some (1 + M.length) := by
    have := indexOf_append_sep (c := 58) (a := 46 :: M) (N ++ 41 :: rest) (by simp [h3])
    simpa [Nat.add_comm] using this
  rw [e2]
  simp only
  have d2 : (pre ++ 40 :: (S ++ 46 :: (M ++ 58 :: (N ++ 41 :: rest)))).drop (pre.length + (1 + S.length) + (1 + M.length)) =
      58 :: (N ++ 41 :: rest) := by
    have : pre ++ 40 :: (S ++ 46 :: (M ++ 58 :: (N ++ 41 :: rest))) = (pre ++ 40 :: (S ++ 46 :: M)) ++ 58 :: (N ++ 41 :: rest) := by simp
    rw [this, List.drop_left' (by simp; omega)]
  rw [d2]
  have e3 : indexOf 41 (58 :: (N ++ 41 :: rest)) = some (1 + N.length) := by
    have := indexOf_append_sep (c := 41) (a := 58 :: N) rest (by simp [h4])
    simpa [Nat.add_comm] using this
  rw [e3]

/-- A line that decomposes as pre ( S . M : N ) rest — with the separators absent from the parts
before them — parses exactly when the three numbers parse, and then to those numbers. -/
theorem parseAuditHeader_decomp (pre S M N rest : Bytes) (h1 : (40 : Nat) ∉ pre) (h2 : (46 : Nat) ∉ S)
    (h3 : (58 : Nat) ∉ M) (h4 : (41 : Nat) ∉ N) :
    parseAuditHeader (pre ++ 40 :: (S ++ 46 :: (M ++ 58 :: (N ++ 41 :: rest)))) =
      match headerNums S M N with
      | some (sec, nsec, seq) => Res.ok (sec, nsec, seq, ((pre.length + (1 + S.length) + (1 + M.length) + (1 + N.length) : Nat) : Int))
      | none => Res.err "hdr" := by
  unfold parseAuditHeader
  rw [headerIdx_decomp pre S M N rest h1 h2 h3 h4]
  simp only
  have s1 : slice (pre ++ 40 :: (S ++ 46 :: (M ++ 58 :: (N ++ 41 :: rest)))) ((pre.length : Int) + 1)
      ((pre.length + (1 + S.length) : Nat) : Int) = Res.ok S := by
    have := slice_mid (pre ++ [40]) S (46 :: (M ++ 58 :: (N ++ 41 :: rest)))
    simp only [List.append_assoc, List.singleton_append, List.length_append, List.length_cons, List.length_nil] at this
    have e : ((pre.length + (0 + 1) : Nat) : Int) = (pre.length : Int) + 1 := by omega
    have e' : ((pre.length + (0 + 1) + S.length : Nat) : Int) = ((pre.length + (1 + S.length) : Nat) : Int) := by omega
    rw [e, e'] at this
    simpa using this
  have s2 : slice (pre ++ 40 :: (S ++ 46 :: (M ++ 58 :: (N ++ 41 :: rest)))) (((pre.length + (1 + S.length) : Nat) : Int) + 1)
      ((pre.length + (1 + S.length) + (1 + M.length) : Nat) : Int) = Res.ok M := by
    have := slice_mid (pre ++ 40 :: (S ++ [46])) M (58 :: (N ++ 41 :: rest))
    simp only [List.append_assoc, List.singleton_append, List.cons_append, List.length_append, List.length_cons, List.length_nil] at this
    have e : ((pre.length + (S.length + (0 + 1) + 1) : Nat) : Int) = ((pre.length + (1 + S.length) : Nat) : Int) + 1 := by omega
    have e' : ((pre.length + (S.length + (0 + 1) + 1) + M.length : Nat) : Int) = ((pre.length + (1 + S.length) + (1 + M.length) : Nat) : Int) := by omega
    rw [e, e'] at this
    simpa using this
  have s3 : slice (pre ++ 40 :: (S ++ 46 :: (M ++ 58 :: (N ++ 41 :: rest)))) (((pre.length + (1 + S.length) + (1 + M.length) : Nat) : Int) + 1)
      ((pre.length + (1 + S.length) + (1 + M.length) + (1 + N.length) : Nat) : Int) = Res.ok N := by
    have := slice_mid (pre ++ 40 :: (S ++ 46 :: (M ++ [58]))) N (41 :: rest)
    simp only [List.append_assoc, List.singleton_append, List.cons_append, List.length_append, List.length_cons, List.length_nil] at this
    have e : ((pre.length + (S.length + (M.length + (0 + 1) + 1) + 1) : Nat) : Int) = ((pre.length + (1 + S.length) + (1 + M.length) : Nat) : Int) + 1 := by omega
    have e' : ((pre.length + (S.length + (M.length + (0 + 1) + 1) + 1) + N.length : Nat) : Int) = ((pre.length + (1 + S.length) + (1 + M.length) + (1 + N.length) : Nat) : Int) := by omega
    rw [e, e'] at this
    simpa using this
  rw [s1, s2, s3]
  simp only
  cases headerNums S M N with
  | none => rfl
  | some q => obtain ⟨a, b, c⟩ := q; rfl

theorem indexOf_split {c : Nat} {s : Bytes} {i : Nat} (h : indexOf c s = some i) :
    ∃ a b, s = a ++ c :: b ∧ c ∉ a ∧ a.length = i := by
  obtain ⟨h1, h2, h3⟩ := indexOf_spec h
  refine ⟨s.take i, s.drop (i + 1), ?_, h3, by simp; omega⟩
  rw [← h2, List.take_append_drop]

/-- converse of `headerIdx_decomp`: whenever the four separators are found, the line is cut by them
into parts none of which contains the separator that ends it. -/
theorem headerIdx_some {line : Bytes} {q : Nat × Nat × Nat × Nat} (h : headerIdx line = some q) :
    ∃ pre S M N rest, (40 : Nat) ∉ pre ∧ (46 : Nat) ∉ S ∧ (58 : Nat) ∉ M ∧ (41 : Nat) ∉ N ∧
      line = pre ++ 40 :: (S ++ 46 :: (M ++ 58 :: (N ++ 41 :: rest))) := by
  unfold headerIdx at h
  cases h1 : indexOf 40 line with
  | none => simp [h1] at h
  | some a =>
    simp only [h1] at h
    obtain ⟨pre, t1, e1, n1, l1⟩ := indexOf_split h1
    have d1 : line.drop a = 40 :: t1 := by rw [e1, List.drop_left' l1]
    rw [d1] at h
    cases h2 : indexOf 46 (40 :: t1) with
    | none => simp [h2] at h
    | some b =>
      simp only [h2] at h
      obtain ⟨x, t2, e2, n2, l2⟩ := indexOf_split h2
      cases x with
      | nil => simp at e2
      | cons x0 S =>
        simp only [List.cons_append, List.cons.injEq] at e2
        obtain ⟨ex, e2⟩ := e2
        subst ex
        have d2 : line.drop (a + b) = 46 :: t2 := by
          have : line = (pre ++ 40 :: S) ++ 46 :: t2 := by rw [e1, e2]; simp
          rw [this, List.drop_left' (by simp at l2 ⊢; omega)]
        rw [d2] at h
        cases h3 : indexOf 58 (46 :: t2) with
        | none => simp [h3] at h
        | some c =>
          simp only [h3] at h
          obtain ⟨y, t3, e3, n3, l3⟩ := indexOf_split h3
          cases y with
          | nil => simp at e3
          | cons y0 M =>
            simp only [List.cons_append, List.cons.injEq] at e3
            obtain ⟨ey, e3⟩ := e3
            subst ey
            have d3 : line.drop (a + b + c) = 58 :: t3 := by
              have : line = (pre ++ 40 :: (S ++ 46 :: M)) ++ 58 :: t3 := by rw [e1, e2, e3]; simp
              rw [this, List.drop_left' (by simp at l2 l3 ⊢; omega)]
            rw [d3] at h
            cases h4 : indexOf 41 (58 :: t3) with
            | none => simp [h4] at h
            | some d =>
              obtain ⟨z, rest, e4, n4, l4⟩ := indexOf_split h4
              cases z with
              | nil => simp at e4
              | cons z0 N =>
                simp only [List.cons_append, List.cons.injEq] at e4
                obtain ⟨ez, e4⟩ := e4
                subst ez
                refine ⟨pre, S, M, N, rest, n1, ?_, ?_, ?_, ?_⟩
                · exact fun hh => n2 (by simp [hh])
                · exact fun hh => n3 (by simp [hh])
                · exact fun hh => n4 (by simp [hh])
                · rw [e1, e2, e3, e4]

/-- success ⇒ decomposes: a header that parses was cut at '(' '.' ':' ')' in this order into three
numbers that are valid, and the answer is those numbers and the position of ')'. -/
theorem parseAuditHeader_ok_decomp {line : Bytes} {sec nsec : Int} {seq : Nat} {e : Int}
    (h : parseAuditHeader line = Res.ok (sec, nsec, seq, e)) :
    ∃ pre S M N rest, (40 : Nat) ∉ pre ∧ (46 : Nat) ∉ S ∧ (58 : Nat) ∉ M ∧ (41 : Nat) ∉ N ∧
      line = pre ++ 40 :: (S ++ 46 :: (M ++ 58 :: (N ++ 41 :: rest))) ∧
      headerNums S M N = some (sec, nsec, seq) ∧
      e = ((pre.length + (1 + S.length) + (1 + M.length) + (1 + N.length) : Nat) : Int) := by
  cases hi : headerIdx line with
  | none => simp [parseAuditHeader, hi] at h
  | some q =>
    obtain ⟨pre, S, M, N, rest, n1, n2, n3, n4, el⟩ := headerIdx_some hi
    refine ⟨pre, S, M, N, rest, n1, n2, n3, n4, el, ?_⟩
    rw [el, parseAuditHeader_decomp pre S M N rest n1 n2 n3 n4] at h
    cases hn : headerNums S M N with
    | none => simp [hn] at h
    | some r =>
      obtain ⟨a, b, c⟩ := r
      simp only [hn, Res.ok.injEq, Prod.mk.injEq] at h
      obtain ⟨rfl, rfl, rfl, rfl⟩ := h
      exact ⟨rfl, rfl⟩

end LA.Auparse
