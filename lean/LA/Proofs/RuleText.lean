/-
The text half of the round trip composed over a whole line, for the class of syscall rules whose
filters are all numeric (no string-valued field, no arch filter, no inter-field comparison) and
that apply to all syscalls: helper lemmas for `C07_roundtrip_numeric`.
-/
import LA.Proofs.RuleWire
import LA.Model.Flags

namespace LA.Rule
open LA LA.Flags
open LA.Auparse (Res)

/-! ### names of lists and actions -/

theorem setList_getList {fl : Nat} {l : Bytes} (h : getList fl = some l) : setList l = some fl := by
  unfold getList at h
  split at h
  · rename_i he; simp only [Option.some.injEq] at h; subst h
    have : fl = LA.Gen.RuleTables.exitFilter := by simpa using he
    subst this; decide +kernel
  · split at h
    · rename_i he; simp only [Option.some.injEq] at h; subst h
      have : fl = LA.Gen.RuleTables.taskFilter := by simpa using he
      subst this; decide +kernel
    · split at h
      · rename_i he; simp only [Option.some.injEq] at h; subst h
        have : fl = LA.Gen.RuleTables.userFilter := by simpa using he
        subst this; decide +kernel
      · split at h
        · rename_i he; simp only [Option.some.injEq] at h; subst h
          have : fl = LA.Gen.RuleTables.excludeFilter := by simpa using he
          subst this; decide +kernel
        · cases h

theorem setAction_getAction {ac : Nat} {a : Bytes} (h : getAction ac = some a) : setAction a = some ac := by
  unfold getAction at h
  split at h
  · rename_i he; simp only [Option.some.injEq] at h; subst h
    have : ac = LA.Gen.RuleTables.alwaysAction := by simpa using he
    subst this; decide +kernel
  · split at h
    · rename_i he; simp only [Option.some.injEq] at h; subst h
      have : ac = LA.Gen.RuleTables.neverAction := by simpa using he
      subst this; decide +kernel
    · cases h

/-- the `-a` value ToCommandLine prints (`action,list`) is accepted by the -a flag and read back
as that list and action. -/
theorem setAdd_print {fl ac : Nat} {l a : Bytes} (hl : getList fl = some l) (ha : getAction ac = some a) :
    setAdd none (a ++ [44] ++ l) = some (l, a) := by
  have hls : l = ofString "exit" ∨ l = ofString "task" ∨ l = ofString "user" ∨ l = ofString "exclude" := by
    unfold getList at hl
    repeat' split at hl
    all_goals first
      | (simp only [Option.some.injEq] at hl; subst hl; simp)
      | cases hl
  have has : a = ofString "always" ∨ a = ofString "never" := by
    unfold getAction at ha
    repeat' split at ha
    all_goals first
      | (simp only [Option.some.injEq] at ha; subst ha; simp)
      | cases ha
  rcases hls with rfl | rfl | rfl | rfl <;> rcases has with rfl | rfl <;> decide +kernel

/-! ### the flag loop on the printed tokens -/

def tokA : Bytes := [45, 97]   -- "-a"
def tokS : Bytes := [45, 83]   -- "-S"
def tokF : Bytes := [45, 70]   -- "-F"

theorem parseLoop_value_flag (n : Nat) (hn : classify [45, n] = .flag n false []) (h68 : (n == 68) = false)
    (hv : valueFlags.contains n = true) (fuel : Nat) (v : Bytes) (rest : List Bytes) (fs : FS) :
    parseLoop (fuel + 1) ([45, n] :: v :: rest) fs = (setFlag fs n v).bind (parseLoop fuel rest) := by
  simp only [parseLoop, hn, h68, Bool.false_eq_true, if_false, hv, if_true]

theorem parseLoop_a (fuel : Nat) (v : Bytes) (rest : List Bytes) (fs : FS) :
    parseLoop (fuel + 1) (tokA :: v :: rest) fs = (setFlag fs 97 v).bind (parseLoop fuel rest) :=
  parseLoop_value_flag 97 (by decide) (by decide) (by decide) fuel v rest fs

theorem parseLoop_S (fuel : Nat) (v : Bytes) (rest : List Bytes) (fs : FS) :
    parseLoop (fuel + 1) (tokS :: v :: rest) fs = (setFlag fs 83 v).bind (parseLoop fuel rest) :=
  parseLoop_value_flag 83 (by decide) (by decide) (by decide) fuel v rest fs

theorem parseLoop_F (fuel : Nat) (v : Bytes) (rest : List Bytes) (fs : FS) :
    parseLoop (fuel + 1) (tokF :: v :: rest) fs = (setFlag fs 70 v).bind (parseLoop fuel rest) :=
  parseLoop_value_flag 70 (by decide) (by decide) (by decide) fuel v rest fs

/-- the `-F` tokens of a list of (lhs, op, rhs) parts -/
def fTokens (ts : List (Bytes × Bytes × Bytes)) : List Bytes :=
  ts.flatMap (fun t => [tokF, t.1 ++ t.2.1 ++ t.2.2])

def mkFilter (t : Bytes × Bytes × Bytes) : FilterSpec := ⟨2, t.1, t.2.1, t.2.2⟩

/-- the flag loop over a run of `-F` tokens that each re-parse into their parts: exactly one
filter per token, in order, and 70 recorded as visited for each. -/
theorem parseLoop_fTokens (ts : List (Bytes × Bytes × Bytes))
    (hm : ∀ t ∈ ts, matchFilter (t.1 ++ t.2.1 ++ t.2.2) = some t) (fuel : Nat) (rest : List Bytes) (fs : FS) :
    parseLoop (fuel + ts.length) (fTokens ts ++ rest) fs =
      parseLoop fuel rest { fs with filters := fs.filters ++ ts.map mkFilter,
                                    visited := fs.visited ++ List.replicate ts.length 70 } := by
  induction ts generalizing fs with
  | nil => simp [fTokens]
  | cons t ts ih =>
    have e : fuel + (t :: ts).length = (fuel + ts.length) + 1 := by simp; omega
    rw [e]
    simp only [fTokens, List.flatMap_cons, List.cons_append, List.nil_append]
    rw [parseLoop_F]
    have hs : setFlag fs 70 (t.1 ++ t.2.1 ++ t.2.2) =
        some { fs with visited := fs.visited ++ [70], filters := fs.filters ++ [mkFilter t] } := by
      have hmt := hm t (by simp)
      unfold setFlag
      simp only [show ((70 : Nat) == 97) = false by decide, show ((70 : Nat) == 65) = false by decide,
        show ((70 : Nat) == 67) = false by decide, Bool.false_eq_true, if_false, beq_self_eq_true, if_true, hmt,
        Option.map_some, mkFilter]
    rw [hs]
    simp only [Option.bind_some]
    have := ih (fun x hx => hm x (by simp [hx])) { fs with visited := fs.visited ++ [70], filters := fs.filters ++ [mkFilter t] }
    simp only [fTokens] at this
    rw [this]
    simp [List.replicate_succ, List.append_assoc]

/-! ### printing numeric fields -/

/-- a numeric triple: not a string-valued field, not arch, not an inter-field comparison, and its
field and operator codes have names. -/
structure NumTrip (t : Nat × Nat × Nat) (lhs opS : Bytes) : Prop where
  notStr : stringFields.contains t.1 = false
  notArch : (t.1 == LA.Gen.RuleTables.archField) = false
  notCmp : (t.1 == LA.Gen.RuleTables.fieldCompare) = false
  lhs : revLookup LA.Gen.RuleTables.fieldsTable t.1 = some lhs
  op : revLookup LA.Gen.RuleTables.operatorsTable t.2.2 = some opS

/-- the parts printed for a numeric triple -/
def partsOf (t : Nat × Nat × Nat) (lhs opS : Bytes) : Bytes × Bytes × Bytes := (lhs, opS, fieldRhs t.1 t.2.1)

/-- printFields on numeric triples prints one `-F name op value` element per triple, in order. -/
theorem printFields_numeric (ts : List (Nat × Nat × Nat)) (names : List (Bytes × Bytes)) (strs : List Bytes)
    (hlen : names.length = ts.length)
    (hn : ∀ (i : Nat) (t : Nat × Nat × Nat) (nm : Bytes × Bytes), ts[i]? = some t → names[i]? = some nm → NumTrip t nm.1 nm.2) :
    printFields (ts.map (·.1)) (ts.map (·.2.1)) (ts.map (·.2.2)) strs =
      some ((ts.zip names).map (fun p => ofString "-F " ++ p.2.1 ++ p.2.2 ++ fieldRhs p.1.1 p.1.2.1)) := by
  induction ts generalizing names with
  | nil => simp [printFields]
  | cons t ts ih =>
    cases names with
    | nil => simp at hlen
    | cons nm names =>
      have h0 := hn 0 t nm rfl rfl
      simp only [List.map_cons, printFields, h0.op, h0.notArch, Bool.false_eq_true, if_false, h0.notCmp, h0.lhs, h0.notStr]
      rw [ih names (by simpa using hlen) (fun i t' nm' ht hnm => hn (i + 1) t' nm' (by simpa using ht) (by simpa using hnm))]
      simp [List.append_assoc]

end LA.Rule
