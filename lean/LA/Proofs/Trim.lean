/-
strings.TrimSpace never eats into text that is delimited by non-space ASCII bytes: whatever
follows such a byte, only (Unicode) white space after it is removed.
-/
import LA.Base.Str

namespace LA

/-- a trailing white-space rune found by `trailingSpaceLenRev` is a prefix of the (reversed)
string made only of ASCII white space or non-ASCII bytes. -/
theorem trailingSpaceLenRev_spec (l : Bytes) :
    ∃ w l', l = w ++ l' ∧ w.length = trailingSpaceLenRev l ∧ ∀ b ∈ w, isAsciiSpace b = true ∨ b ≥ 128 := by
  cases l with
  | nil => exact ⟨[], [], rfl, rfl, by simp⟩
  | cons b rest =>
    unfold trailingSpaceLenRev
    by_cases hs : isAsciiSpace b = true
    · simp only [hs, if_true]
      exact ⟨[b], rest, rfl, rfl, by simp [hs]⟩
    · simp only [hs, Bool.false_eq_true, if_false]
      split
      · rename_i t; exact ⟨[133, 194], t, rfl, rfl, by simp⟩
      · rename_i t; exact ⟨[160, 194], t, rfl, rfl, by simp⟩
      · rename_i t; exact ⟨[128, 154, 225], t, rfl, rfl, by simp⟩
      · rename_i t
        split
        · rename_i hc
          refine ⟨[b, 128, 226], t, rfl, rfl, ?_⟩
          intro x hx
          simp only [List.mem_cons, List.mem_nil_iff, or_false] at hx
          rcases hx with rfl | rfl | rfl
          · right
            simp only [Bool.or_eq_true, decide_eq_true_eq, beq_iff_eq] at hc
            omega
          · right; omega
          · right; omega
        · exact ⟨[], _, rfl, rfl, by simp⟩
      · rename_i t; exact ⟨[159, 129, 226], t, rfl, rfl, by simp⟩
      · rename_i t; exact ⟨[128, 128, 227], t, rfl, rfl, by simp⟩
      · exact ⟨[], _, rfl, rfl, by simp⟩

/-- right-trimming (on the reversed string) stops at or before a non-space ASCII byte. -/
theorem trimRightSpaceRevAux_keeps (f : Nat) (r Q : Bytes) (z : Nat) (hz : z < 128) (hz' : isAsciiSpace z = false) :
    ∃ r', trimRightSpaceRevAux f (r ++ z :: Q) = r' ++ z :: Q := by
  induction f generalizing r with
  | zero => exact ⟨r, rfl⟩
  | succ f ih =>
    unfold trimRightSpaceRevAux
    obtain ⟨w, l', hl, hwlen, hw⟩ := trailingSpaceLenRev_spec (r ++ z :: Q)
    cases hn : trailingSpaceLenRev (r ++ z :: Q) with
    | zero => exact ⟨r, rfl⟩
    | succ n =>
      simp only
      have hznot : z ∉ w := by
        intro hm
        rcases hw z hm with h | h
        · rw [hz'] at h; cases h
        · omega
      rcases List.append_eq_append_iff.mp hl with ⟨a', hwa, hzq⟩ | ⟨c', hrc, hlc⟩
      · -- w = r ++ a', z :: Q = a' ++ l'
        cases a' with
        | nil =>
          simp only [List.append_nil] at hwa
          simp only [List.nil_append] at hzq
          have : (r ++ z :: Q).drop (n + 1) = z :: Q := by
            rw [← hn, ← hwlen, hwa]; simp
          rw [this]
          have := ih []
          simpa using this
        | cons x xs =>
          simp only [List.cons_append, List.cons.injEq] at hzq
          exact absurd (by rw [hwa, hzq.1]; simp) hznot
      · -- r = w ++ c', l' = c' ++ z :: Q
        have : (r ++ z :: Q).drop (n + 1) = c' ++ z :: Q := by
          rw [← hn, ← hwlen, hrc]; simp
        rw [this]
        exact ih c'

theorem leadingSpaceLen_ascii (x : Nat) (r : Bytes) (hx : x < 128) (hx' : isAsciiSpace x = false) :
    leadingSpaceLen (x :: r) = 0 := by
  unfold leadingSpaceLen
  simp only [hx', Bool.false_eq_true, if_false]
  split
  all_goals first | rfl | omega | (rw [if_neg]; simp; omega)

/-- TrimSpace of text that starts with a non-space ASCII byte `a` and contains a non-space ASCII
byte `z` keeps everything up to and including `z`; only what follows `z` can change. -/
theorem trimSpace_keeps_prefix (a : Nat) (mid : Bytes) (z : Nat) (t : Bytes) (ha : a < 128) (ha' : isAsciiSpace a = false)
    (hz : z < 128) (hz' : isAsciiSpace z = false) :
    ∃ t', trimSpace (a :: (mid ++ z :: t)) = a :: (mid ++ z :: t') := by
  have hl : trimLeftSpace (a :: (mid ++ z :: t)) = a :: (mid ++ z :: t) := by
    simp [trimLeftSpace, trimLeftSpaceAux, leadingSpaceLen_ascii a _ ha ha']
  have hrev : (a :: (mid ++ z :: t)).reverse = t.reverse ++ z :: (mid.reverse ++ [a]) := by simp
  obtain ⟨r', hr'⟩ := trimRightSpaceRevAux_keeps (a :: (mid ++ z :: t)).length t.reverse (mid.reverse ++ [a]) z hz hz'
  refine ⟨r'.reverse, ?_⟩
  unfold trimSpace
  rw [hl]
  unfold trimRightSpace
  rw [hrev, hr']
  simp

end LA
