/-
The deadline invariant of the Reassembler model over whole histories (C19, C10).
-/
import LA.Proofs.Reasm

namespace LA.Reasm

/-- every buffered event's deadline is the clock reading of the push that buffered its first record,
plus the timeout. -/
def DeadlineFromFirstPush (T : Int) (hist : List Op) (b : Buf) : Prop :=
  ∀ p ∈ b, ∃ m tp tc, Op.push m tp tc ∈ hist ∧ p.2.msgs.head? = some m ∧ p.2.expire = tp + T

theorem dl_mono {T : Int} {h h' : List Op} {b : Buf} (hs : ∀ o ∈ h, o ∈ h') (hd : DeadlineFromFirstPush T h b) :
    DeadlineFromFirstPush T h' b := by
  intro p hp
  obtain ⟨m, tp, tc, hm, h1, h2⟩ := hd p hp
  exact ⟨m, tp, tc, hs _ hm, h1, h2⟩

theorem dl_sub {T : Int} {h : List Op} {b b' : Buf} (hs : ∀ p ∈ b', p ∈ b) (hd : DeadlineFromFirstPush T h b) :
    DeadlineFromFirstPush T h b' := fun p hp => hd p (hs p hp)

theorem head?_append_of_some {α} {l : List α} {a : α} (h : l.head? = some a) (r : List α) : (l ++ r).head? = some a := by
  cases l with
  | nil => simp at h
  | cons x xs => simpa using h

theorem dl_put {T : Int} {h : List Op} {s : St} (hT : s.timeout = T) (hd : DeadlineFromFirstPush T h s.buf)
    (m : Msg) (tp tc : Int) : DeadlineFromFirstPush T (h ++ [Op.push m tp tc]) (put s m tp).buf := by
  intro p hp
  unfold put at hp
  split at hp
  · obtain ⟨q, hq, _, hmsgs, hexp, _⟩ := mem_markComplete hp
    obtain ⟨m0, tp0, tc0, hm0, h1, h2⟩ := hd q hq
    exact ⟨m0, tp0, tc0, by simp [hm0], by rw [← hmsgs, h1], by rw [← hexp, h2]⟩
  · split at hp
    · obtain ⟨q, hq, _, hexp, hcase⟩ := mem_appendTo hp
      obtain ⟨m0, tp0, tc0, hm0, h1, h2⟩ := hd q hq
      refine ⟨m0, tp0, tc0, by simp [hm0], ?_, by rw [← hexp, h2]⟩
      rcases hcase with ⟨hm, _⟩ | ⟨_, hm, _⟩
      · rw [hm, h1]
      · rw [hm]; exact head?_append_of_some h1 _
    · rcases mem_insertEnd.mp hp with hp | hp
      · subst hp
        exact ⟨m, tp, tc, by simp, rfl, by simp [hT]⟩
      · obtain ⟨m0, tp0, tc0, hm0, h1, h2⟩ := hd p hp
        exact ⟨m0, tp0, tc0, by simp [hm0], h1, h2⟩

theorem mem_cleanUp_snd {now m : Int} {b : Buf} {p : Nat × Ev} (h : p ∈ (cleanUp now m b).2) : p ∈ b := by
  rw [← cleanUp_append now m b]; exact List.mem_append_right _ h

theorem dl_step {T : Int} {h : List Op} {s : St} (hT : s.timeout = T) (hd : DeadlineFromFirstPush T h s.buf) (op : Op) :
    (step s op).1.timeout = T ∧ DeadlineFromFirstPush T (h ++ [op]) (step s op).1.buf := by
  have hmono : DeadlineFromFirstPush T (h ++ [op]) s.buf := dl_mono (fun o ho => by simp [ho]) hd
  cases op with
  | push m tp tc =>
    refine ⟨by simp [step, evictStep, put]; split <;> (try split) <;> exact hT, ?_⟩
    have := dl_put hT hd m tp tc
    simp only [step, evictStep]
    exact dl_sub (fun p hp => mem_cleanUp_snd hp) this
  | pushNil => exact ⟨hT, hmono⟩
  | maintain t =>
    simp only [step]
    split
    · exact ⟨hT, hmono⟩
    · exact ⟨hT, dl_sub (fun p hp => mem_cleanUp_snd hp) hmono⟩
  | close =>
    simp only [step]
    split
    · exact ⟨hT, hmono⟩
    · exact ⟨hT, fun p hp => by simp [evictStep] at hp⟩

theorem dl_run {T : Int} (ops : List Op) : ∀ (h : List Op) (s : St), s.timeout = T → DeadlineFromFirstPush T h s.buf →
    DeadlineFromFirstPush T (h ++ ops) (run s ops).1.buf := by
  induction ops with
  | nil => intro h s _ hd; simpa [run] using hd
  | cons op ops ih =>
    intro h s hT hd
    obtain ⟨hT', hd'⟩ := dl_step hT hd op
    have := ih (h ++ [op]) (step s op).1 hT' hd'
    simpa [run] using this

end LA.Reasm
