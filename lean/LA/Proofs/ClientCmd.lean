/-
Helper lemmas about Model.Client: the command methods.
No property statements here; those live in LA/Props.
-/
import LA.Proofs.Client

namespace LA.Client
open LA.Netlink

/-! ### single-ACK commands have the shape send; awaitAck -/

theorem addRule_eq (s : St) (rule : Bytes) :
    addRule s rule =
      match send s AUDIT_ADD_RULE (NLM_F_REQUEST + NLM_F_ACK) rule with
      | (s1, _, false) => (s1, .fail .send)
      | (s1, q, true) => awaitAck q s1 := by
  unfold addRule awaitAck
  rfl

theorem deleteRule_eq (s : St) (rule : Bytes) :
    deleteRule s rule =
      match send s AUDIT_DEL_RULE (NLM_F_REQUEST + NLM_F_ACK) rule with
      | (s1, _, false) => (s1, .fail .send)
      | (s1, q, true) => awaitAck q s1 := by
  unfold deleteRule awaitAck
  rfl

theorem set_wait_eq (s : St) (st : Status) (mode : Nat) (hm : mode ≠ NoWait) :
    set s st mode =
      match send s AuditSet (NLM_F_REQUEST + NLM_F_ACK) st.toWire with
      | (s1, _, false) => (s1, .fail .send)
      | (s1, q, true) => awaitAck q s1 := by
  unfold set awaitAck
  simp only [hm, if_false]
  rfl

/-- the verdict is a success exactly for an own-sequence NLMSG_ERROR carrying errno 0 -/
theorem verdict_none_iff (own : Nat) (b : Bytes) :
    verdict own b = none ↔
      (Hdr.parse b).seq = own ∧ (Hdr.parse b).typ = NLMSG_ERROR ∧ 20 ≤ b.length ∧ rd32 b 16 = 0 := by
  unfold verdict ackCheck
  by_cases h0 : (Hdr.parse b).seq = own
  · by_cases h1 : (Hdr.parse b).typ = NLMSG_ERROR
    · by_cases h2 : b.length < 20
      · simp [h0, h1, h2]; omega
      · by_cases h3 : rd32 b 16 = 0
        · simp [h0, h1, h2, h3]; omega
        · simp [h0, h1, h2, h3]
    · simp [h0, h1]
  · simp [h0]

theorem verdict_errno (own : Nat) (b : Bytes) (h0 : (Hdr.parse b).seq = own) (h1 : (Hdr.parse b).typ = NLMSG_ERROR)
    (h2 : 20 ≤ b.length) (h3 : rd32 b 16 ≠ 0) : verdict own b = some (.errno (errnoOf (rd32 b 16))) := by
  have : ¬ b.length < 20 := by omega
  simp [verdict, ackCheck, h0, h1, this, h3]

theorem verdict_foreign (own : Nat) (b : Bytes) (h0 : (Hdr.parse b).seq ≠ own) :
    verdict own b = some (.seqMismatch (Hdr.parse b).seq) := by
  simp [verdict, h0]

/-- the kernel writes `-errno` as a 32-bit word; the client reports exactly `errno` -/
theorem errnoOf_neg (e : Nat) (h1 : 1 ≤ e) (h2 : e < 2147483648) : errnoOf (4294967296 - e) = e := by
  unfold errnoOf
  rw [if_pos (by omega)]
  omega

theorem outOfVerdict_ok_iff (v : Option Err) : outOfVerdict v = .ok .none ↔ v = none := by
  cases v <;> simp [outOfVerdict]

/-! ### what `set` sends -/

/-- `set` hands exactly one message to Send, whatever the mode and whatever the kernel answers:
type AUDIT_SET, flags REQUEST|ACK, the status in wire format -/
theorem set_sent (s : St) (st : Status) (mode : Nat) :
    (set s st mode).1.sent = s.sent ++ [⟨AuditSet, NLM_F_REQUEST + NLM_F_ACK, (s.seq + 1) % 4294967296, st.toWire⟩] := by
  unfold set
  have hs : (send s AuditSet (NLM_F_REQUEST + NLM_F_ACK) st.toWire).1.sent =
      s.sent ++ [⟨AuditSet, NLM_F_REQUEST + NLM_F_ACK, (s.seq + 1) % 4294967296, st.toWire⟩] := rfl
  cases hsend : send s AuditSet (NLM_F_REQUEST + NLM_F_ACK) st.toWire with
  | mk s1 x =>
    cases x with
    | mk q ok =>
      rw [hsend] at hs
      simp only at hs
      cases ok with
      | false => exact hs
      | true =>
        simp only
        split
        · exact hs
        · have hf := getReply_frame q s1
          cases hg : getReply q s1 with
          | mk s2 r =>
            rw [hg] at hf
            cases r with
            | error e => exact hf.sent.trans hs
            | ok ack => simp only; cases checkAck ack <;> exact hf.sent.trans hs

/-- a NoWait request receives nothing -/
theorem set_nowait_recvs (s : St) (st : Status) : (set s st NoWait).1.recvs = s.recvs := by
  unfold set
  cases hs : send s AuditSet (NLM_F_REQUEST + NLM_F_ACK) st.toWire with
  | mk s1 x =>
    obtain ⟨q, ok⟩ := x
    have hr : s1.recvs = s.recvs := congrArg (fun x => x.1.recvs) hs.symm
    cases ok with
    | false => exact hr
    | true => simp only [if_true]; exact hr

/-! ### AuditStatus bytes -/

theorem toWire_length (s : Status) : s.toWire.length = 44 := rfl

theorem le32_rd32_at (b : Bytes) (i : Nat) (h : i + 4 ≤ b.length) : le32 (rd32 b i) = (b.drop i).take 4 := by
  have hl : 4 ≤ (b.drop i).length := by simp; omega
  have e : rd32 b i = rd32 (b.drop i) 0 := by rw [rd32_drop]; rfl
  rw [e]
  match hd : b.drop i, hl with
  | a :: b' :: c :: d :: rest, _ => rw [le32_rd32]; rfl

theorem take4_append (b : Bytes) (i n : Nat) :
    (b.drop i).take 4 ++ (b.drop (i + 4)).take n = (b.drop i).take (4 + n) := by
  rw [List.take_add, List.drop_drop]

/-- re-encoding the struct read from at least 44 bytes gives back the first 44 bytes -/
theorem toWire_ofBytes (b : Bytes) (h : 44 ≤ b.length) : (Status.ofBytes b).toWire = b.take 44 := by
  simp only [Status.toWire, Status.ofBytes]
  rw [le32_rd32_at b 0 (by omega), le32_rd32_at b 4 (by omega), le32_rd32_at b 8 (by omega),
    le32_rd32_at b 12 (by omega), le32_rd32_at b 16 (by omega), le32_rd32_at b 20 (by omega),
    le32_rd32_at b 24 (by omega), le32_rd32_at b 28 (by omega), le32_rd32_at b 32 (by omega),
    le32_rd32_at b 36 (by omega), le32_rd32_at b 40 (by omega)]
  simp only [List.append_assoc]
  rw [take4_append b 36 4, take4_append b 32 8, take4_append b 28 12, take4_append b 24 16, take4_append b 20 20,
    take4_append b 16 24, take4_append b 12 28, take4_append b 8 32, take4_append b 4 36, take4_append b 0 40]
  simp

theorem toWire_zero : Status.zero.toWire = List.replicate 44 0 := by decide

/-- `copy` into a zeroed 44-byte image: the buffer's first 44 bytes, zero-filled -/
theorem copyInto_zero (buf : Bytes) :
    copyInto Status.zero.toWire buf = buf.take 44 ++ List.replicate (44 - buf.length) 0 := by
  unfold copyInto
  rw [toWire_length, toWire_zero, List.drop_replicate]

theorem copyInto_full (recv : Status) (buf : Bytes) (h : 44 ≤ buf.length) : copyInto recv.toWire buf = buf.take 44 := by
  simp [copyInto, toWire_length, List.drop_eq_nil_of_le (Nat.le_trans (Nat.le_of_eq (toWire_length recv)) h)]

/-- the image `FromWireFormat` leaves in the receiver does not depend on what the receiver held -/
theorem fromWireBytes_eq (recv : Status) (buf : Bytes) :
    fromWireBytes recv buf =
      if buf.length < 32 then none else some (buf.take 44 ++ List.replicate (44 - buf.length) 0) := by
  unfold fromWireBytes
  simp only [MinSizeofAuditStatus, sizeofAuditStatus]
  by_cases h : buf.length < 32
  · simp [h]
  · simp only [h, if_false]
    by_cases h2 : buf.length < 44
    · simp only [h2, if_true, copyInto_zero]
    · simp only [h2, if_false]
      rw [copyInto_full recv buf (by omega)]
      have : 44 - buf.length = 0 := by omega
      simp [this]

/-! ### GetStatus -/

/-- what GetStatus makes of the message that follows a successful ACK -/
def statusReply (own : Nat) (b : Bytes) : Out :=
  if (Hdr.parse b).seq ≠ own then .fail (.seqMismatch (Hdr.parse b).seq)
  else if (Hdr.parse b).typ ≠ AuditGet then .fail (.replyType (Hdr.parse b).typ)
  else match fromWire Status.zero (b.drop 16) with
    | none => .fail .eof
    | some st => .ok (.status st)

theorem getStatus_send_fail (s : St) (h : (getStatusAsync s true).2.2 = false) :
    getStatus s = ((getStatusAsync s true).1, .fail .send) := by
  unfold getStatus
  cases hs : getStatusAsync s true with
  | mk s1 r =>
    cases r with
    | mk q ok =>
      rw [hs] at h
      simp only at h
      subst h
      rfl

theorem getStatus_ack_fail (s : St) (hs : (getStatusAsync s true).2.2 = true)
    (hown : (getStatusAsync s true).2.1 ≠ 0) {ns : List Seg} {ts : List Item} {b : Bytes} {rest : List Item}
    (d : Dialogue (getStatusAsync s true).1.queue ns ts b rest) (e : Err)
    (hv : verdict (getStatusAsync s true).2.1 b = some e) :
    (getStatus s).2 = .fail e ∧ Consumed (getStatusAsync s true).1 (getStatus s).1 (Dialogue.cost ns ts) rest := by
  obtain ⟨hr, hc⟩ := awaitAck_dialogue _ hown _ d
  unfold getStatus
  unfold awaitAck at hr hc
  cases hsend : getStatusAsync s true with
  | mk s1 r =>
    cases r with
    | mk q ok =>
      rw [hsend] at hs hr hc hv
      simp only at hs hr hc hv
      subst hs
      simp only
      cases hg : getReply q s1 with
      | mk s2 rr =>
        rw [hg] at hr hc
        cases rr with
        | error e' =>
          simp only at hr hc ⊢
          rw [hv] at hr
          simp only [outOfVerdict, Out.fail.injEq] at hr
          subst hr
          exact ⟨rfl, hc⟩
        | ok ack =>
          simp only at hr hc ⊢
          cases hck : checkAck ack with
          | some e' =>
            rw [hck] at hr hc
            simp only at hr hc ⊢
            rw [hv] at hr
            simp only [outOfVerdict, Out.fail.injEq] at hr
            subst hr
            exact ⟨rfl, hc⟩
          | none =>
            rw [hck] at hr
            simp only at hr
            rw [hv] at hr
            simp [outOfVerdict] at hr

theorem getStatus_ack_ok (s : St) (hs : (getStatusAsync s true).2.2 = true)
    (hown : (getStatusAsync s true).2.1 ≠ 0) {ns : List Seg} {ts : List Item} {b : Bytes} {rest : List Item}
    (d : Dialogue (getStatusAsync s true).1.queue ns ts b rest)
    (hv : verdict (getStatusAsync s true).2.1 b = none)
    {ns2 : List Seg} {ts2 : List Item} {b2 : Bytes} {rest2 : List Item} (d2 : Dialogue rest ns2 ts2 b2 rest2) :
    (getStatus s).2 = statusReply (getStatusAsync s true).2.1 b2 ∧
    Consumed (getStatusAsync s true).1 (getStatus s).1 (Dialogue.cost ns ts + Dialogue.cost ns2 ts2) rest2 := by
  obtain ⟨hr, hc⟩ := awaitAck_dialogue _ hown _ d
  unfold getStatus
  unfold awaitAck at hr hc
  cases hsend : getStatusAsync s true with
  | mk s1 r =>
    cases r with
    | mk q ok =>
      rw [hsend] at hs hr hc hv hown
      simp only at hs hr hc hv hown
      subst hs
      simp only
      cases hg : getReply q s1 with
      | mk s2 rr =>
        rw [hg] at hr hc
        cases rr with
        | error e' =>
          simp only at hr
          rw [hv] at hr
          simp [outOfVerdict] at hr
        | ok ack =>
          simp only at hr hc ⊢
          cases hck : checkAck ack with
          | some e' =>
            rw [hck] at hr
            simp only at hr
            rw [hv] at hr
            simp [outOfVerdict] at hr
          | none =>
            rw [hck] at hc
            simp only at hc ⊢
            have d2' : Dialogue s2.queue ns2 ts2 b2 rest2 := by rw [hc.queue]; exact d2
            obtain ⟨hr2, hc2⟩ := getReply_dialogue q hown s2 d2'
            cases hg2 : getReply q s2 with
            | mk s3 r3 =>
              rw [hg2] at hr2 hc2
              simp only at hr2 hc2
              subst hr2
              unfold replyOf statusReply
              by_cases he : (Hdr.parse b2).seq = q
              · rw [if_pos he, if_neg (by simpa using he)]
                simp only
                by_cases ht : (Hdr.parse b2).typ ≠ AuditGet
                · rw [if_pos ht, if_pos ht]
                  exact ⟨rfl, hc.trans hc2⟩
                · rw [if_neg ht, if_neg ht]
                  cases fromWire Status.zero (b2.drop 16) <;> exact ⟨rfl, hc.trans hc2⟩
              · rw [if_neg he, if_pos (by simpa using he)]
                exact ⟨rfl, hc.trans hc2⟩

/-! ### GetRules -/

/-- one message of the rule listing as the request finds it: noise, a retryable run, the datagram -/
structure RuleMsg where
  ns : List Seg
  ts : List Item
  b  : Bytes

def RuleMsg.Ok (own : Nat) (r : RuleMsg) : Prop :=
  (∀ n ∈ r.ns, n.Ok) ∧ Retryable r.ts ∧ 16 ≤ r.b.length ∧ (Hdr.parse r.b).seq = own ∧
  (Hdr.parse r.b).typ = AUDIT_LIST_RULES

def RuleMsg.items (r : RuleMsg) : List Item := noise r.ns ++ (r.ts ++ [.raw r.b])

def listing (rs : List RuleMsg) : List Item := rs.flatMap RuleMsg.items

def listingCost (rs : List RuleMsg) : Nat := (listing rs).length

theorem listing_length_ge (rs : List RuleMsg) : rs.length ≤ (listing rs).length := by
  induction rs with
  | nil => simp [listing]
  | cons r rs ih =>
    simp only [listing, List.flatMap_cons, List.length_append, List.length_cons, RuleMsg.items, List.length_nil] at *
    omega

/-- the receive loop of GetRules on a complete listing: copies of exactly the payloads, in order -/
theorem rulesLoop_listing (own : Nat) (hown : own ≠ 0) (rs : List RuleMsg) (hrs : ∀ r ∈ rs, r.Ok own)
    {nsD : List Seg} {tsD : List Item} {done : Bytes} {rest : List Item}
    (hdone : (Hdr.parse done).seq = own ∧ (Hdr.parse done).typ = NLMSG_DONE)
    (s : St) (q : List Item) (dD : Dialogue q nsD tsD done rest) (hq : s.queue = listing rs ++ q)
    (f : Nat) (hf : rs.length < f) (acc : List Ref) :
    ∃ s', rulesLoop own f s acc = (s', .ok (acc ++ rs.map fun r => .owned (r.b.drop 16))) ∧
          Consumed s s' (listingCost rs + Dialogue.cost nsD tsD) rest := by
  induction rs generalizing s f acc with
  | nil =>
    obtain ⟨f, rfl⟩ : ∃ k, f = k + 1 := ⟨f - 1, by simp at hf; omega⟩
    have d' : Dialogue s.queue nsD tsD done rest := by rw [hq]; simpa [listing] using dD
    obtain ⟨hr, hc⟩ := getReply_dialogue own hown s d'
    unfold rulesLoop
    cases hg : getReply own s with
    | mk s1 r =>
      rw [hg] at hr hc
      simp only at hr hc
      subst hr
      simp only [replyOf, hdone.1, if_true, hdone.2]
      exact ⟨s1, by simp, by simpa [listingCost, listing] using hc⟩
  | cons r rs ih =>
    obtain ⟨f, rfl⟩ : ∃ k, f = k + 1 := ⟨f - 1, by simp at hf; omega⟩
    obtain ⟨hns, hts, hlen, hseq, htyp⟩ := hrs r (List.mem_cons_self ..)
    have d' : Dialogue s.queue r.ns r.ts r.b (listing rs ++ q) := by
      refine ⟨?_, hns, hts, hlen, by rw [hseq]; exact hown⟩
      rw [hq]; simp [listing, RuleMsg.items, List.append_assoc]
    obtain ⟨hr, hc⟩ := getReply_dialogue own hown s d'
    unfold rulesLoop
    cases hg : getReply own s with
    | mk s1 rr =>
      rw [hg] at hr hc
      simp only at hr hc
      subst hr
      have hnd : ¬ AUDIT_LIST_RULES = NLMSG_DONE := by decide
      simp only [replyOf, hseq, if_true, htyp, hnd, if_false, ne_eq, not_true_eq_false]
      obtain ⟨s', he, hc'⟩ := ih (fun x hx => hrs x (List.mem_cons_of_mem _ hx)) s1 hc.queue f
        (by simp at hf; omega) (acc ++ [.owned (r.b.drop 16)])
      refine ⟨s', by rw [he]; simp, ?_⟩
      have := hc.trans hc'
      have e : listingCost (r :: rs) = Dialogue.cost r.ns r.ts + listingCost rs := by
        simp [listingCost, listing, RuleMsg.items, Dialogue.cost]; omega
      rw [e]
      have e2 : Dialogue.cost r.ns r.ts + listingCost rs + Dialogue.cost nsD tsD =
          Dialogue.cost r.ns r.ts + (listingCost rs + Dialogue.cost nsD tsD) := by omega
      rw [e2]; exact this

/-! ### DeleteRules -/

/-- every rule of the list was deleted by its own request, threading the state -/
inductive AllDeleted : List Ref → St → St → Prop
  | nil (s : St) : AllDeleted [] s s
  | cons {r : Ref} {rs : List Ref} {s s1 s2 : St} {d : Data} :
      deleteRule s (r.deref s.buf) = (s1, .ok d) → AllDeleted rs s1 s2 → AllDeleted (r :: rs) s s2

/-- the first `k` rules were deleted, the next deletion failed with `e` -/
inductive FirstFailure : List Ref → St → St → Err → Prop
  | here {r : Ref} {rs : List Ref} {s s1 : St} {e : Err} :
      deleteRule s (r.deref s.buf) = (s1, .fail e) → FirstFailure (r :: rs) s s1 e
  | later {r : Ref} {rs : List Ref} {s s1 s2 : St} {d : Data} {e : Err} :
      deleteRule s (r.deref s.buf) = (s1, .ok d) → FirstFailure rs s1 s2 e → FirstFailure (r :: rs) s s2 e

theorem deleteRule_not_panic (s : St) (rule : Bytes) : (deleteRule s rule).2 ≠ .panic := by
  unfold deleteRule
  split
  · simp
  · split
    · simp
    · split <;> simp

theorem deleteLoop_spec (rs : List Ref) (s : St) :
    (∀ s2, deleteLoop rs s = (s2, none) ↔ AllDeleted rs s s2) ∧
    (∀ s2 e, deleteLoop rs s = (s2, some e) ↔ FirstFailure rs s s2 e) := by
  induction rs generalizing s with
  | nil =>
    refine ⟨fun s2 => ⟨fun h => ?_, fun h => ?_⟩, fun s2 e => ⟨fun h => ?_, fun h => ?_⟩⟩
    · simp only [deleteLoop, Prod.mk.injEq, and_true] at h; subst h; exact .nil s
    · cases h; rfl
    · simp [deleteLoop] at h
    · cases h
  | cons r rs ih =>
    cases hd : deleteRule s (r.deref s.buf) with
    | mk s1 o =>
      cases o with
      | ok d =>
        have hl : deleteLoop (r :: rs) s = deleteLoop rs s1 := by simp only [deleteLoop, hd]
        refine ⟨fun s2 => ⟨fun h => ?_, fun h => ?_⟩, fun s2 e => ⟨fun h => ?_, fun h => ?_⟩⟩
        · rw [hl] at h; exact .cons hd (((ih s1).1 s2).mp h)
        · rw [hl]
          cases h with
          | cons h1 h2 => rw [hd] at h1; cases h1; exact ((ih s1).1 s2).mpr h2
        · rw [hl] at h; exact .later hd (((ih s1).2 s2 e).mp h)
        · rw [hl]
          cases h with
          | here h1 => rw [hd] at h1; cases h1
          | later h1 h2 => rw [hd] at h1; cases h1; exact ((ih s1).2 s2 e).mpr h2
      | fail e' =>
        have hl : deleteLoop (r :: rs) s = (s1, some e') := by simp only [deleteLoop, hd]
        refine ⟨fun s2 => ⟨fun h => ?_, fun h => ?_⟩, fun s2 e => ⟨fun h => ?_, fun h => ?_⟩⟩
        · rw [hl] at h; simp at h
        · cases h with
          | cons h1 _ => rw [hd] at h1; cases h1
        · rw [hl] at h
          simp only [Prod.mk.injEq, Option.some.injEq] at h
          obtain ⟨rfl, rfl⟩ := h
          exact .here hd
        · rw [hl]
          cases h with
          | here h1 => rw [hd] at h1; cases h1; rfl
          | later h1 _ => rw [hd] at h1; cases h1
      | panic => exact absurd (by rw [hd]) (deleteRule_not_panic s (r.deref s.buf))

end LA.Client
