/-
Helper lemmas about Model.Auparse: index facts, absence of the `panic` outcome.
-/
import LA.Model.Auparse

namespace LA.Auparse
open LA

/-! ### indexOf facts -/

theorem indexOf_spec {c : Nat} {s : Bytes} {i : Nat} (h : indexOf c s = some i) :
    i < s.length ∧ s.drop i = c :: s.drop (i + 1) ∧ c ∉ s.take i := by
  induction s generalizing i with
  | nil => simp [indexOf] at h
  | cons b bs ih =>
    unfold indexOf at h
    split at h
    · rename_i hb
      simp at h hb
      subst h
      simp [hb]
    · rename_i hb
      cases hr : indexOf c bs with
      | none => simp [hr] at h
      | some j =>
        simp [hr] at h
        subst h
        obtain ⟨h1, h2, h3⟩ := ih hr
        refine ⟨by simp; omega, by simpa using h2, ?_⟩
        simp only [List.take_succ_cons, List.mem_cons, not_or]
        exact ⟨fun hc => hb (by simp [hc]), h3⟩

theorem indexOf_pos_of_head_ne {c b : Nat} {bs : Bytes} {i : Nat} (hb : b ≠ c) (h : indexOf c (b :: bs) = some i) :
    1 ≤ i := by
  unfold indexOf at h
  split at h
  · rename_i hh; simp at hh; exact absurd hh hb
  · cases hr : indexOf c bs with
    | none => simp [hr] at h
    | some j => simp [hr] at h; omega

theorem indexOfSub_bound {sub s : Bytes} {i : Nat} (h : indexOfSub sub s = some i) :
    i + sub.length ≤ s.length := by
  induction s generalizing i with
  | nil =>
    unfold indexOfSub at h
    split at h
    · rename_i he; simp at h; subst h; simp [List.isEmpty_iff.mp he]
    · simp at h
  | cons b bs ih =>
    unfold indexOfSub at h
    split at h
    · rename_i hp
      simp at h; subst h
      have := List.IsPrefix.length_le (List.isPrefixOf_iff_prefix.mp hp)
      simpa [hasPrefix] using this
    · cases hr : indexOfSub sub bs with
      | none => simp [hr] at h
      | some j =>
        simp [hr] at h; subst h
        have := ih hr
        simp; omega

/-! ### header indices are ordered and in range -/

theorem headerIdx_bounds {line : Bytes} {a b c d : Nat} (h : headerIdx line = some (a, b, c, d)) :
    a < b ∧ b < c ∧ c < d ∧ d < line.length := by
  unfold headerIdx at h
  cases h1 : indexOf 40 line with
  | none => simp [h1] at h
  | some start =>
    simp only [h1] at h
    obtain ⟨s1, s2, _⟩ := indexOf_spec h1
    cases h2 : indexOf 46 (line.drop start) with
    | none => simp [h2] at h
    | some dd =>
      simp only [h2] at h
      have hd1 : 1 ≤ dd := by rw [s2] at h2; exact indexOf_pos_of_head_ne (by decide) h2
      obtain ⟨d1, d2, _⟩ := indexOf_spec h2
      cases h3 : indexOf 58 (line.drop (start + dd)) with
      | none => simp [h3] at h
      | some ss =>
        simp only [h3] at h
        have d2' : line.drop (start + dd) = 46 :: line.drop (start + dd + 1) := by
          rw [List.drop_drop, List.drop_drop] at d2
          have ha : start + dd + 1 = start + (dd + 1) := by omega
          rw [ha]; exact d2
        have hs1 : 1 ≤ ss := by rw [d2'] at h3; exact indexOf_pos_of_head_ne (by decide) h3
        obtain ⟨e1, e2, _⟩ := indexOf_spec h3
        cases h4 : indexOf 41 (line.drop (start + dd + ss)) with
        | none => simp [h4] at h
        | some ee =>
          simp only [h4, Option.some.injEq, Prod.mk.injEq] at h
          obtain ⟨rfl, rfl, rfl, rfl⟩ := h
          have e2' : line.drop (start + dd + ss) = 58 :: line.drop (start + dd + ss + 1) := by
            rw [List.drop_drop, List.drop_drop] at e2
            have ha : start + dd + ss + 1 = start + dd + (ss + 1) := by omega
            rw [ha]; exact e2
          have he1 : 1 ≤ ee := by rw [e2'] at h4; exact indexOf_pos_of_head_ne (by decide) h4
          obtain ⟨f1, _, _⟩ := indexOf_spec h4
          simp only [List.length_drop] at d1 e1 f1
          omega

theorem slice_ok {s : Bytes} {i j : Int} (h : 0 ≤ i ∧ i ≤ j ∧ j ≤ s.length) :
    slice s i j = Res.ok ((s.drop i.toNat).take (j.toNat - i.toNat)) := by
  simp [slice, h]

theorem parseAuditHeader_no_panic (line : Bytes) : parseAuditHeader line ≠ Res.panic := by
  unfold parseAuditHeader
  cases h : headerIdx line with
  | none => simp
  | some q =>
    obtain ⟨a, b, c, d⟩ := q
    obtain ⟨h1, h2, h3, h4⟩ := headerIdx_bounds h
    simp only
    rw [slice_ok (by omega), slice_ok (by omega), slice_ok (by omega)]
    simp only
    split <;> simp

theorem parseAuditHeader_end_lt {line : Bytes} {sec nsec : Int} {seq : Nat} {e : Int}
    (h : parseAuditHeader line = Res.ok (sec, nsec, seq, e)) : 0 ≤ e ∧ e < line.length := by
  unfold parseAuditHeader at h
  cases hh : headerIdx line with
  | none => simp [hh] at h
  | some q =>
    obtain ⟨a, b, c, d⟩ := q
    obtain ⟨h1, h2, h3, h4⟩ := headerIdx_bounds hh
    simp only [hh] at h
    rw [slice_ok (by omega), slice_ok (by omega), slice_ok (by omega)] at h
    simp only at h
    split at h
    · simp at h
    · simp only [Res.ok.injEq, Prod.mk.injEq] at h
      obtain ⟨_, _, _, rfl⟩ := h
      omega

/-- Parse never panics. -/
theorem parse_no_panic (typ : Nat) (s : Bytes) : parse typ s ≠ Res.panic := by
  unfold parse
  simp only [bind, Bind.bind]
  cases h : parseAuditHeader (trimSpace s) with
  | panic => exact absurd h (parseAuditHeader_no_panic _)
  | err c => simp
  | ok q =>
    obtain ⟨sec, nsec, seq, e⟩ := q
    obtain ⟨e0, e1⟩ := parseAuditHeader_end_lt h
    simp only [sliceFrom]
    rw [slice_ok (by omega)]
    simp

/-- a successfully parsed message has an offset that is -1 or inside its raw data. -/
theorem parse_offset {typ : Nat} {s : Bytes} {m : Msg} (h : parse typ s = Res.ok m) :
    m.offset = -1 ∨ (0 ≤ m.offset ∧ m.offset ≤ m.raw.length) := by
  unfold parse at h
  simp only [bind, Bind.bind] at h
  cases hh : parseAuditHeader (trimSpace s) with
  | panic => simp [hh] at h
  | err c => simp [hh] at h
  | ok q =>
    obtain ⟨sec, nsec, seq, e⟩ := q
    obtain ⟨e0, e1⟩ := parseAuditHeader_end_lt hh
    simp only [hh, sliceFrom] at h
    rw [slice_ok (by omega)] at h
    simp only [Res.ok.injEq] at h
    subst h
    simp only
    cases hi : indexOfMessage ((List.drop e.toNat (trimSpace s)).take ((↑(trimSpace s).length : Int).toNat - e.toNat)) with
    | none => left; simp [optInt]
    | some i =>
      right
      have hb : ∀ (l : Bytes) (i : Nat), indexOfMessage l = some i → i < l.length := by
        intro l
        induction l with
        | nil => intro i h; simp [indexOfMessage] at h
        | cons b bs ih =>
          intro i h
          unfold indexOfMessage at h
          split at h
          · simp at h; subst h; simp
          · cases hr : indexOfMessage bs with
            | none => simp [hr] at h
            | some j => simp [hr] at h; subst h; have := ih j hr; simp; omega
      have := hb _ _ hi
      simp only [List.length_take, List.length_drop] at this
      simp only [optInt]
      omega

end LA.Auparse

namespace LA.Auparse
open LA

theorem parseLogLine_no_panic (line : Bytes) : parseLogLine line ≠ Res.panic := by
  unfold parseLogLine
  simp only [bind, Bind.bind]
  cases h : indexOfSub msgToken line with
  | none => simp [optInt]
  | some i =>
    have hb := indexOfSub_bound h
    simp only [msgToken, List.length_cons, List.length_nil] at hb
    simp only [optInt]
    by_cases h1 : ((i : Int) == -1) = true
    · simp [h1]
    · simp only [h1, Bool.false_eq_true, if_false]
      by_cases h6 : (i : Int) < 6
      · simp [h6]
      · simp only [h6, if_false]
        rw [slice_ok (by omega)]
        simp only
        cases hg : MsgType.getType ((List.drop (5 : Int).toNat line).take (((i : Int) - 1).toNat - (5 : Int).toNat)) with
        | none => simp
        | some typ =>
          simp only [sliceFrom]
          rw [slice_ok (by omega)]
          exact parse_no_panic _ _

theorem hexToIP_no_panic (h : Bytes) : hexToIP h ≠ Res.panic := by
  unfold hexToIP
  split
  · simp
  · split
    · split <;> simp
    · simp

theorem parseSockaddr_no_panic (s : Bytes) : parseSockaddr s ≠ Res.panic := by
  unfold parseSockaddr
  simp only [bind, Bind.bind, sliceFrom]
  split
  · simp
  · rename_i h4
    have h4' : 4 ≤ s.length := by omega
    rw [slice_ok (by omega), slice_ok (by omega)]
    simp only
    split
    · simp
    · rename_i fam _
      split
      · rw [slice_ok (by omega)]
        simp only
        split <;> simp
      · split
        · split
          · simp
          · rename_i h16
            rw [slice_ok (by omega)]
            simp only
            split
            · simp
            · rw [slice_ok (by omega)]
              simp only
              cases hip : hexToIP ((List.drop (8 : Int).toNat s).take ((16 : Int).toNat - (8 : Int).toNat)) with
              | panic => exact absurd hip (hexToIP_no_panic _)
              | err c => simp
              | ok ip => simp
        · split
          · split
            · simp
            · rename_i h48
              rw [slice_ok (by omega)]
              simp only
              split
              · simp
              · rw [slice_ok (by omega)]
                simp only
                split
                · simp
                · rw [slice_ok (by omega)]
                  simp only
                  cases hip : hexToIP ((List.drop (16 : Int).toNat s).take ((48 : Int).toNat - (16 : Int).toNat)) with
                  | panic => exact absurd hip (hexToIP_no_panic _)
                  | err c => simp
                  | ok ip => simp
          · split <;> simp

end LA.Auparse

namespace LA.Auparse
open LA

theorem bind_no_panic {α β : Type} {x : Res α} {f : α → Res β} (hx : x ≠ Res.panic) (hf : ∀ a, f a ≠ Res.panic) :
    (x >>= f) ≠ Res.panic := by
  cases x with
  | ok a => exact hf a
  | err c => simp [bind, Bind.bind]
  | panic => exact absurd rfl hx

theorem hexDecode_no_panic (fm : FieldMap) (k : Bytes) : hexDecode fm k ≠ Res.panic := by
  unfold hexDecode; split
  · simp
  · split <;> simp

theorem archStep_no_panic (fm : FieldMap) : archStep fm ≠ Res.panic := by
  unfold archStep; split
  · simp
  · split <;> simp

theorem syscallStep_no_panic (fm : FieldMap) : syscallStep fm ≠ Res.panic := by
  unfold syscallStep; split
  · simp
  · split
    · simp
    · split
      · simp
      · split
        · simp
        · split <;> simp

theorem signalStep_no_panic (fm : FieldMap) : signalStep fm ≠ Res.panic := by
  unfold signalStep; split
  · simp
  · split
    · simp
    · split
      · simp
      · split <;> simp

theorem saddrStep_no_panic (fm : FieldMap) : saddrStep fm ≠ Res.panic := by
  unfold saddrStep; split
  · simp
  · rename_i f _
    cases h : parseSockaddr f.value with
    | panic => exact absurd h (parseSockaddr_no_panic _)
    | ok kvs => simp
    | err c => simp

theorem execveArgsLoop_no_panic (fm : FieldMap) (n i : Nat) : execveArgsLoop fm n i ≠ Res.panic := by
  induction n generalizing fm i with
  | zero => simp [execveArgsLoop]
  | succ n ih =>
    unfold execveArgsLoop
    simp only
    cases fmFind fm ([97] ++ dec i) with
    | none => simp
    | some f => exact ih _ _

theorem execveStep_no_panic (fm : FieldMap) : execveStep fm ≠ Res.panic := by
  unfold execveStep; split
  · simp
  · split
    · simp
    · exact execveArgsLoop_no_panic _ _ _

theorem enrichData_no_panic (typ : Nat) (fm : FieldMap) : (enrichData typ fm).1 ≠ Res.panic := by
  unfold enrichData
  simp only
  split
  · exact bind_no_panic (signalStep_no_panic _) fun _ => bind_no_panic (archStep_no_panic _) fun _ =>
      bind_no_panic (syscallStep_no_panic _) fun _ => hexDecode_no_panic _ _
  · split
    · exact bind_no_panic (archStep_no_panic _) fun _ =>
        bind_no_panic (syscallStep_no_panic _) fun _ => hexDecode_no_panic _ _
    · split
      · exact saddrStep_no_panic _
      · split
        · exact hexDecode_no_panic _ _
        · split
          · exact hexDecode_no_panic _ _
          · split
            · exact hexDecode_no_panic _ _
            · split
              · exact execveStep_no_panic _
              · split
                · simp
                · split <;> simp

/-- Data() of a message that Parse returned never panics. -/
theorem dataOf_no_panic {typ : Nat} {s : Bytes} {m : Msg} (h : parse typ s = Res.ok m) :
    (dataOf m).data ≠ Res.panic := by
  unfold dataOf
  rcases parse_offset h with ho | ⟨h0, h1⟩
  · simp [ho]
  · have hlt : ¬ m.offset < 0 := by omega
    simp only [hlt, if_false, sliceFrom]
    rw [slice_ok (by omega)]
    simp only
    have := enrichData_no_panic m.typ
      (extractKV ((normalizeAuditMessage m.typ ((List.drop m.offset.toNat m.raw).take ((↑m.raw.length : Int).toNat - m.offset.toNat))).length + 1)
        (normalizeAuditMessage m.typ ((List.drop m.offset.toNat m.raw).take ((↑m.raw.length : Int).toNat - m.offset.toNat))))
    generalize enrichData m.typ _ = r at this ⊢
    obtain ⟨r1, r2⟩ := r
    cases r1 with
    | ok fm => simp
    | err c => simp
    | panic => exact absurd rfl this

end LA.Auparse
