/-
The independent decoder of Spec/Uapi agrees with the model's little-endian readers.
-/
import LA.Proofs.Netlink
import LA.Spec.Uapi

namespace LA.Netlink
open LA.Spec

theorem uapi_byteAt (b : Bytes) (i : Nat) : Uapi.byteAt b i = rd8 b i := by
  simp only [Uapi.byteAt, rd8, List.getD_eq_getElem?_getD]
  cases b[i]? <;> rfl

theorem uapi_field4 (b : Bytes) (off : Nat) : Uapi.field b off 4 = rd32 b off := by
  simp [Uapi.field, uapi_byteAt, rd32, Nat.add_assoc]; omega

theorem uapi_field2 (b : Bytes) (off : Nat) : Uapi.field b off 2 = rd16 b off := by
  simp [Uapi.field, uapi_byteAt, rd16]

end LA.Netlink
