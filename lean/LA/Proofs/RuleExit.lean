/-
Exit-code class of C07: what ToCommandLine prints for an exit filter (an errno name with a minus
sign, or a signed decimal) is read back by getExitCode as the same 32-bit word.
-/
import LA.Proofs.Num
import LA.Model.Rule
import LA.Proofs.TablesRT

namespace LA.Rule
open LA

theorem splitSign_digit {d : Nat} {tl : Bytes} (h : 48 ≤ d ∧ d ≤ 57) : splitSign (d :: tl) = (false, d :: tl) := by
  unfold splitSign
  split
  · rename_i heq; simp at heq; omega
  · rename_i heq; simp at heq; omega
  · rfl

theorem dec_cons_digit (v : Nat) : ∃ d tl, dec v = d :: tl ∧ 48 ≤ d ∧ d ≤ 57 := by
  cases hh : dec v with
  | nil => exact absurd hh (dec_ne_nil v)
  | cons d tl =>
    have := dec_digits v d (by rw [hh]; simp)
    exact ⟨d, tl, rfl, by simpa [isDigit] using this⟩

/-- a non-negative value below 2^31 printed in decimal -/
theorem parseIntGo_dec_pos (v : Nat) (h : v < 2147483648) : parseIntGo (dec v) 0 32 = .ok (v : Int) := by
  obtain ⟨d, tl, hd, hdig⟩ := dec_cons_digit v
  unfold parseIntGo
  have hp := parseUintGo_dec0 v 32 (by omega)
  rw [hd] at hp ⊢
  simp only [List.isEmpty_cons, Bool.false_eq_true, if_false, splitSign_digit hdig, hp]
  simp
  omega

/-- a negative value down to -2^31 printed as '-' and its magnitude -/
theorem parseIntGo_dec_neg (m : Nat) (h : m ≤ 2147483648) : parseIntGo (45 :: dec m) 0 32 = .ok (-(m : Int)) := by
  unfold parseIntGo
  have hp := parseUintGo_dec0 m 32 (by omega)
  simp only [List.isEmpty_cons, Bool.false_eq_true, if_false, splitSign, hp]
  simp
  omega

/-- '-' followed by a word that starts with an upper-case letter is a syntax error for ParseInt,
so getExitCode falls through to the errno table. -/
theorem parseIntGo_minus_name (c : Nat) (tl : Bytes) (hc : 65 ≤ c ∧ c ≤ 90) : parseIntGo (45 :: c :: tl) 0 32 = .syntax := by
  have hdv : digitVal c = some (c + 32 - 97 + 10) := by
    unfold digitVal lowerB
    have a : ¬ (48 ≤ c ∧ c ≤ 57) := by omega
    have b : (65 ≤ c ∧ c ≤ 90) := hc
    simp only [a, if_false, b, and_self, if_true]
    have : 97 ≤ c + 32 ∧ c + 32 ≤ 122 := by omega
    simp [this]
  have hbp : basePrefix (c :: tl) = (10, c :: tl) := by
    unfold basePrefix
    split
    · rename_i heq; simp at heq; omega
    · rename_i heq; simp at heq; omega
    · rfl
  have hus : (c == 95) = false := by simp; omega
  unfold parseIntGo
  simp only [List.isEmpty_cons, Bool.false_eq_true, if_false, splitSign]
  unfold parseUintGo
  simp only [List.isEmpty_cons, Bool.false_eq_true, if_false, beq_self_eq_true, if_true, hbp, digitLoop, hus,
    Bool.false_and, hdv]
  simp

theorem errno_names_upper : ∀ p ∈ LA.Gen.Errno.errnoToName, ∃ c tl, p.2 = c :: tl ∧ 65 ≤ c ∧ c ≤ 90 := by
  have cert : LA.Gen.Errno.errnoToName.all (fun p => match p.2 with | c :: _ => decide (65 ≤ c ∧ c ≤ 90) | [] => false) = true := by
    decide +kernel
  intro p hp
  have := List.all_eq_true.mp cert p hp
  cases hh : p.2 with
  | nil => rw [hh] at this; cases this
  | cons c tl => rw [hh] at this; exact ⟨c, tl, rfl, by simpa using this⟩

end LA.Rule
