/-
Helper lemmas for C15: the heap frame of `coalesceH`, reading slices and messages through a
grown heap, the ID cache.
-/
import LA.Proofs.CoalesceNorm
import LA.Model.CoalesceHeap

namespace LA.Coalesce

/-! ### message cells -/

/-- the only change a message object undergoes: an empty cache is filled with the parse result. -/
def CellStep (c c' : MsgCell) : Prop :=
  c'.typ = c.typ ∧ c'.seq = c.seq ∧ c'.ts = c.ts ∧ c'.parse = c.parse ∧
  (c'.cache = c.cache ∨ (c.cache = none ∧ c'.cache = some c.parse))

theorem CellStep.refl (c : MsgCell) : CellStep c c := ⟨rfl, rfl, rfl, rfl, Or.inl rfl⟩

theorem CellStep.trans {a b c : MsgCell} (h1 : CellStep a b) (h2 : CellStep b c) : CellStep a c := by
  obtain ⟨t1, s1, x1, p1, c1⟩ := h1
  obtain ⟨t2, s2, x2, p2, c2⟩ := h2
  refine ⟨t2.trans t1, s2.trans s1, x2.trans x1, p2.trans p1, ?_⟩
  rcases c1 with c1 | ⟨c1, c1'⟩
  · rcases c2 with c2 | ⟨c2, c2'⟩
    · exact Or.inl (c2.trans c1)
    · exact Or.inr ⟨c1 ▸ c2, by rw [c2', p1]⟩
  · rcases c2 with c2 | ⟨c2, _⟩
    · exact Or.inr ⟨c1, c2.trans c1'⟩
    · rw [c1'] at c2; cases c2

theorem CellStep.obs {c c' : MsgCell} (h : CellStep c c') : obsCell c' = obsCell c := by
  obtain ⟨_, _, _, hp, hc⟩ := h
  unfold obsCell
  rcases hc with hc | ⟨hc, hc'⟩
  · rw [hc, hp]
  · rw [hc, hc']; simp

/-! ### heap frame -/

structure HFrame (h h' : Heap) : Prop where
  len : h'.msgs.length = h.msgs.length
  cells : ∀ (i : Nat) (c : MsgCell), h.msgs[i]? = some c → ∃ c', h'.msgs[i]? = some c' ∧ CellStep c c'
  arrs : ∃ extra, h'.arrs = h.arrs ++ extra
  cat : h'.catSlices = h.catSlices
  typ : h'.typSlices = h.typSlices

theorem HFrame.refl (h : Heap) : HFrame h h :=
  ⟨rfl, fun _ c hc => ⟨c, hc, CellStep.refl c⟩, ⟨[], by simp⟩, rfl, rfl⟩

theorem HFrame.trans {a b c : Heap} (h1 : HFrame a b) (h2 : HFrame b c) : HFrame a c := by
  obtain ⟨x1, hx1⟩ := h1.arrs
  obtain ⟨x2, hx2⟩ := h2.arrs
  refine ⟨h2.len.trans h1.len, ?_, ⟨x1 ++ x2, by rw [hx2, hx1, List.append_assoc]⟩,
    h2.cat.trans h1.cat, h2.typ.trans h1.typ⟩
  intro i c0 hc0
  obtain ⟨c1, hc1, s1⟩ := h1.cells i c0 hc0
  obtain ⟨c2, hc2, s2⟩ := h2.cells i c1 hc1
  exact ⟨c2, hc2, s1.trans s2⟩

theorem HFrame.obs_eq {h h' : Heap} (hf : HFrame h h') (i : Nat) : obsAt h' i = obsAt h i := by
  unfold obsAt
  cases hc : h.msgs[i]? with
  | some c =>
    obtain ⟨c', hc', hs⟩ := hf.cells i c hc
    rw [hc']
    exact hs.obs
  | none =>
    have : h'.msgs[i]? = none := by
      rw [List.getElem?_eq_none_iff] at hc ⊢
      rw [hf.len]; exact hc
    rw [this]

theorem HFrame.view_eq {h h' : Heap} (hf : HFrame h h') (i : Nat) : viewAt h' i = viewAt h i := by
  unfold viewAt
  cases hc : h.msgs[i]? with
  | some c =>
    obtain ⟨c', hc', hs⟩ := hf.cells i c hc
    rw [hc']
    simp only
    rw [hs.obs, hs.1, hs.2.1, hs.2.2.1]
  | none =>
    have : h'.msgs[i]? = none := by
      rw [List.getElem?_eq_none_iff] at hc ⊢
      rw [hf.len]; exact hc
    rw [this]

theorem dataH_hframe (h : Heap) (i : Nat) : HFrame h (dataH h i).1 := by
  unfold dataH
  cases hc : h.msgs[i]? with
  | none => exact HFrame.refl h
  | some c =>
    simp only
    cases hcache : c.cache with
    | some p => exact HFrame.refl h
    | none =>
      simp only
      have hi : i < h.msgs.length := by
        rcases Nat.lt_or_ge i h.msgs.length with hlt | hge
        · exact hlt
        · rw [List.getElem?_eq_none_iff.mpr hge] at hc; cases hc
      refine ⟨by simp, ?_, ⟨[], by simp⟩, rfl, rfl⟩
      intro j cj hj
      by_cases hij : i = j
      · subst hij
        rw [hc] at hj; cases hj
        refine ⟨{ c with cache := some c.parse }, by simp [hi], rfl, rfl, rfl, rfl, Or.inr ⟨hcache, rfl⟩⟩
      · exact ⟨cj, by simp [List.getElem?_set_ne hij, hj], CellStep.refl cj⟩

theorem fill_hframe (ids : List Nat) (h : Heap) : HFrame h (fill h ids) := by
  unfold fill
  induction ids generalizing h with
  | nil => exact HFrame.refl h
  | cons i r ih =>
    simp only [List.foldl_cons]
    exact (dataH_hframe h i).trans (ih _)

/-! ### slices -/

/-- the slice can be read: it is empty or its backing array exists. -/
def SliceValid (h : Heap) (s : Slice) : Prop := s.len = 0 ∨ s.cell < h.arrs.length

theorem SliceValid.mono {h h' : Heap} (hf : HFrame h h') {s : Slice} (hv : SliceValid h s) : SliceValid h' s := by
  obtain ⟨x, hx⟩ := hf.arrs
  rcases hv with hv | hv
  · exact Or.inl hv
  · exact Or.inr (by rw [hx, List.length_append]; omega)

theorem readSlice_frame {h h' : Heap} (hf : HFrame h h') {s : Slice} (hv : SliceValid h s) :
    readSlice h' s = readSlice h s := by
  obtain ⟨x, hx⟩ := hf.arrs
  unfold readSlice
  rcases hv with hv | hv
  · rw [hv]; simp
  · rw [hx, List.getElem?_append_left hv]

theorem nilSlice_valid (h : Heap) : SliceValid h nilSlice := Or.inl rfl

structure HeapWF (h : Heap) : Prop where
  catFull : ∀ s ∈ h.catSlices, s.len = s.cap
  typFull : ∀ s ∈ h.typSlices, s.len = s.cap
  catValid : ∀ s ∈ h.catSlices, SliceValid h s
  typValid : ∀ s ∈ h.typSlices, SliceValid h s

theorem HeapWF.mono {h h' : Heap} (hf : HFrame h h') (hw : HeapWF h) : HeapWF h' :=
  ⟨fun s hs => hw.catFull s (hf.cat ▸ hs), fun s hs => hw.typFull s (hf.typ ▸ hs),
   fun s hs => (hw.catValid s (hf.cat ▸ hs)).mono hf, fun s hs => (hw.typValid s (hf.typ ▸ hs)).mono hf⟩

theorem getD_slice (P : Slice → Prop) (l : List Slice) (i : Nat) (hl : ∀ s ∈ l, P s) (hn : P nilSlice) :
    P ((l[i]?).getD nilSlice) := by
  cases hs : l[i]? with
  | none => exact hn
  | some s => exact hl s (List.mem_of_getElem? hs)

theorem HeapWF.catAt {h : Heap} (hw : HeapWF h) (i : Nat) :
    (catSliceAt h i).len = (catSliceAt h i).cap ∧ SliceValid h (catSliceAt h i) :=
  ⟨getD_slice (fun s => s.len = s.cap) _ i hw.catFull rfl, getD_slice (SliceValid h) _ i hw.catValid (nilSlice_valid h)⟩

theorem HeapWF.typAt {h : Heap} (hw : HeapWF h) (i : Nat) :
    (typSliceAt h i).len = (typSliceAt h i).cap ∧ SliceValid h (typSliceAt h i) :=
  ⟨getD_slice (fun s => s.len = s.cap) _ i hw.typFull rfl, getD_slice (SliceValid h) _ i hw.typValid (nilSlice_valid h)⟩

/-- `append` to a full slice never writes an existing array: it allocates (or returns the
slice unchanged when nothing is appended). -/
theorem appendSlice_spec (h : Heap) (s : Slice) (xs : List Bytes) (hfull : s.len = s.cap) :
    HFrame h (appendSlice h s xs).1 ∧
    (SliceValid h s → SliceValid (appendSlice h s xs).1 (appendSlice h s xs).2) ∧
    readSlice (appendSlice h s xs).1 (appendSlice h s xs).2 = readSlice h s ++ xs := by
  unfold appendSlice
  by_cases hx : xs = []
  · simp only [hx, if_true]
    exact ⟨HFrame.refl h, id, by simp⟩
  · simp only [hx, if_false]
    have hlen : 0 < xs.length := List.length_pos_iff.mpr hx
    have hnot : ¬ (s.len + xs.length ≤ s.cap) := by omega
    simp only [hnot, if_false]
    refine ⟨⟨rfl, fun _ c hc => ⟨c, hc, CellStep.refl c⟩, ⟨_, rfl⟩, rfl, rfl⟩, ?_, ?_⟩
    · intro _
      right
      simp
    · unfold readSlice
      simp only [List.getElem?_append_right (Nat.le_refl _), Nat.sub_self, List.getElem?_cons_zero,
        Option.getD_some]
      exact List.take_of_length_le (Nat.le_refl _)

/-! ### the ECS slices of an event -/

def catValue (h : Heap) (nc : Option (Nat × Option Nat)) : List Bytes :=
  match nc with
  | none => []
  | some (ni, none) => readSlice h (catSliceAt h ni)
  | some (ni, some si) => readSlice h (catSliceAt h ni) ++ readSlice h (catSliceAt h si)

def typValue (h : Heap) (nc : Option (Nat × Option Nat)) : List Bytes :=
  match nc with
  | none => []
  | some (ni, none) => readSlice h (typSliceAt h ni)
  | some (ni, some si) => readSlice h (typSliceAt h ni) ++ readSlice h (typSliceAt h si)

theorem catSliceAt_frame {h h' : Heap} (hf : HFrame h h') (i : Nat) : catSliceAt h' i = catSliceAt h i := by
  unfold catSliceAt; rw [hf.cat]

theorem typSliceAt_frame {h h' : Heap} (hf : HFrame h h') (i : Nat) : typSliceAt h' i = typSliceAt h i := by
  unfold typSliceAt; rw [hf.typ]

theorem catValue_frame {h h' : Heap} (hf : HFrame h h') (hw : HeapWF h) (nc : Option (Nat × Option Nat)) :
    catValue h' nc = catValue h nc := by
  unfold catValue
  rcases nc with _ | ⟨ni, _ | si⟩
  · rfl
  · simp only [catSliceAt_frame hf]; exact readSlice_frame hf (hw.catAt ni).2
  · simp only [catSliceAt_frame hf]
    rw [readSlice_frame hf (hw.catAt ni).2, readSlice_frame hf (hw.catAt si).2]

theorem typValue_frame {h h' : Heap} (hf : HFrame h h') (hw : HeapWF h) (nc : Option (Nat × Option Nat)) :
    typValue h' nc = typValue h nc := by
  unfold typValue
  rcases nc with _ | ⟨ni, _ | si⟩
  · rfl
  · simp only [typSliceAt_frame hf]; exact readSlice_frame hf (hw.typAt ni).2
  · simp only [typSliceAt_frame hf]
    rw [readSlice_frame hf (hw.typAt ni).2, readSlice_frame hf (hw.typAt si).2]

theorem ecsSlices_spec (h1 : Heap) (hw : HeapWF h1) (nc : Option (Nat × Option Nat)) :
    HFrame h1 (ecsSlices h1 nc).1 ∧
    SliceValid (ecsSlices h1 nc).1 (ecsSlices h1 nc).2.1 ∧
    SliceValid (ecsSlices h1 nc).1 (ecsSlices h1 nc).2.2 ∧
    readSlice (ecsSlices h1 nc).1 (ecsSlices h1 nc).2.1 = catValue h1 nc ∧
    readSlice (ecsSlices h1 nc).1 (ecsSlices h1 nc).2.2 = typValue h1 nc := by
  unfold ecsSlices catValue typValue
  rcases nc with _ | ⟨ni, _ | si⟩
  · exact ⟨HFrame.refl h1, nilSlice_valid _, nilSlice_valid _, by simp [readSlice, nilSlice], by simp [readSlice, nilSlice]⟩
  · exact ⟨HFrame.refl h1, (hw.catAt ni).2, (hw.typAt ni).2, rfl, rfl⟩
  · simp only
    have sa := appendSlice_spec h1 (catSliceAt h1 ni) (readSlice h1 (catSliceAt h1 si)) (hw.catAt ni).1
    have hwa : HeapWF (appendSlice h1 (catSliceAt h1 ni) (readSlice h1 (catSliceAt h1 si))).1 := hw.mono sa.1
    have sb := appendSlice_spec (appendSlice h1 (catSliceAt h1 ni) (readSlice h1 (catSliceAt h1 si))).1
      (typSliceAt (appendSlice h1 (catSliceAt h1 ni) (readSlice h1 (catSliceAt h1 si))).1 ni)
      (readSlice (appendSlice h1 (catSliceAt h1 ni) (readSlice h1 (catSliceAt h1 si))).1
        (typSliceAt (appendSlice h1 (catSliceAt h1 ni) (readSlice h1 (catSliceAt h1 si))).1 si))
      (hwa.typAt ni).1
    have hva := sa.2.1 (hw.catAt ni).2
    refine ⟨sa.1.trans sb.1, hva.mono sb.1, sb.2.1 (hwa.typAt ni).2, ?_, ?_⟩
    · rw [readSlice_frame sb.1 hva]; exact sa.2.2
    · rw [sb.2.2, typSliceAt_frame sa.1, typSliceAt_frame sa.1,
        readSlice_frame sa.1 (hw.typAt ni).2, readSlice_frame sa.1 (hw.typAt si).2]

/-! ### the frame of `coalesceH` -/

theorem fill_wf {h : Heap} (hw : HeapWF h) (ids : List Nat) : HeapWF (fill h ids) := hw.mono (fill_hframe ids h)

theorem coalesceH_hframe (T : Tables) (h : Heap) (hw : HeapWF h) (ids : List Nat) :
    HFrame h (coalesceH T h ids).1 := by
  have h1 := fill_hframe (touched (kept ids (ids.map (viewAt h)))) h
  have h2 := (ecsSlices_spec _ (fill_wf hw (touched (kept ids (ids.map (viewAt h)))))
    (normChoice T (ids.map (viewAt h)))).1
  unfold coalesceH
  simp only
  split <;> exact h1.trans h2

/-! ### reading an event -/

def derefO (h : Heap) : Outcome EventH → Outcome Event
  | .ok eh => .ok (deref h eh)
  | .err x => .err x
  | .panic => .panic

/-- `deref` as a function of the five things it reads. -/
def mkDeref (core : Event) (paths : List KV) (tags cat typ : List Bytes) : Event :=
  { core with paths := paths, tags := tags, ecsCategory := cat, ecsType := typ }

theorem deref_eq (h : Heap) (eh : EventH) :
    deref h eh = mkDeref eh.core (eh.pathRefs.map (fun i => ((obsAt h i).data).getD []))
      (tagsRead h eh.tagRef) (readSlice h eh.cat) (readSlice h eh.typ) := rfl

theorem deref_congr {h1 h2 : Heap} {a b : EventH} (hc : a.core = b.core)
    (hp : a.pathRefs.map (fun i => ((obsAt h1 i).data).getD []) = b.pathRefs.map (fun i => ((obsAt h2 i).data).getD []))
    (ht : tagsRead h1 a.tagRef = tagsRead h2 b.tagRef)
    (hcat : readSlice h1 a.cat = readSlice h2 b.cat) (htyp : readSlice h1 a.typ = readSlice h2 b.typ) :
    deref h1 a = deref h2 b := by
  rw [deref_eq, deref_eq, hc, hp, ht, hcat, htyp]

/-- an event whose slices can be read in `h` (true of every event `coalesceH` returned, see
`C15_returned_valid`). -/
def EventValid (h : Heap) (eh : EventH) : Prop := SliceValid h eh.cat ∧ SliceValid h eh.typ

theorem deref_frame {h h' : Heap} (hf : HFrame h h') {eh : EventH} (hv : EventValid h eh) :
    deref h' eh = deref h eh := by
  unfold deref
  rw [readSlice_frame hf hv.1, readSlice_frame hf hv.2]
  have hp : eh.pathRefs.map (fun i => ((obsAt h' i).data).getD []) =
      eh.pathRefs.map (fun i => ((obsAt h i).data).getD []) := by
    apply List.map_congr_left
    intro i _
    rw [hf.obs_eq i]
  rw [hp]
  have ht : tagsRead h' eh.tagRef = tagsRead h eh.tagRef := by
    unfold tagsRead
    cases eh.tagRef with
    | none => rfl
    | some i => simp only; rw [hf.obs_eq i]
  rw [ht]

theorem selectPath_some (paths : List KV) (hint : Int) (hp : paths ≠ []) (hh : 0 ≤ hint) :
    selectPath paths hint ≠ none := by
  unfold selectPath
  simp only
  have hlen : 0 < paths.length := List.length_pos_iff.mpr hp
  by_cases hc : (paths.length : Int) > hint
  · simp only [hc, if_true]
    have : ¬ hint < 0 := by omega
    simp only [this, if_false]
    have hlt : hint.toNat < paths.length := by omega
    rw [List.getElem?_eq_getElem hlt]
    simp
  · simp only [hc, if_false]
    have : ¬ (0 : Int) < 0 := by omega
    simp only [this, if_false, Int.toNat_zero]
    rw [List.getElem?_eq_getElem hlen]
    simp

theorem normAt_nonneg (T : Tables) (hT : ∀ n ∈ T.norms, 0 ≤ n.objectPathIndex) (i : Nat) :
    0 ≤ (normAt T i).objectPathIndex := by
  unfold normAt
  cases hn : T.norms[i]? with
  | none => simp only [Option.getD_none]; decide
  | some n => exact hT n (List.mem_of_getElem? hn)

/-! ### the heap after `init` -/

theorem initArrs_length (l : List Norm) : (initArrs l).length = 2 * l.length := by
  induction l with
  | nil => rfl
  | cons n r ih => simp only [initArrs, List.length_cons, ih]; try omega

theorem initCatSlices_spec (l : List Norm) (i : Nat)
    (hfull : ∀ n ∈ l, n.catCap = n.ecsCategory.length) :
    ∀ s ∈ initCatSlices i l, s.len = s.cap ∧ s.cell < 2 * (i + l.length) := by
  induction l generalizing i with
  | nil => intro s hs; cases hs
  | cons n r ih =>
    intro s hs
    simp only [initCatSlices, List.mem_cons] at hs
    rcases hs with rfl | hs
    · exact ⟨(hfull n (List.mem_cons_self ..)).symm, by simp only [List.length_cons]; omega⟩
    · have := ih (i + 1) (fun m hm => hfull m (List.mem_cons_of_mem _ hm)) s hs
      exact ⟨this.1, by simp only [List.length_cons]; omega⟩

theorem initTypSlices_spec (l : List Norm) (i : Nat)
    (hfull : ∀ n ∈ l, n.typCap = n.ecsType.length) :
    ∀ s ∈ initTypSlices i l, s.len = s.cap ∧ s.cell < 2 * (i + l.length) := by
  induction l generalizing i with
  | nil => intro s hs; cases hs
  | cons n r ih =>
    intro s hs
    simp only [initTypSlices, List.mem_cons] at hs
    rcases hs with rfl | hs
    · exact ⟨(hfull n (List.mem_cons_self ..)).symm, by simp only [List.length_cons]; omega⟩
    · have := ih (i + 1) (fun m hm => hfull m (List.mem_cons_of_mem _ hm)) s hs
      exact ⟨this.1, by simp only [List.length_cons]; omega⟩

/-- tables whose slices all have `cap = len` give a well-formed initial heap. -/
theorem init_wf (T : Tables)
    (hfull : ∀ n ∈ T.norms, n.catCap = n.ecsCategory.length ∧ n.typCap = n.ecsType.length) :
    HeapWF (Heap.init T) := by
  have hc := initCatSlices_spec T.norms 0 (fun n hn => (hfull n hn).1)
  have ht := initTypSlices_spec T.norms 0 (fun n hn => (hfull n hn).2)
  refine ⟨fun s hs => (hc s hs).1, fun s hs => (ht s hs).1, fun s hs => Or.inr ?_, fun s hs => Or.inr ?_⟩
  · show s.cell < (initArrs T.norms).length
    rw [initArrs_length]; have := (hc s hs).2; omega
  · show s.cell < (initArrs T.norms).length
    rw [initArrs_length]; have := (ht s hs).2; omega

theorem newMsg_hframe (h : Heap) (v : View) : HFrame { (h.newMsg v).1 with msgs := h.msgs } h := HFrame.refl h

theorem newMsg_wf {h : Heap} (hw : HeapWF h) (v : View) : HeapWF (h.newMsg v).1 :=
  ⟨hw.catFull, hw.typFull, hw.catValid, hw.typValid⟩

/-! ### the ID cache -/

/-- every cached value is what `lookupFn` answers for its key. -/
def Cache.Consistent (f : Bytes → Bytes) (c : Cache) : Prop := ∀ k it, Cache.find k c = some it → it.value = f k

theorem Cache.find_put_self (k : Bytes) (it : CacheItem) (c : Cache) : Cache.find k (Cache.put k it c) = some it := by
  induction c with
  | nil => simp [Cache.put, Cache.find]
  | cons p r ih =>
    unfold Cache.put
    split
    · simp [Cache.find]
    · rename_i hp; simp [Cache.find, hp, ih]

theorem Cache.find_put_ne {k k' : Bytes} (it : CacheItem) (c : Cache) (h : k' ≠ k) :
    Cache.find k' (Cache.put k it c) = Cache.find k' c := by
  induction c with
  | nil => simp [Cache.put, Cache.find, Ne.symm h]
  | cons p r ih =>
    unfold Cache.put
    split
    · rename_i hp
      simp only [Cache.find, Ne.symm h, if_false]
      rw [hp]; simp [Ne.symm h]
    · simp only [Cache.find, ih]

theorem Cache.put_consistent {f : Bytes → Bytes} {c : Cache} (hc : Cache.Consistent f c) (k : Bytes) (t : Int) :
    Cache.Consistent f (Cache.put k ⟨t, f k⟩ c) := by
  intro k' it h
  by_cases hk : k' = k
  · subst hk
    rw [Cache.find_put_self] at h; cases h; rfl
  · rw [Cache.find_put_ne _ _ hk] at h
    exact hc k' it h

theorem Cache.lookup_spec (f : Bytes → Bytes) (exp : Int) (c : Cache) (hc : Cache.Consistent f c)
    (key : Bytes) (t1 t2 : Int) :
    (Cache.lookup f exp c key t1 t2).2 = cacheLookup f key ∧
    Cache.Consistent f (Cache.lookup f exp c key t1 t2).1 := by
  unfold Cache.lookup cacheLookup
  by_cases hk : key = [] ∨ key = vUnset
  · rw [if_pos hk, if_pos hk]; exact ⟨rfl, hc⟩
  · rw [if_neg hk, if_neg hk]
    cases hf : Cache.find key c with
    | none => exact ⟨rfl, Cache.put_consistent hc key _⟩
    | some it =>
      simp only
      split
      · exact ⟨rfl, Cache.put_consistent hc key _⟩
      · exact ⟨hc key it hf, hc⟩

end LA.Coalesce
