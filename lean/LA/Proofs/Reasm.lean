/-
Helper lemmas about Model.Reasm (no property statements here; those live in LA/Props).
-/
import LA.Model.Reasm

namespace LA.Reasm

/-! ### basic facts about the buffer operations -/

def keys (b : Buf) : List Nat := b.map (·.1)

def allMsgs (b : Buf) : List Msg := b.flatMap (·.2.msgs)

@[simp] theorem keys_nil : keys [] = [] := rfl
@[simp] theorem keys_cons (p : Nat × Ev) (b : Buf) : keys (p :: b) = p.1 :: keys b := rfl
@[simp] theorem allMsgs_nil : allMsgs [] = [] := rfl
@[simp] theorem allMsgs_cons (p : Nat × Ev) (b : Buf) : allMsgs (p :: b) = p.2.msgs ++ allMsgs b := by
  simp [allMsgs]
theorem allMsgs_append (a b : Buf) : allMsgs (a ++ b) = allMsgs a ++ allMsgs b := by
  simp [allMsgs]

theorem hasKey_iff (k : Nat) (b : Buf) : hasKey k b = true ↔ k ∈ keys b := by
  induction b with
  | nil => simp [hasKey]
  | cons p b ih =>
    simp only [hasKey, List.any_cons, Bool.or_eq_true, keys_cons, List.mem_cons] at *
    constructor
    · rintro (h | h)
      · left; simpa using (beq_iff_eq.mp h).symm
      · right; exact ih.mp h
    · rintro (h | h)
      · left; simp [h]
      · right; exact ih.mpr h

/-- insertEnd is a permutation of consing. -/
theorem insertEnd_perm (x : Nat × Ev) (b : Buf) : (insertEnd x b).Perm (x :: b) := by
  induction b with
  | nil => simp [insertEnd]
  | cons y ys ih =>
    unfold insertEnd
    split
    · exact List.Perm.refl _
    · exact (List.Perm.cons y ih).trans (List.Perm.swap x y ys)

theorem keys_insertEnd_perm (x : Nat × Ev) (b : Buf) : (keys (insertEnd x b)).Perm (x.1 :: keys b) := by
  have := (insertEnd_perm x b).map (·.1)
  simpa [keys] using this

theorem mem_insertEnd {x p : Nat × Ev} {b : Buf} : p ∈ insertEnd x b ↔ p = x ∨ p ∈ b := by
  rw [(insertEnd_perm x b).mem_iff]; simp

theorem allMsgs_perm {a b : Buf} (h : a.Perm b) : (allMsgs a).Perm (allMsgs b) := by
  induction h with
  | nil => simp
  | cons x _ ih => simp only [allMsgs_cons]; exact List.Perm.append_left _ ih
  | swap x y l =>
    simp only [allMsgs_cons, ← List.append_assoc]
    exact List.Perm.append_right _ List.perm_append_comm
  | trans _ _ ih1 ih2 => exact ih1.trans ih2

@[simp] theorem keys_appendTo (m : Msg) (b : Buf) : keys (appendTo m b) = keys b := by
  induction b with
  | nil => rfl
  | cons p b ih =>
    obtain ⟨k, e⟩ := p
    unfold appendTo
    split <;> simp [ih]

@[simp] theorem keys_markComplete (s : Nat) (b : Buf) : keys (markComplete s b) = keys b := by
  induction b with
  | nil => rfl
  | cons p b ih =>
    obtain ⟨k, e⟩ := p
    unfold markComplete
    split <;> simp [ih]

@[simp] theorem allMsgs_markComplete (s : Nat) (b : Buf) : allMsgs (markComplete s b) = allMsgs b := by
  induction b with
  | nil => rfl
  | cons p b ih =>
    obtain ⟨k, e⟩ := p
    unfold markComplete
    split <;> simp [ih]

/-- appending to an existing key adds exactly that message. -/
theorem allMsgs_appendTo_perm (m : Msg) (b : Buf) (h : m.seq ∈ keys b) :
    (allMsgs (appendTo m b)).Perm (m :: allMsgs b) := by
  induction b with
  | nil => simp at h
  | cons p b ih =>
    obtain ⟨k, e⟩ := p
    unfold appendTo
    split
    · simp only [allMsgs_cons, List.append_assoc]
      exact (List.perm_append_comm (l₁ := e.msgs) (l₂ := [m] ++ allMsgs b)).trans (by
        simp only [List.append_assoc, List.singleton_append]
        exact List.Perm.cons m List.perm_append_comm)
    · rename_i hk
      have hk' : m.seq ∈ keys b := by
        simp only [keys_cons, List.mem_cons] at h
        rcases h with h | h
        · exact absurd (by simp [h]) hk
        · exact h
      simp only [allMsgs_cons]
      exact (List.Perm.append_left _ (ih hk')).trans List.perm_middle

/-! ### cleanUp -/

theorem cleanUp_append (now m : Int) (b : Buf) : (cleanUp now m b).1 ++ (cleanUp now m b).2 = b := by
  induction b with
  | nil => rfl
  | cons p b ih =>
    obtain ⟨k, e⟩ := p
    unfold cleanUp
    split
    · simp [ih]
    · rfl

theorem cleanUp_snd_length_le (now m : Int) (b : Buf) : (cleanUp now m b).2.length ≤ b.length := by
  have := congrArg List.length (cleanUp_append now m b)
  simp at this; omega

end LA.Reasm

namespace LA.Reasm

/-! ### membership characterisations -/

theorem mem_markComplete {s : Nat} {b : Buf} {p : Nat × Ev} (h : p ∈ markComplete s b) :
    ∃ p' ∈ b, p'.1 = p.1 ∧ p'.2.msgs = p.2.msgs ∧ p'.2.expire = p.2.expire ∧
      (p.2.complete = p'.2.complete ∨ (p.1 = s ∧ p.2.complete = true)) := by
  induction b with
  | nil => simp [markComplete] at h
  | cons q b ih =>
    obtain ⟨k, e⟩ := q
    unfold markComplete at h
    split at h
    · rename_i hk
      rcases List.mem_cons.mp h with h | h
      · subst h; exact ⟨(k, e), by simp, rfl, rfl, rfl, Or.inr ⟨by simpa using hk, rfl⟩⟩
      · exact ⟨p, by simp [h], rfl, rfl, rfl, Or.inl rfl⟩
    · rcases List.mem_cons.mp h with h | h
      · subst h; exact ⟨(k, e), by simp, rfl, rfl, rfl, Or.inl rfl⟩
      · obtain ⟨p', hp', h1⟩ := ih h
        exact ⟨p', by simp [hp'], h1⟩

theorem mem_appendTo {m : Msg} {b : Buf} {p : Nat × Ev} (h : p ∈ appendTo m b) :
    ∃ p' ∈ b, p'.1 = p.1 ∧ p'.2.expire = p.2.expire ∧
      ((p.2.msgs = p'.2.msgs ∧ p.2.complete = p'.2.complete) ∨
       (p.1 = m.seq ∧ p.2.msgs = p'.2.msgs ++ [m] ∧ p.2.complete = (p'.2.complete || completes m.typ))) := by
  induction b with
  | nil => simp [appendTo] at h
  | cons q b ih =>
    obtain ⟨k, e⟩ := q
    unfold appendTo at h
    split at h
    · rename_i hk
      rcases List.mem_cons.mp h with h | h
      · subst h; exact ⟨(k, e), by simp, rfl, rfl, Or.inr ⟨by simpa using hk, rfl, rfl⟩⟩
      · exact ⟨p, by simp [h], rfl, rfl, Or.inl ⟨rfl, rfl⟩⟩
    · rcases List.mem_cons.mp h with h | h
      · subst h; exact ⟨(k, e), by simp, rfl, rfl, Or.inl ⟨rfl, rfl⟩⟩
      · obtain ⟨p', hp', h1⟩ := ih h
        exact ⟨p', by simp [hp'], h1⟩

theorem appendTo_mem {m : Msg} {b : Buf} (hnd : (keys b).Nodup) {p' : Nat × Ev} (hp' : p' ∈ b)
    (hk : p'.1 = m.seq) :
    (p'.1, { p'.2 with msgs := p'.2.msgs ++ [m], complete := p'.2.complete || completes m.typ }) ∈ appendTo m b := by
  induction b with
  | nil => simp at hp'
  | cons q b ih =>
    obtain ⟨k, e⟩ := q
    simp only [keys_cons, List.nodup_cons] at hnd
    unfold appendTo
    rcases List.mem_cons.mp hp' with h | h
    · subst h
      simp only at hk
      simp [hk]
    · have hne : (k == m.seq) = false := by
        apply Bool.eq_false_iff.mpr
        intro hkk
        have : k = p'.1 := by rw [hk]; simpa using hkk
        exact hnd.1 (this ▸ List.mem_map.mpr ⟨p', h, rfl⟩)
      simp only [hne, Bool.false_eq_true, if_false]
      exact List.mem_cons_of_mem _ (ih hnd.2 h)

theorem cleanUp_snd_suffix (now m : Int) (b : Buf) : (cleanUp now m b).2 <:+ b :=
  ⟨(cleanUp now m b).1, cleanUp_append now m b⟩

theorem cleanUp_fst_prefix (now m : Int) (b : Buf) : (cleanUp now m b).1 <+: b :=
  ⟨(cleanUp now m b).2, cleanUp_append now m b⟩

/-! ### the structural invariant -/

structure Inv (s : St) : Prop where
  nodup : (keys s.buf).Nodup
  uniform : ∀ p ∈ s.buf, ∀ m ∈ p.2.msgs, m.seq = p.1
  nonempty : ∀ p ∈ s.buf, p.2.msgs ≠ []

theorem inv_init (ms to : Int) : Inv (init ms to) := ⟨by simp [init], by simp [init], by simp [init]⟩

theorem inv_of_sublist {s s' : St} (h : Inv s) (hsub : s'.buf.Sublist s.buf) : Inv s' :=
  ⟨(h.nodup.sublist (hsub.map _)), fun p hp => h.uniform p (hsub.subset hp), fun p hp => h.nonempty p (hsub.subset hp)⟩

theorem inv_put {s : St} (h : Inv s) (m : Msg) (t : Int) : Inv (put s m t) := by
  unfold put
  split
  · refine ⟨by simpa using h.nodup, ?_, ?_⟩
    · intro p hp x hx
      obtain ⟨p', hp', h1, h2, _⟩ := mem_markComplete hp
      rw [← h1]; exact h.uniform p' hp' x (h2 ▸ hx)
    · intro p hp
      obtain ⟨p', hp', _, h2, _⟩ := mem_markComplete hp
      rw [← h2]; exact h.nonempty p' hp'
  · split
    · refine ⟨by simpa using h.nodup, ?_, ?_⟩
      · intro p hp x hx
        obtain ⟨p', hp', h1, _, h2⟩ := mem_appendTo hp
        rcases h2 with ⟨h2, _⟩ | ⟨h2, h3, _⟩
        · rw [← h1]; exact h.uniform p' hp' x (h2 ▸ hx)
        · rw [h3] at hx
          rcases List.mem_append.mp hx with hx | hx
          · rw [← h1]; exact h.uniform p' hp' x hx
          · simp at hx; rw [hx, h2]
      · intro p hp
        obtain ⟨p', hp', _, _, h2⟩ := mem_appendTo hp
        rcases h2 with ⟨h2, _⟩ | ⟨_, h3, _⟩
        · rw [h2]; exact h.nonempty p' hp'
        · rw [h3]; simp
    · rename_i _ hk
      have hk' : m.seq ∉ keys s.buf := fun hm => hk ((hasKey_iff _ _).mpr hm)
      refine ⟨?_, ?_, ?_⟩
      · exact (keys_insertEnd_perm _ _).nodup_iff.mpr (List.nodup_cons.mpr ⟨hk', h.nodup⟩)
      · intro p hp x hx
        rcases mem_insertEnd.mp hp with hp | hp
        · subst hp; simp at hx; rw [hx]
        · exact h.uniform p hp x hx
      · intro p hp
        rcases mem_insertEnd.mp hp with hp | hp
        · subst hp; simp
        · exact h.nonempty p hp

theorem inv_evictStep {s : St} (h : Inv s) (r : Buf × Buf) (hr : r.2.Sublist s.buf) : Inv (evictStep s r).1 :=
  inv_of_sublist h (by simpa [evictStep] using hr)

theorem inv_step {s : St} (h : Inv s) (op : Op) : Inv (step s op).1 := by
  cases op with
  | push m tp tc =>
    have h1 := inv_put h m tp
    exact inv_evictStep h1 _ (cleanUp_snd_suffix _ _ _).sublist
  | pushNil => exact h
  | maintain t =>
    simp only [step]
    split
    · exact h
    · exact inv_evictStep h _ (cleanUp_snd_suffix _ _ _).sublist
  | close =>
    simp only [step]
    split
    · exact h
    · exact inv_of_sublist h (by simp [evictStep])

theorem inv_run {s : St} (h : Inv s) (ops : List Op) : Inv (run s ops).1 := by
  induction ops generalizing s with
  | nil => exact h
  | cons op ops ih => exact ih (inv_step h op)

/-! ### conservation of messages -/

def groupsOf (outs : List Out) : List Msg :=
  outs.flatMap (fun o => match o with | .group ms => ms | _ => [])

def delivered (tr : List (List Out)) : List Msg := tr.flatMap groupsOf

def pushedOf : Op → List Msg
  | .push m _ _ => if m.typ == EOE then [] else [m]
  | _ => []

def pushed (ops : List Op) : List Msg := ops.flatMap pushedOf

theorem groupsOf_callback (ev : Buf) (n : Nat) : groupsOf (callback ev n) = allMsgs ev := by
  unfold callback groupsOf
  rw [List.flatMap_append]
  have : (if n > 0 then [Out.lost n] else []).flatMap (fun o => match o with | .group ms => ms | _ => []) = [] := by
    split <;> simp
  rw [this, List.append_nil]
  induction ev with
  | nil => rfl
  | cons p ev ih => simp [List.flatMap_cons, allMsgs_cons] at *; rw [ih]

theorem evictStep_conserve (s : St) (r : Buf × Buf) :
    groupsOf (evictStep s r).2 ++ allMsgs (evictStep s r).1.buf = allMsgs (r.1 ++ r.2) := by
  simp [evictStep, groupsOf_callback, allMsgs_append]

theorem put_conserve (s : St) (m : Msg) (t : Int) :
    (allMsgs (put s m t).buf).Perm (pushedOf (.push m t t) ++ allMsgs s.buf) := by
  by_cases he : (m.typ == EOE) = true
  · simp [put, pushedOf, he]
  · by_cases hk : hasKey m.seq s.buf = true
    · simpa [put, pushedOf, he, hk] using allMsgs_appendTo_perm m s.buf ((hasKey_iff _ _).mp hk)
    · simpa [put, pushedOf, he, hk] using allMsgs_perm (insertEnd_perm (m.seq, { expire := t + s.timeout, msgs := [m], complete := completes m.typ }) s.buf)

theorem step_conserve (s : St) (op : Op) :
    (groupsOf (step s op).2 ++ allMsgs (step s op).1.buf).Perm (pushedOf op ++ allMsgs s.buf) := by
  cases op with
  | push m tp tc =>
    simp only [step]
    rw [evictStep_conserve, cleanUp_append]
    exact put_conserve s m tp
  | pushNil => simp [step, groupsOf, pushedOf]
  | maintain t =>
    simp only [step]
    split
    · simp [groupsOf, pushedOf]
    · rw [evictStep_conserve, cleanUp_append]; simp [pushedOf]
  | close =>
    simp only [step]
    split
    · simp [groupsOf, pushedOf]
    · rw [evictStep_conserve]; simp [pushedOf]

theorem run_conserve (s : St) (ops : List Op) :
    (delivered (run s ops).2 ++ allMsgs (run s ops).1.buf).Perm (pushed ops ++ allMsgs s.buf) := by
  induction ops generalizing s with
  | nil => simp [run, delivered, pushed]
  | cons op ops ih =>
    simp only [run, delivered, pushed, List.flatMap_cons]
    have h1 := step_conserve s op
    have h2 := ih (step s op).1
    simp only [delivered, pushed] at h2
    generalize groupsOf (step s op).2 = g at *
    generalize List.flatMap groupsOf (run (step s op).1 ops).2 = D' at *
    generalize allMsgs (run (step s op).1 ops).1.buf = B'' at *
    generalize allMsgs (step s op).1.buf = B' at *
    generalize List.flatMap pushedOf ops = P' at *
    generalize pushedOf op = p at *
    generalize allMsgs s.buf = B at *
    calc g ++ D' ++ B'' = g ++ (D' ++ B'') := by simp
      _ |>.Perm (g ++ (P' ++ B')) := List.Perm.append_left g h2
      _ |>.Perm (P' ++ (g ++ B')) := by
          simp only [← List.append_assoc]; exact List.Perm.append_right _ List.perm_append_comm
      _ |>.Perm (P' ++ (p ++ B)) := List.Perm.append_left P' h1
      _ |>.Perm (p ++ P' ++ B) := by
          simp only [← List.append_assoc]; exact List.Perm.append_right _ List.perm_append_comm

end LA.Reasm

namespace LA.Reasm

/-! ### groups are whole events, in push order -/

@[simp] theorem put_maxSize (s : St) (m : Msg) (t : Int) : (put s m t).maxSize = s.maxSize := by
  unfold put; split
  · rfl
  · split <;> rfl
@[simp] theorem put_timeout (s : St) (m : Msg) (t : Int) : (put s m t).timeout = s.timeout := by
  unfold put; split
  · rfl
  · split <;> rfl
@[simp] theorem put_closed (s : St) (m : Msg) (t : Int) : (put s m t).closed = s.closed := by
  unfold put; split
  · rfl
  · split <;> rfl
@[simp] theorem put_last (s : St) (m : Msg) (t : Int) : (put s m t).last = s.last := by
  unfold put; split
  · rfl
  · split <;> rfl

def groupLists (outs : List Out) : List (List Msg) :=
  outs.filterMap (fun o => match o with | .group ms => some ms | _ => none)

theorem groupLists_callback (ev : Buf) (n : Nat) : groupLists (callback ev n) = ev.map (·.2.msgs) := by
  unfold callback groupLists
  rw [List.filterMap_append]
  have : (if n > 0 then [Out.lost n] else []).filterMap (fun o => match o with | .group ms => some ms | _ => none) = [] := by
    split <;> simp
  rw [this, List.append_nil]
  induction ev with
  | nil => rfl
  | cons p ev ih => simp [List.filterMap_cons] at *; exact ih

/-- the events evicted by a step, i.e. a prefix of the buffer after `put`. -/
def evictedBy (s : St) : Op → Buf
  | .push m tp tc => (cleanUp tc s.maxSize (put s m tp).buf).1
  | .pushNil => []
  | .maintain t => if s.closed then [] else (cleanUp t s.maxSize s.buf).1
  | .close => if s.closed then [] else s.buf

/-- the buffer against which a step evicts (after `put` for a push). -/
def bufBeforeEvict (s : St) : Op → Buf
  | .push m tp _ => (put s m tp).buf
  | _ => s.buf

theorem groupLists_step (s : St) (op : Op) :
    groupLists (step s op).2 = (evictedBy s op).map (·.2.msgs) := by
  cases op with
  | push m tp tc => simp [step, evictStep, groupLists_callback, evictedBy]
  | pushNil => simp [step, groupLists, evictedBy]
  | maintain t =>
    simp only [step, evictedBy]
    split
    · simp [groupLists]
    · simp [evictStep, groupLists_callback]
  | close =>
    simp only [step, evictedBy]
    split
    · simp [groupLists]
    · simp [evictStep, groupLists_callback]

theorem evictedBy_prefix (s : St) (op : Op) : evictedBy s op <+: bufBeforeEvict s op := by
  cases op with
  | push m tp tc =>
    simp only [evictedBy, bufBeforeEvict]
    exact cleanUp_fst_prefix _ _ _
  | pushNil => simp [evictedBy]
  | maintain t =>
    simp only [evictedBy, bufBeforeEvict]
    split
    · simp
    · exact cleanUp_fst_prefix _ _ _
  | close =>
    simp only [evictedBy, bufBeforeEvict]
    split <;> simp

/-- history invariant: every buffered event's messages are a subsequence of the pushes so far. -/
def OrderInv (H : List Msg) (b : Buf) : Prop := ∀ p ∈ b, p.2.msgs.Sublist H

theorem orderInv_mono {H H' : List Msg} {b : Buf} (h : OrderInv H b) (hh : H.Sublist H') : OrderInv H' b :=
  fun p hp => (h p hp).trans hh

theorem orderInv_put {H : List Msg} {s : St} (h : OrderInv H s.buf) (m : Msg) (t : Int) :
    OrderInv (H ++ pushedOf (.push m t t)) (put s m t).buf := by
  by_cases he : (m.typ == EOE) = true
  · simp only [put, pushedOf, he, if_true, List.append_nil]
    intro p hp
    obtain ⟨p', hp', _, h2, _⟩ := mem_markComplete hp
    rw [← h2]; exact h p' hp'
  · by_cases hk : hasKey m.seq s.buf = true
    · simp only [put, pushedOf, he, hk, if_true]
      intro p hp
      obtain ⟨p', hp', _, _, h2⟩ := mem_appendTo hp
      rcases h2 with ⟨h2, _⟩ | ⟨_, h3, _⟩
      · rw [h2]; exact (h p' hp').trans (List.sublist_append_left _ _)
      · rw [h3]; exact List.Sublist.append (h p' hp') (List.Sublist.refl _)
    · simp only [put, pushedOf, he, hk]
      intro p hp
      rcases mem_insertEnd.mp hp with hp | hp
      · subst hp; simp
      · exact (h p hp).trans (List.sublist_append_left _ _)

theorem pushedOf_time (m : Msg) (a b c d : Int) : pushedOf (.push m a b) = pushedOf (.push m c d) := rfl

theorem orderInv_step {H : List Msg} {s : St} (h : OrderInv H s.buf) (op : Op) :
    OrderInv (H ++ pushedOf op) (bufBeforeEvict s op) ∧ OrderInv (H ++ pushedOf op) (step s op).1.buf := by
  cases op with
  | push m tp tc =>
    have h1 := orderInv_put h m tp
    rw [pushedOf_time m tp tp tp tc] at h1
    refine ⟨h1, ?_⟩
    intro p hp
    exact h1 p ((cleanUp_snd_suffix _ _ _).subset (by simpa [step, evictStep] using hp))
  | pushNil => simpa [step, pushedOf, bufBeforeEvict] using h
  | maintain t =>
    refine ⟨by simpa [pushedOf, bufBeforeEvict] using h, ?_⟩
    simp only [step, pushedOf, List.append_nil]
    split
    · exact h
    · intro p hp; exact h p ((cleanUp_snd_suffix _ _ _).subset (by simpa [evictStep] using hp))
  | close =>
    refine ⟨by simpa [pushedOf, bufBeforeEvict] using h, ?_⟩
    simp only [step, pushedOf, List.append_nil]
    split
    · exact h
    · intro p hp; simp [evictStep] at hp

/-- every group delivered anywhere in a run is a subsequence of the pushes made so far. -/
theorem run_groups_sublist {H : List Msg} {s : St} (h : OrderInv H s.buf) (ops : List Op) :
    ∀ outs ∈ (run s ops).2, ∀ g ∈ groupLists outs, g.Sublist (H ++ pushed ops) := by
  induction ops generalizing s H with
  | nil => simp [run]
  | cons op ops ih =>
    intro outs ho g hg
    simp only [run, List.mem_cons] at ho
    have hs := orderInv_step h op
    rcases ho with ho | ho
    · subst ho
      rw [groupLists_step] at hg
      obtain ⟨p, hp, rfl⟩ := List.mem_map.mp hg
      have := hs.1 p ((evictedBy_prefix s op).subset hp)
      refine this.trans ?_
      simp only [pushed, List.flatMap_cons, ← List.append_assoc]
      exact List.sublist_append_left _ _
    · have := ih hs.2 outs ho g hg
      simpa [pushed, List.flatMap_cons, List.append_assoc] using this

end LA.Reasm
