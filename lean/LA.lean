import LA.Model.Reasm
