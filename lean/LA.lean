import LA.Model.Reasm
import LA.Props.C01
import LA.Props.C02
import LA.Props.C03
import LA.Props.C10
import LA.Props.C19
import LA.Props.C09
import LA.Props.C15
