/-
Line-protocol driver over the executable models (core-only so it links).
One request per line on stdin, one reply per line on stdout.
-/
import LA.Model.Reasm

open LA

structure DState where
  reasm : Reasm.St := Reasm.init 0 0

def renderOuts (outs : List Reasm.Out) : String :=
  if outs.isEmpty then "-" else
  ";".intercalate (outs.map fun
    | .group ms => "g:" ++ ",".intercalate (ms.map (fun m => toString m.id))
    | .lost n => "lost:" ++ toString n
    | .err => "err")

def reasmCmd (s : DState) (args : List String) : DState × String :=
  match args with
  | ["new", m, t] =>
    match m.toInt?, t.toInt? with
    | some m, some t => ({ s with reasm := Reasm.init m t }, "ok")
    | _, _ => (s, "bad-op")
  | ["push", id, seq, typ, tp, tc] =>
    match id.toNat?, seq.toNat?, typ.toNat?, tp.toInt?, tc.toInt? with
    | some id, some seq, some typ, some tp, some tc =>
      let r := Reasm.step s.reasm (.push ⟨id, seq, typ⟩ tp tc)
      ({ s with reasm := r.1 }, renderOuts r.2)
    | _, _, _, _, _ => (s, "bad-op")
  | ["nil"] => (s, "-")
  | ["fail"] => (s, "err")
  | ["maintain", t] =>
    match t.toInt? with
    | some t => let r := Reasm.step s.reasm (.maintain t); ({ s with reasm := r.1 }, renderOuts r.2)
    | none => (s, "bad-op")
  | ["close"] => let r := Reasm.step s.reasm .close; ({ s with reasm := r.1 }, renderOuts r.2)
  | ["buf"] => (s, ",".intercalate (s.reasm.buf.map (fun p => toString p.1)))
  | _ => (s, "bad-op")

def stepLine (s : DState) (line : String) : DState × String :=
  match (line.trimAscii.toString.splitOn " ").filter (· ≠ "") with
  | "reasm" :: args => reasmCmd s args
  | _ => (s, "bad-op")

partial def loop (hin hout : IO.FS.Stream) (s : DState) : IO Unit := do
  let line ← hin.getLine
  if line.isEmpty then return ()
  let (s', out) := stepLine s line
  hout.putStrLn out
  hout.flush
  loop hin hout s'

def main : IO Unit := do
  loop (← IO.getStdin) (← IO.getStdout) {}
