/-
Line-protocol driver over the executable models (core-only so it links as an executable).
One request per line on stdin, one reply per line on stdout. The first word selects the
family; each family lives in LA/Drv/<Family>.lean.
-/
import LA.Drv.Reasm
import LA.Drv.Conc
import LA.Drv.Auparse
import LA.Drv.Rule
import LA.Drv.Client
import LA.Drv.Coalesce
import LA.Drv.Tables

open LA.Drv

structure DState where
  reasm : Reasm.State := Reasm.init
  conc : Conc.State := Conc.init
  aup : Auparse.State := Auparse.init
  rule : Rule.State := Rule.init
  cli : Client.State := Client.init
  coal : Coalesce.State := Coalesce.init
  tab : Tables.State := Tables.init

def stepLine (s : DState) (line : String) : DState × String :=
  match words line with
  | "reasm" :: args => let r := Reasm.cmd s.reasm args; ({ s with reasm := r.1 }, r.2)
  | "conc" :: args => let r := Conc.cmd s.conc args; ({ s with conc := r.1 }, r.2)
  | "aup" :: args => let r := Auparse.cmd s.aup args; ({ s with aup := r.1 }, r.2)
  | "rule" :: args => let r := Rule.cmd s.rule args; ({ s with rule := r.1 }, r.2)
  | "flags" :: args => let r := Rule.cmd s.rule ("flags" :: args); ({ s with rule := r.1 }, r.2)
  | "cli" :: args => let r := Client.cmd s.cli args; ({ s with cli := r.1 }, r.2)
  | "nl" :: args => let r := Client.cmd s.cli ("nl" :: args); ({ s with cli := r.1 }, r.2)
  | "coal" :: args => let r := Coalesce.cmd s.coal args; ({ s with coal := r.1 }, r.2)
  | "tab" :: args => let r := Tables.cmd s.tab args; ({ s with tab := r.1 }, r.2)
  | _ => (s, "bad-op")

partial def loop (hin hout : IO.FS.Stream) (s : DState) : IO Unit := do
  let line ← hin.getLine
  if line.isEmpty then return ()
  let (s', out) := stepLine s line
  hout.putStrLn out
  hout.flush
  loop hin hout s'

def main : IO Unit := do
  loop (← IO.getStdin) (← IO.getStdout) {}
