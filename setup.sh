#!/bin/bash
# Build everything once, offline, from files on disk: Go harness (against /repo's working tree),
# regenerated Lean data, all Lean proofs and the model driver executable.
set -e
cd "$(dirname "$0")"
export GOFLAGS=-mod=mod GOPROXY=off GOSUMDB=off GOTOOLCHAIN=local
mkdir -p .work/bin evidence
REPO=${VERIF_REPO:-/repo}
cp $REPO/go.sum harness/go.sum
MODFLAG=""
if [ "$REPO" != "/repo" ]; then
  sed "s#=> /repo#=> $REPO#" harness/go.mod > .work/alt.mod; cp harness/go.sum .work/alt.sum; MODFLAG="-modfile=$PWD/.work/alt.mod"
fi
(cd harness && go build $MODFLAG -tags verif -o ../.work/bin/drive ./cmd/drive && go build $MODFLAG -tags verif -o ../.work/bin/extract ./cmd/extract)
.work/bin/extract -repo $REPO -out lean/LA/Gen
(cd lean && lake build)
echo "setup ok"
