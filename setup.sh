#!/bin/bash
# Build everything once, offline, from files on disk: Go harness (against /repo's working tree),
# regenerated Lean data, all Lean proofs and the model driver executable.
set -e
cd "$(dirname "$0")"
export GOFLAGS=-mod=mod GOPROXY=off GOSUMDB=off GOTOOLCHAIN=local
mkdir -p .work/bin evidence
cp /repo/go.sum harness/go.sum
(cd harness && go build -tags verif -o ../.work/bin/drive ./cmd/drive && go build -tags verif -o ../.work/bin/extract ./cmd/extract)
.work/bin/extract -repo /repo -out lean/LA/Gen
(cd lean && lake build)
echo "setup ok"
