#!/bin/bash
# Runs every claimed check (quick by default) on /repo as it is; prints one line per property.
tier=${1:-quick}
cd "$(dirname "$0")/.."
rc=0
for p in $(python3 -c "import json; print(' '.join(c['property_id'] for c in json.load(open('MANIFEST.json'))['checks']))"); do
  out=$(./check $p $tier 2>&1); r=$?
  echo "$out" | tail -1
  [ $r -ne 0 ] && { rc=1; echo "$out" | grep -E "VIOLATION|CHECK-ERROR" | head -3; }
done
python3-vt - <<'PY'
import json, jsonschema, glob
sch=json.load(open('/root/.vp/EVIDENCE.schema.json'))
bad=0
for c in json.load(open('MANIFEST.json'))['checks']:
    f='evidence/'+c['property_id']+'.json'   # this tree's copy (MANIFEST names /verif/evidence/...)
    try:
        e=json.load(open(f)); jsonschema.validate(e, sch)
        cov=e['coverage']
        assert cov['discharged']==cov['obligations']>=1, (cov['discharged'], cov['obligations'])
        assert e['violations']==0
    except Exception as ex:
        bad+=1; print('EVIDENCE PROBLEM', f, str(ex)[:200])
print('evidence files ok' if not bad else '%d evidence problems' % bad)
PY
exit $rc
