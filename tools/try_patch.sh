#!/bin/bash
# usage: tools/try_patch.sh <patch.diff> <prop> [tier]   — apply to /repo, run check, revert
set -u
patch=$1; prop=$2; tier=${3:-quick}
git -C /repo apply "$patch" || { echo "patch does not apply"; exit 3; }
/verif/check "$prop" "$tier"; rc=$?
git -C /repo checkout -- . 
git -C /repo status --short | grep -v '^??' 
echo "rc=$rc"
