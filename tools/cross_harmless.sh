#!/bin/bash
# Applies each behaviour-preserving refactor ($MUTSRC/Cxx/h) to a scratch worktree and runs the quick
# checks of EVERY property of the same family against it (a refactor of shared code must not alarm a sibling).
# usage: tools/cross_harmless.sh <scratch-repo> <verif-worktree> <patch-props...>
set -u
export GOFLAGS=-mod=mod GOPROXY=off GOSUMDB=off GOTOOLCHAIN=local
SR=$1; VW=$2; shift 2
MUTSRC=${MUTSRC:-/tmp/mut2/out}
fam() { case $1 in C01|C02|C03|C10|C19|C11) echo "C01 C02 C03 C10 C19 C11";; C04|C05|C12) echo "C04 C05 C12";;
  C06|C07|C13|C14) echo "C06 C07 C13 C14";; C08|C16|C17|C18) echo "C08 C16 C17 C18";; C09|C15|C20) echo "C09 C15 C20";; esac; }
for p in "$@"; do
  git -C $SR checkout -q -- . ; git -C $SR clean -fdq
  HV=${HVAR:-h}; git -C $SR apply $MUTSRC/$p/$HV/patch.diff || { echo "$p-$HV: does not apply"; continue; }
  for q in $(fam $p); do
    [ $q = $p ] && continue
    out=$(cd $VW && VERIF_REPO=$SR ./check $q quick 2>&1); rc=$?
    echo "$p-${HVAR:-h} vs $q: exit=$rc $(echo "$out" | grep -E '^VIOLATION|^CHECK-ERROR' | head -2 | tr '\n' ';')"
  done
done
git -C $SR checkout -q -- . ; git -C $SR clean -fdq
