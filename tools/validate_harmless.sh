#!/bin/bash
# Runs the checks against behaviour-preserving refactors ($MUTSRC/Cxx/h/patch.diff, default /tmp/mut2/out):
# each is applied to a scratch worktree of /repo, must build and pass the existing suite, and then
# ./check <prop> quick (from a separate verif worktree, built against the patched scratch tree) is
# expected to exit 0. Records /verif/seeded/harmless/<prop>/{patch.diff,meta.json}.
# HVAR selects the variant directory (default h); with another letter the record goes to <prop>-<letter>.
# usage: tools/validate_harmless.sh <scratch-repo> <verif-worktree> [props...]
set -u
export GOFLAGS=-mod=mod GOPROXY=off GOSUMDB=off GOTOOLCHAIN=local
SR=$1; VW=$2; shift 2
MUTSRC=${MUTSRC:-/tmp/mut2/out}
PROPS="$@"
[ -z "$PROPS" ] && PROPS=$(cd $MUTSRC && ls -d C??/h 2>/dev/null | cut -d/ -f1)
OUT=${HOUT:-/verif/seeded/harmless}
mkdir -p $OUT
for prop in $PROPS; do
  HV=${HVAR:-h}
  src=$MUTSRC/$prop/$HV
  od=$OUT/$prop; [ "$HV" != h ] && od=$OUT/$prop-$HV
  [ -f $src/patch.diff ] || { echo "$prop-$HV: no patch"; continue; }
  git -C $SR checkout -q -- . ; git -C $SR clean -fdq
  if ! git -C $SR apply $src/patch.diff 2>/tmp/harm${TAG:-}_apply.log; then echo "$prop-$HV: patch does not apply"; continue; fi
  (cd $SR && go build ./... >/tmp/harm${TAG:-}_build.log 2>&1); build_rc=$?
  suite_rc=1; attempts=0
  while [ $suite_rc -ne 0 ] && [ $attempts -lt 3 ]; do
    attempts=$((attempts+1))
    (cd $SR && go test -vet=off -count=1 ./... >/tmp/harm${TAG:-}_suite.log 2>&1); suite_rc=$?
  done
  (cd $VW && VERIF_REPO=$SR ./check $prop quick >/tmp/harm${TAG:-}_check.log 2>&1); check_rc=$?
  viol=$(grep '^VIOLATION\|^CHECK-ERROR' /tmp/harm${TAG:-}_check.log | head -3 | tr '\n' ';')
  replay=$(grep -m1 '^VIOLATION' /tmp/harm${TAG:-}_check.log | sed -n 's/.*replay=\([^ ]*\).*/\1/p')
  clause=""
  if [ -n "$replay" ] && [ -f "$replay" ]; then
    clause=$(python3 -c "import json; r=json.load(open('$replay')); print(r.get('kind',''),'::',(r.get('clause') or r.get('theorem') or r.get('correspondence') or '')[:300])")
  fi
  git -C $SR checkout -q -- . ; git -C $SR clean -fdq
  echo "$prop-$HV: build=$build_rc suite=$suite_rc(attempts $attempts) check=$check_rc :: $viol :: $clause"
  mkdir -p $od
  cp $src/patch.diff $od/patch.diff
  python3 - "$od/meta.json" "$prop" "$build_rc" "$suite_rc" "$check_rc" "$clause" "$(git -C $VW rev-parse --short HEAD)" <<'PY'
import json,sys
out,prop,b,s,c,clause,vc=sys.argv[1:8]
json.dump({"id": prop+"-h", "property": prop, "kind": "behaviour-preserving refactor",
  "builds": int(b)==0, "existing_suite_passes": int(s)==0,
  "our_check": {"verif_commit": vc, "command": "./check %s quick (built against the patched scratch tree)" % prop,
                "exit_code": int(c), "alarm": int(c)!=0, "what": clause}}, open(out,"w"), indent=1)
PY
done
