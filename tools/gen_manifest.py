#!/usr/bin/env python3
"""Regenerates /verif/MANIFEST.json from the table below (kept in one place so it stays valid)."""
import json, os, subprocess

VERIF = os.path.dirname(os.path.dirname(os.path.abspath(__file__)))

HOOK_COMMITS = subprocess.run(["git", "-C", "/repo", "log", "--format=%H", "--grep=^verif hooks"],
                              capture_output=True, text=True).stdout.split()

COMMON_NOTE = ("Trusted: Lean 4.33 kernel (axioms propext, Classical.choice, Quot.sound only; audited on every run), "
               "the hand-written model (tied to the Go code only by the correspondence runs of harness/cmd/drive on generated cases), "
               "the translator harness/cmd/extract for regenerated constants/tables, Go runtime/stdlib. ")

# one file per claimed property: tools/claims/Cxx.json with keys text, note, tech, ref
CLAIMED = {}
for _f in sorted(os.listdir(os.path.join(VERIF, "tools", "claims"))):
    if _f.endswith(".json"):
        CLAIMED[_f[:-5]] = json.load(open(os.path.join(VERIF, "tools", "claims", _f)))

PENDING_REASON = "machinery for this property is not built yet in this revision (planned in DESIGN.md section 4); not claimed until its check exists"


def main():
    props = [json.loads(l) for l in open(os.path.join(VERIF, "properties.jsonl"))]
    checks, na = [], []
    for p in props:
        pid = p["id"]
        if pid in CLAIMED:
            c = CLAIMED[pid]
            checks.append({
                "property_id": pid,
                "quick_cmd": "./check %s quick" % pid,
                "thorough_cmd": "./check %s thorough" % pid,
                "evidence_file": "/verif/evidence/%s.json" % pid,
                "replay_cmd_template": "./check %s quick --replay {path}" % pid,
                "engine": "lean-proof+correspondence",
                "level_claimed": {"category": "proof", "text": c["text"], "design_ref": "DESIGN.md section " + c["ref"]},
                "level_note": c["note"],
                "technique": c["tech"],
            })
        else:
            na.append({"property_id": pid, "reason": PENDING_REASON})
    m = {
        "version": 1,
        "setup_cmd": "./setup.sh",
        "hooks": {
            "guard": "verif",
            "enable": "go build -tags verif (the harness is always built with the tag; reassembler.go has yield points, aucoalesce has a read accessor for the built-in normalisation tables)",
            "baseline_off_cmd": "cd /repo && GOFLAGS=-mod=mod GOPROXY=off GOSUMDB=off GOTOOLCHAIN=local go test -vet=off -count=1 ./...",
            "source_commits": HOOK_COMMITS,
            "add_only": True,
        },
        "engines": [{
            "name": "lean-proof+correspondence", "path": "/verif/check",
            "serves_properties": sorted(CLAIMED),
            "kind_free_text": "Lean 4 theorems about hand-written models (lean/LA), regenerated data (harness/cmd/extract -> lean/LA/Gen), differential correspondence + property monitors against the real Go code (harness/cmd/drive)",
        }],
        "checks": checks,
        "notes": "See DESIGN.md. known_findings.json lists open findings (KNOWN-FINDING lines) and fixed ones (fix: commits in /repo).",
        "not_applicable": na,
    }
    json.dump(m, open(os.path.join(VERIF, "MANIFEST.json"), "w"), indent=1)
    print("MANIFEST.json: %d checks, %d not claimed" % (len(checks), len(na)))


if __name__ == "__main__":
    main()
