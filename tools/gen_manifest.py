#!/usr/bin/env python3
"""Regenerates /verif/MANIFEST.json from the table below (kept in one place so it stays valid)."""
import json, os, subprocess

VERIF = os.path.dirname(os.path.dirname(os.path.abspath(__file__)))

HOOK_COMMITS = subprocess.run(["git", "-C", "/repo", "log", "--format=%H", "--grep=^verif hooks"],
                              capture_output=True, text=True).stdout.split()

COMMON_NOTE = ("Trusted: Lean 4.33 kernel (axioms propext, Classical.choice, Quot.sound only; audited on every run), "
               "the hand-written model (tied to the Go code only by the correspondence runs of harness/cmd/drive on generated cases), "
               "the translator harness/cmd/extract for regenerated constants/tables, Go runtime/stdlib. ")

CLAIMED = {
    "C01": dict(
        text="Theorems over Model.Reasm for every configuration, clock and operation list of any length: conservation (delivered ++ buffered is a permutation of the pushed non-EOE messages at every point), exactly-once after Close, single-sequence non-empty groups, groups are subsequences of the push order, records for a buffered sequence join its event. The model is tied to reassembler.go by per-call comparison of callback traces on generated histories (late arrivals, duplicates after eviction, roll-over, EOE, nil pushes, raw pushes, all maxInFlight) and the property monitor runs on the real code's trace.",
        note=COMMON_NOTE + "sort.Sort on <=12 elements is insertion sort (out-of-window histories run only with maxInFlight<=11); pointer identity of messages is modelled by ids.",
        tech="Lean 4 invariant proofs (List.Perm conservation, Sublist order) + differential correspondence of callback traces",
        ref="4 / C01"),
    "C02": dict(
        text="Theorems: inside one 2^24 window the roll-over aware Less is the strict total order of window distance (omega); the buffer is sorted in every reachable in-window state; at every call the delivered events followed by the still-buffered ones are sorted, so an event delivered later with a lower sequence was first pushed later. maxSortRange is regenerated from the source and tied by C02_const. Correspondence and monitor on in-window histories incl. full-width windows whose ends are exactly maxSortRange apart.",
        note=COMMON_NOTE + "The window may differ at every push but the history must satisfy the in-window hypothesis (WinRun).",
        tech="Lean 4 sortedness invariant (Pairwise) under a window hypothesis + differential correspondence",
        ref="4 / C02"),
    "C03": dict(
        text="Theorems: per call the reported count is the accounting of exactly that call's deliveries, reported once after its groups and only when positive; over a run the counts sum to the accounting of all deliveries; the model's accounting equals an independent window-position specification; closed form (total = window distance covered by in-order deliveries - their number); late/duplicate deliveries contribute nothing. Checked against the real code after every call.",
        note=COMMON_NOTE + "Model is of the code after the fix commit (hasLast flag, roll-over aware guard).",
        tech="Lean 4 refinement of the loss accounting to a window-position spec + differential correspondence after every call",
        ref="4 / C03"),
    "C10": dict(
        text="Theorems: after any push/Maintain at most maxInFlight events are buffered (maxInFlight>=0); the head is never evictable (complete, expired or over bound); every event evicted outside Close was evictable when it was the head (complete, or size>maxInFlight, or timeout elapsed); completion happens exactly for a terminating record or an EOE of a buffered sequence.",
        note=COMMON_NOTE + "Correspondence runs with timeout +1h so the first two causes are decided exactly from the trace.",
        tech="Lean 4 induction over CleanUp's recursion + differential correspondence with reconstructed buffer",
        ref="4 / C10"),
    "C19": dict(
        text="Theorems: after a push/Maintain the head's timeout has not elapsed (an expired head goes); an incomplete event evicted within the bound had its timeout elapsed; the deadline is fixed by the first record; Close flushes every event once in buffer order with loss accounting and leaves nothing; after Close, Maintain/Close error and deliver nothing; nil Stream rejected. Real-time histories with sleeps are compared under a clock bracket.",
        note=COMMON_NOTE + "Partial: the several time.Now() reads inside one call are collapsed to one instant; timing-ambiguous real-time traces are discarded (counted in evidence), never alarmed on.",
        tech="Lean 4 step lemmas over the eviction predicate + bracketed real-time differential runs",
        ref="4 / C19"),
}

PENDING_REASON = "machinery for this property is not built yet in this revision (planned in DESIGN.md section 4); not claimed until its check exists"


def main():
    props = [json.loads(l) for l in open(os.path.join(VERIF, "properties.jsonl"))]
    checks, na = [], []
    for p in props:
        pid = p["id"]
        if pid in CLAIMED:
            c = CLAIMED[pid]
            checks.append({
                "property_id": pid,
                "quick_cmd": "./check %s quick" % pid,
                "thorough_cmd": "./check %s thorough" % pid,
                "evidence_file": "/verif/evidence/%s.json" % pid,
                "replay_cmd_template": "./check %s quick --replay {path}" % pid,
                "engine": "lean-proof+correspondence",
                "level_claimed": {"category": "proof", "text": c["text"], "design_ref": "DESIGN.md section " + c["ref"]},
                "level_note": c["note"],
                "technique": c["tech"],
            })
        else:
            na.append({"property_id": pid, "reason": PENDING_REASON})
    m = {
        "version": 1,
        "setup_cmd": "./setup.sh",
        "hooks": {
            "guard": "verif",
            "enable": "go build -tags verif (the harness is always built with the tag; only reassembler.go has yield points)",
            "baseline_off_cmd": "cd /repo && GOFLAGS=-mod=mod GOPROXY=off GOSUMDB=off GOTOOLCHAIN=local go test -vet=off -count=1 ./...",
            "source_commits": HOOK_COMMITS,
            "add_only": True,
        },
        "engines": [{
            "name": "lean-proof+correspondence", "path": "/verif/check",
            "serves_properties": sorted(CLAIMED),
            "kind_free_text": "Lean 4 theorems about hand-written models (lean/LA), regenerated data (harness/cmd/extract -> lean/LA/Gen), differential correspondence + property monitors against the real Go code (harness/cmd/drive)",
        }],
        "checks": checks,
        "notes": "See DESIGN.md. known_findings.json lists open findings (KNOWN-FINDING lines) and fixed ones (fix: commits in /repo).",
        "not_applicable": na,
    }
    json.dump(m, open(os.path.join(VERIF, "MANIFEST.json"), "w"), indent=1)
    print("MANIFEST.json: %d checks, %d not claimed" % (len(checks), len(na)))


if __name__ == "__main__":
    main()
