#!/bin/bash
# usage: tools/try_scratch.sh <patch.diff> <prop> [tier]  — apply to the scratch worktree $SCR (default /tmp/c13h/repo), run
# this tree's check against it (VERIF_REPO), revert. Leaves evidence/ of this tree rewritten: rerun on /repo afterwards.
set -u
SCR=${SCR:-/tmp/c13h/repo}
patch=$1; prop=$2; tier=${3:-quick}
git -C $SCR checkout -q -- . ; git -C $SCR clean -fdq
git -C $SCR apply "$patch" || { echo "patch does not apply"; exit 3; }
VERIF_REPO=$SCR "$(dirname "$0")/../check" "$prop" "$tier" 2>&1 | grep -E "^VIOLATION|^KNOWN|CHECK-ERROR|obligations" | head -5
git -C $SCR checkout -q -- . ; git -C $SCR clean -fdq
