#!/bin/bash
# usage: tools/try_scratch.sh <patch.diff> <prop> [tier]  — apply to the scratch worktree $SCR (default /tmp/c13h/repo), run
# this tree's check against it (VERIF_REPO), revert. The evidence file of the property is put back afterwards.
set -u
SCR=${SCR:-/tmp/c13h/repo}
patch=$1; prop=$2; tier=${3:-quick}
git -C $SCR checkout -q -- . ; git -C $SCR clean -fdq
git -C $SCR apply "$patch" || { echo "patch does not apply"; exit 3; }
V="$(cd "$(dirname "$0")/.." && pwd)"; cp "$V/evidence/$prop.json" "/tmp/try_scratch_$prop.ev" 2>/dev/null
VERIF_REPO=$SCR "$(dirname "$0")/../check" "$prop" "$tier" 2>&1 | grep -E "^VIOLATION|^KNOWN|CHECK-ERROR|obligations" | head -5
git -C $SCR checkout -q -- . ; git -C $SCR clean -fdq
[ -f "/tmp/try_scratch_$prop.ev" ] && mv "/tmp/try_scratch_$prop.ev" "$V/evidence/$prop.json"   # the evidence of the unchanged tree stays
