#!/bin/bash
# Robustness of detection against the PRNG seed: applies each seeded change (seeded/<id>/patch.diff) to a
# scratch worktree and runs ./check <prop> quick under the given seeds. Prints one line per (id, seed).
# usage: tools/seed_matrix.sh <scratch-repo> <verif-worktree> "<seeds>" ids...
set -u
export GOFLAGS=-mod=mod GOPROXY=off GOSUMDB=off GOTOOLCHAIN=local
SR=$1; VW=$2; SEEDS=$3; shift 3
for id in "$@"; do
  prop=${id%-*}
  git -C $SR checkout -q -- . ; git -C $SR clean -fdq
  git -C $SR apply /verif/seeded/$id/patch.diff 2>/dev/null || { echo "$id: patch does not apply"; continue; }
  for s in $SEEDS; do
    out=$(cd $VW && VERIF_SEED=$s VERIF_REPO=$SR ./check $prop quick 2>&1); rc=$?
    echo "$id seed=$s exit=$rc $(echo "$out" | grep -c '^VIOLATION') violations"
  done
done
git -C $SR checkout -q -- . ; git -C $SR clean -fdq
