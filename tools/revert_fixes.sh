#!/bin/bash
# Reverse-applies each "fix:" commit of /repo in a scratch worktree and runs the corresponding check
# (from a separate verif worktree): the original defect must be reported again.
# usage: tools/revert_fixes.sh <scratch-repo> <verif-worktree>
set -u
export GOFLAGS=-mod=mod GOPROXY=off GOSUMDB=off GOTOOLCHAIN=local
SR=$1; VW=$2
OUT=/verif/seeded/reverted-fixes.txt
: > $OUT
while read c prop; do
  git -C $SR checkout -q -- . ; git -C $SR clean -fdq
  subj=$(git -C /repo log -1 --format=%s $c)
  if ! git -C /repo show $c -- . | git -C $SR apply -R 2>/dev/null; then echo "$c $prop: does not reverse-apply cleanly on HEAD: $subj" | tee -a $OUT; continue; fi
  (cd $SR && go build ./... >/dev/null 2>&1) || { echo "$c $prop: reverted tree does not build" | tee -a $OUT; continue; }
  (cd $VW && VERIF_REPO=$SR ./check $prop quick >/tmp/revert_check.log 2>&1); rc=$?
  viol=$(grep -m1 '^VIOLATION' /tmp/revert_check.log)
  replay=$(echo "$viol" | sed -n 's/.*replay=\([^ ]*\).*/\1/p')
  clause=""
  [ -n "$replay" ] && [ -f "$replay" ] && clause=$(python3 -c "import json; r=json.load(open('$replay')); print(r.get('kind',''),'::',(r.get('clause') or r.get('theorem') or '')[:220])")
  echo "$c $prop exit=$rc :: $subj :: $clause" | tee -a $OUT
done <<LIST
cf27e26 C03
5279465 C16
447a924 C08
de8d58d C17
f61de6e C13
0660414 C13
69b7c7c C07
e09485b C07
bd4bcc8 C07
814d68a C07
7866bc7 C07
1772587 C07
ef52a7f C06
b70bd5a C14
3481d56 C14
baadbf1 C14
b58547f C20
d4ed410 C15
93d3672 C09
LIST
git -C $SR checkout -q -- . ; git -C $SR clean -fdq
