#!/bin/bash
# Validates the seeded changes under $MUTSRC/Cxx/{a,b,c,d} (default /tmp/mut/out) in a scratch worktree of /repo and
# records each confirmed one as /verif/seeded/<id>/{patch.diff,demo_test.go,meta.json}.
# For each: (1) demo passes on the clean tree, (2) patch applies and the tree builds,
# (3) the existing suite passes with the patch, (4) the demo fails with the patch,
# (5) ./check <prop> quick run from a separate verif worktree against the patched scratch tree exits 1.
# usage: tools/validate_seeds.sh <scratch-repo> <verif-worktree> [ids...]
set -u
export GOFLAGS=-mod=mod GOPROXY=off GOSUMDB=off GOTOOLCHAIN=local
SR=$1; VW=$2; shift 2
MUTSRC=${MUTSRC:-/tmp/mut/out}
IDS="$@"
[ -z "$IDS" ] && IDS=$(cd $MUTSRC && ls -d C??/[abcd] | tr '/' '-')
OUT=/verif/seeded
mkdir -p $OUT
for id in $IDS; do
  prop=${id%-*}; var=${id#*-}
  src=$MUTSRC/$prop/$var
  [ -f $src/patch.diff ] || { echo "$id: no patch"; continue; }
  demo=$(ls $src/*_test.go 2>/dev/null | head -1)
  [ -n "$demo" ] || { echo "$id: no demo"; continue; }
  pkgname=$(grep -m1 '^package ' $demo | awk '{print $2}')
  case $pkgname in
    libaudit|libaudit_test) dir=. ;;
    auparse|auparse_test) dir=auparse ;;
    rule|rule_test) dir=rule ;;
    flags|flags_test) dir=rule/flags ;;
    aucoalesce|aucoalesce_test) dir=aucoalesce ;;
    *) echo "$id: unknown package $pkgname"; continue ;;
  esac
  tests=$(grep -oE '^func (Test[A-Za-z0-9_]+)' $demo | awk '{print $2}' | paste -sd'|')
  git -C $SR checkout -q -- . ; git -C $SR clean -fdq
  # (1) demo on clean tree
  cp $demo $SR/$dir/zz_demo_test.go
  (cd $SR && go test -vet=off -count=1 -run "^($tests)\$" ./$dir >/tmp/seed${TAG:-}_clean.log 2>&1); clean_rc=$?
  rm -f $SR/$dir/zz_demo_test.go
  # (2) patch applies, builds
  if ! git -C $SR apply $src/patch.diff 2>/tmp/seed${TAG:-}_apply.log; then echo "$id: patch does not apply"; continue; fi
  (cd $SR && go build ./... >/tmp/seed${TAG:-}_build.log 2>&1); build_rc=$?
  # (3) suite with patch (up to 3 attempts: root-package tests talk to the live kernel audit subsystem)
  suite_rc=1; attempts=0
  while [ $suite_rc -ne 0 ] && [ $attempts -lt 3 ]; do
    attempts=$((attempts+1))
    (cd $SR && go test -vet=off -count=1 ./... >/tmp/seed${TAG:-}_suite.log 2>&1); suite_rc=$?
  done
  # (4) demo with patch
  cp $demo $SR/$dir/zz_demo_test.go
  (cd $SR && timeout 600 go test -vet=off -count=1 -run "^($tests)\$" ./$dir >/tmp/seed${TAG:-}_demo.log 2>&1); demo_rc=$?
  rm -f $SR/$dir/zz_demo_test.go
  # (5) our check against the patched scratch tree
  (cd $VW && VERIF_REPO=$SR ./check $prop quick >/tmp/seed${TAG:-}_check.log 2>&1); check_rc=$?
  viol=$(grep -m1 '^VIOLATION' /tmp/seed${TAG:-}_check.log)
  replay=$(echo "$viol" | sed -n 's/.*replay=\([^ ]*\).*/\1/p')
  kind=""; clause=""
  if [ -n "$replay" ] && [ -f "$replay" ]; then
    kind=$(python3 -c "import json,sys; r=json.load(open('$replay')); print(r.get('kind',''))")
    clause=$(python3 -c "import json,sys; r=json.load(open('$replay')); print((r.get('clause') or r.get('theorem') or r.get('correspondence') or '')[:300])")
  fi
  git -C $SR checkout -q -- . ; git -C $SR clean -fdq
  ok=no
  if [ $clean_rc -eq 0 ] && [ $build_rc -eq 0 ] && [ $suite_rc -eq 0 ] && [ $demo_rc -ne 0 ]; then ok=yes; fi
  echo "$id: clean_demo=$clean_rc build=$build_rc suite=$suite_rc(attempts $attempts) demo_with_patch=$demo_rc check=$check_rc confirmed=$ok :: $kind :: $clause"
  if [ $ok = yes ]; then
    mkdir -p $OUT/$id
    cp $src/patch.diff $OUT/$id/patch.diff
    cp $demo $OUT/$id/demo_test.go
    needs=$(python3 - "$src/README.md" <<'PY'
import sys,re
s=open(sys.argv[1]).read()
m=re.search(r'(?is)##\s*what it needs[^\n]*\n(.*?)(\n## |\Z)', s)
print((m.group(1).strip() if m else '')[:1500])
PY
)
    python3 - "$OUT/$id/meta.json" "$prop" "$id" "$dir" "$tests" "$check_rc" "$kind" "$clause" "$attempts" "$needs" "$(git -C $VW rev-parse --short HEAD)" "$(git -C /repo rev-parse --short HEAD)" <<'PY'
import json,sys
out,prop,sid,d,tests,crc,kind,clause,attempts,needs,vc,rc=sys.argv[1:13]
json.dump({
 "id": sid, "property": prop,
 "needs_to_manifest": needs,
 "demo": {"file": "demo_test.go", "package_dir": d, "run": "go test -vet=off -count=1 -run '^(%s)$' ./%s" % (tests, d)},
 "confirmed_by_us": {
   "scratch_worktree_of_repo_commit": rc,
   "demo_passes_without_change": True, "patch_applies_and_builds": True,
   "existing_suite_passes_with_change": True, "suite_attempts": int(attempts),
   "demo_fails_with_change": True},
 "our_check": {"verif_commit": vc, "command": "./check %s quick (built against the patched scratch tree)" % prop, "exit_code": int(crc),
               "detected": int(crc) == 1, "detected_by": kind, "clause": clause},
}, open(out,"w"), indent=1)
PY
  fi
done
