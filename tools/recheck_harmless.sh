#!/bin/bash
# Re-runs the quick check of its own property against every recorded behaviour-preserving refactor
# (seeded/harmless*/<id>/patch.diff): each is applied to a scratch worktree of /repo (build only; the suite was run when
# the refactor was recorded) and ./check <prop> quick, from a separate verif worktree, is expected to exit 0.
# usage: tools/recheck_harmless.sh <scratch-repo> <verif-worktree> [part/of] — e.g. 1/2 takes every second patch
set -u
export GOFLAGS=-mod=mod GOPROXY=off GOSUMDB=off GOTOOLCHAIN=local
SR=$1; VW=$2; PART=${3:-1/1}
k=${PART%/*}; n=${PART#*/}
i=0
for f in /verif/seeded/harmless*/*/patch.diff; do
  i=$((i+1)); [ $((i % n)) -eq $((k % n)) ] || continue
  id=$(basename $(dirname $f)); set=$(basename $(dirname $(dirname $f))); prop=${id:0:3}
  git -C $SR checkout -q -- . ; git -C $SR clean -fdq
  git -C $SR apply $f 2>/dev/null || { echo "$set/$id: patch does not apply"; continue; }
  (cd $SR && go build ./... >/dev/null 2>&1) || { echo "$set/$id: does not build"; continue; }
  out=$(cd $VW && VERIF_REPO=$SR ./check $prop quick 2>&1); rc=$?
  viol=$(echo "$out" | grep -E '^VIOLATION|^CHECK-ERROR' | head -2 | tr '\n' ';')
  replay=$(echo "$out" | grep -m1 '^VIOLATION' | sed -n 's/.*replay=\([^ ]*\).*/\1/p')
  clause=""
  if [ -n "$replay" ] && [ -f "$replay" ]; then
    clause=$(python3 -c "import json; r=json.load(open('$replay')); print(r.get('kind',''),'::',(r.get('clause') or r.get('theorem') or '')[:300])")
  fi
  echo "$set/$id: check=$rc :: $viol :: $clause"
done
git -C $SR checkout -q -- . ; git -C $SR clean -fdq
