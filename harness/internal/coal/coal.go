// Package coal holds what the coalescer family (C09, C15) shares between the drive
// harness and the race-detector binary: building real *auparse.AuditMessage objects from
// structured records, rendering their views for the Lean model, and the canonical
// rendering of *aucoalesce.Event (the same text LA/Drv/Coalesce.lean prints).
package coal

import (
	"encoding/hex"
	"fmt"
	"regexp"
	"sort"
	"strconv"
	"strings"

	"github.com/elastic/go-libaudit/v2/aucoalesce"
	"github.com/elastic/go-libaudit/v2/auparse"
)

// Edit changes the map a message has cached after its first Data() call (the map is handed
// out by reference, so this drives the coalescer with Data() results the parser itself
// would not produce: arbitrary key bytes, missing argc, …). K and V are hex.
type Edit struct {
	K   string `json:"k"`
	V   string `json:"v,omitempty"`
	Del bool   `json:"del,omitempty"`
}

// Rec is one audit record of a case.
type Rec struct {
	Typ    uint16 `json:"typ"`
	Seq    uint32 `json:"seq"`
	Ms     int64  `json:"ms"`
	Body   string `json:"body"`              // text after "audit(sec.ms:seq): "
	NoBody bool   `json:"no_body,omitempty"` // header only: Data() fails for every record type
	Edits  []Edit `json:"edits,omitempty"`
}

func hx(s string) string {
	if len(s) == 0 {
		return "-"
	}
	return hex.EncodeToString([]byte(s))
}

func unhx(s string) string {
	if s == "-" || s == "" {
		return ""
	}
	b, err := hex.DecodeString(s)
	if err != nil {
		panic(err)
	}
	return string(b)
}

// Hx / UnHx are the line protocol's byte-string encoding.
func Hx(s string) string   { return hx(s) }
func UnHx(s string) string { return unhx(s) }

// Build parses the record with the real parser and applies the edits.
func (r Rec) Build() (*auparse.AuditMessage, error) {
	ms := r.Ms
	if ms < 0 {
		ms = 0
	}
	text := fmt.Sprintf("audit(%d.%03d:%d)", ms/1000, ms%1000, r.Seq)
	if !r.NoBody {
		text += ": " + r.Body
	}
	m, err := auparse.Parse(auparse.AuditMessageType(r.Typ), text)
	if err != nil {
		return nil, err
	}
	if len(r.Edits) > 0 {
		d, derr := m.Data()
		if derr == nil && d != nil {
			for _, e := range r.Edits {
				if e.Del {
					delete(d, unhx(e.K))
				} else {
					d[unhx(e.K)] = unhx(e.V)
				}
			}
		}
	}
	return m, nil
}

// BuildAll builds every record of a group.
func BuildAll(recs []Rec) ([]*auparse.AuditMessage, error) {
	out := make([]*auparse.AuditMessage, len(recs))
	for i, r := range recs {
		m, err := r.Build()
		if err != nil {
			return nil, fmt.Errorf("record %d: %w", i, err)
		}
		out[i] = m
	}
	return out, nil
}

func sortedKeys(m map[string]string) []string {
	ks := make([]string, 0, len(m))
	for k := range m {
		ks = append(ks, k)
	}
	sort.Strings(ks)
	return ks
}

// View renders what the message reports (Data()/Tags()) in the line protocol's view syntax.
// It calls Data(), i.e. it fills the message's cache.
func View(m *auparse.AuditMessage) string {
	data, err := m.Data()
	tags, _ := m.Tags()
	var d string
	switch {
	case err != nil:
		d = "!"
	case len(data) == 0:
		d = "_"
	default:
		parts := make([]string, 0, len(data))
		for _, k := range sortedKeys(data) {
			parts = append(parts, hx(k)+":"+hx(data[k]))
		}
		d = strings.Join(parts, ",")
	}
	t := "_"
	if len(tags) > 0 {
		parts := make([]string, len(tags))
		for i, s := range tags {
			parts[i] = hx(s)
		}
		t = strings.Join(parts, ",")
	}
	return fmt.Sprintf("%d/%d/%d/%s/%s", uint16(m.RecordType), m.Sequence, m.Timestamp.UnixMilli(), d, t)
}

func renderMap(m map[string]string) string {
	type kv struct{ k, v string }
	items := make([]kv, 0, len(m))
	for k, v := range m {
		items = append(items, kv{hx(k), hx(v)})
	}
	sort.Slice(items, func(i, j int) bool { return items[i].k < items[j].k })
	parts := make([]string, len(items))
	for i, it := range items {
		parts[i] = it.k + ":" + it.v
	}
	return "[" + strings.Join(parts, ",") + "]"
}

func renderList(l []string) string {
	parts := make([]string, len(l))
	for i, s := range l {
		parts[i] = hx(s)
	}
	return "[" + strings.Join(parts, ",") + "]"
}

var dupRe = regexp.MustCompile(`(?s)^duplicate key \((.*)\) from (\S+) message$`)

// ClassifyWarning maps one Event.Warnings entry to the model's warning class. primaryErr is
// the Data() error of the record newEvent reads (nil if it parsed): newEvent appends that
// very error value.
func ClassifyWarning(w error, primaryErr error) string {
	if primaryErr != nil && w == primaryErr {
		return "dataerr"
	}
	s := w.Error()
	switch {
	case s == "no normalization found for event":
		return "nonorm"
	case strings.HasPrefix(s, "failed to parse SOCKADDR message: "):
		return "parse:sockaddr"
	case strings.HasPrefix(s, "failed to parse PATH message: "):
		return "parse:path"
	case strings.HasPrefix(s, "failed to parse EXECVE message: "):
		return "parse:execve"
	case strings.HasPrefix(s, "failed to parse message: "):
		return "parse:other"
	case s == "failed to add SOCKADDR data because syscall is unknown":
		return "sockaddr-nosyscall"
	case s == "argc key not found in EXECVE message":
		return "noargc"
	case strings.HasPrefix(s, "failed to convert argc='"):
		return "badargc"
	case strings.HasPrefix(s, "failed to find arg "):
		return "noarg:" + hx(strings.TrimPrefix(s, "failed to find arg "))
	case strings.HasPrefix(s, "failed to set file object: "):
		return "fileobj"
	case strings.HasPrefix(s, "failed to set subject primary using keys="):
		return "subjp"
	case strings.HasPrefix(s, "failed to set subject secondary using keys="):
		return "subjs"
	case strings.HasPrefix(s, "failed to set object primary using keys="):
		return "objp"
	case strings.HasPrefix(s, "failed to set object secondary using keys="):
		return "objs"
	case strings.HasPrefix(s, "failed to set how using keys="):
		return "how"
	case strings.HasPrefix(s, "failed to set source IP using keys="):
		return "srcip"
	}
	if m := dupRe.FindStringSubmatch(s); m != nil {
		if t, err := auparse.GetAuditMessageType(m[2]); err == nil {
			return "dup:" + hx(m[1]) + ":" + strconv.Itoa(int(t))
		}
	}
	return "unknown:" + hx(s)
}

// PrimaryErr is the Data() error of the record whose fields newEvent distributes (the
// single record, or the first SYSCALL record of a group), nil if there is none.
func PrimaryErr(msgs []*auparse.AuditMessage) error {
	if n := len(msgs); n > 0 && msgs[n-1] != nil && msgs[n-1].RecordType == auparse.AUDIT_EOE {
		msgs = msgs[:n-1]
	}
	var p *auparse.AuditMessage
	if len(msgs) == 1 {
		p = msgs[0]
	} else {
		for _, m := range msgs {
			if m.RecordType == auparse.AUDIT_SYSCALL {
				p = m
				break
			}
		}
	}
	if p == nil {
		return nil
	}
	_, err := p.Data()
	return err
}

// WarningClasses returns the sorted classes of the event's warnings.
func WarningClasses(ev *aucoalesce.Event, primaryErr error) []string {
	out := make([]string, len(ev.Warnings))
	for i, w := range ev.Warnings {
		out[i] = ClassifyWarning(w, primaryErr)
	}
	sort.Strings(out)
	return out
}

func renderFile(f *aucoalesce.File) string {
	if f == nil {
		return "nil"
	}
	return strings.Join([]string{hx(f.Path), hx(f.Device), hx(f.Inode), hx(f.Mode), hx(f.UID), hx(f.GID),
		hx(f.Owner), hx(f.Group), renderMap(f.SELinux)}, ",")
}

func renderAddr(a *aucoalesce.Address) string {
	if a == nil {
		return "nil"
	}
	return strings.Join([]string{hx(a.Hostname), hx(a.IP), hx(a.Port), hx(a.Path)}, ",")
}

func renderEntity(e aucoalesce.ECSEntityData) string { return hx(e.Name) + "," + hx(e.ID) }

// Flatten is the canonical rendering of every exported field of the event plus the
// warning classes (LA/Drv/Coalesce.lean `renderEvent` prints the same text).
func Flatten(ev *aucoalesce.Event, primaryErr error) string {
	net := 0
	if ev.Net != nil {
		net = int(ev.Net.Direction)
	}
	paths := make([]string, len(ev.Paths))
	for i, p := range ev.Paths {
		paths[i] = renderMap(p)
	}
	parts := []string{
		"ts=" + strconv.FormatInt(ev.Timestamp.UnixMilli(), 10), "seq=" + strconv.FormatUint(uint64(ev.Sequence), 10),
		"cat=" + strconv.Itoa(int(ev.Category)), "typ=" + strconv.Itoa(int(ev.Type)),
		"result=" + hx(ev.Result), "session=" + hx(ev.Session), "tags=" + renderList(ev.Tags),
		"ap=" + hx(ev.Summary.Actor.Primary), "as=" + hx(ev.Summary.Actor.Secondary), "action=" + hx(ev.Summary.Action),
		"ot=" + hx(ev.Summary.Object.Type), "op=" + hx(ev.Summary.Object.Primary), "os=" + hx(ev.Summary.Object.Secondary),
		"how=" + hx(ev.Summary.How),
		"ids=" + renderMap(ev.User.IDs), "names=" + renderMap(ev.User.Names), "selinux=" + renderMap(ev.User.SELinux),
		"pid=" + hx(ev.Process.PID), "ppid=" + hx(ev.Process.PPID), "title=" + hx(ev.Process.Title),
		"pname=" + hx(ev.Process.Name), "exe=" + hx(ev.Process.Exe), "cwd=" + hx(ev.Process.CWD),
		"args=" + renderList(ev.Process.Args),
		"file=" + renderFile(ev.File), "src=" + renderAddr(ev.Source), "dst=" + renderAddr(ev.Dest),
		"net=" + strconv.Itoa(net),
		"data=" + renderMap(ev.Data), "paths=" + strings.Join(paths, "|"),
		"kind=" + hx(ev.ECS.Event.Kind), "ecat=" + renderList(ev.ECS.Event.Category), "etype=" + renderList(ev.ECS.Event.Type),
		"outcome=" + hx(ev.ECS.Event.Outcome),
		"eu=" + renderEntity(ev.ECS.User.ECSEntityData), "ee=" + renderEntity(ev.ECS.User.Effective),
		"et=" + renderEntity(ev.ECS.User.Target), "ec=" + renderEntity(ev.ECS.User.Changes),
		"eg=" + renderEntity(ev.ECS.Group),
		"warn=" + strings.Join(WarningClasses(ev, primaryErr), ","),
	}
	return strings.Join(parts, ";")
}

// RunCoalesce calls the real CoalesceMessages under recover and renders the observation.
func RunCoalesce(msgs []*auparse.AuditMessage) (ev *aucoalesce.Event, obs string) {
	defer func() {
		if r := recover(); r != nil {
			ev, obs = nil, "panic"
		}
	}()
	e, err := aucoalesce.CoalesceMessages(msgs)
	if err != nil {
		cls := "err:unknown:" + hx(err.Error())
		switch err.Error() {
		case "messages is empty":
			cls = "err:empty"
		case "missing syscall message in compound event":
			cls = "err:nosyscall"
		}
		if e != nil {
			cls += "+partial-event"
		}
		return e, cls
	}
	if e == nil {
		return nil, "nil-event-without-error"
	}
	// the primary's Data() has been called by newEvent, so this only reads its cached error
	return e, Flatten(e, PrimaryErr(msgs))
}
