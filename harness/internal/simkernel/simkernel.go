// Package simkernel is a simulated kernel audit endpoint: a
// libaudit.NetlinkSendReceiver that is installed in the exported
// AuditClient.Netlink field. It numbers and records every Send, and answers
// every Receive from a script (the response plans of the requests sent so
// far), reusing ONE receive buffer for every datagram and handing the raw
// bytes to the parser it is given (the library passes its own
// parseNetlinkAuditMessage), exactly as NetlinkClient does.
package simkernel

import (
	"encoding/binary"
	"encoding/hex"
	"fmt"
	"os"
	"runtime"
	"sync"
	"syscall"
	"time"

	libaudit "github.com/elastic/go-libaudit/v2"
)

// Item is one thing a Receive call does.
type Item struct {
	K     string  `json:"k"`               // eintr | eagain | fail | nothing | raw
	Raw   string  `json:"raw,omitempty"`   // hex of the datagram
	Patch *uint32 `json:"patch,omitempty"` // overwrite the header's sequence field with own+Patch
	Errno int32   `json:"errno,omitempty"` // fail: the hard failure is this errno (0: an error that is no errno)
}

// RecvErr is a hard receive failure that carries an errno (ENOBUFS after a receive-buffer overrun, EIO, EBADF, …). It
// unwraps to the errno, so the library sees what it would see from recvfrom; the harness tells it from an errno in an
// acknowledgement by its type.
type RecvErr struct{ Errno syscall.Errno }

func (e *RecvErr) Error() string { return "recvfrom: " + e.Errno.Error() }
func (e *RecvErr) Unwrap() error { return e.Errno }

// Plan is the simulated kernel's reaction to one request.
type Plan struct {
	SendFail bool   `json:"send_fail,omitempty"`
	Items    []Item `json:"items,omitempty"`
}

// Err is every error the simulator produces itself (never a syscall.Errno,
// so that an errno seen by the caller can only come from an ACK payload).
type Err struct{ What string }

func (e *Err) Error() string { return "simkernel: " + e.What }

// Sent is a message as passed to Send, with the sequence number assigned.
type Sent struct {
	Typ, Flags uint16
	Seq        uint32
	HdrLen     uint32 // header fields as the caller left them
	HdrSeq     uint32
	HdrPid     uint32
	Data       []byte
}

// Resolved is a queue entry.
type Resolved struct {
	K     string
	Raw   []byte
	Errno int32
}

// RecvRec records one Receive call.
type RecvRec struct {
	K         string // item kind, or "exhausted"
	Raw       []byte // the datagram (copy)
	ParserErr bool
	NMsgs     int
	Hdr       syscall.NlMsghdr // of the parser's first message
	Data      []byte           // copy of the parser's first message's data, taken immediately
}

// Event is the order of sends and closes.
type Event struct {
	K   string // send | close
	Seq uint32
}

type Sim struct {
	RecvDelay time.Duration // every Receive call takes this long
	WrapErrno bool          // transient failures are reported as errors that wrap the errno (os.SyscallError, %w)
	mu        sync.Mutex
	seq       uint32
	plans     []Plan
	Queue     []Resolved
	buf       []byte
	Sent      []Sent
	Recvs     []RecvRec
	Closes    int
	CloseFail bool
	Events    []Event
	Yield     bool // stress runs: yield inside Send/Close to widen race windows
}

// New creates a simulator whose first sequence number is seq0+1 and whose
// single receive buffer has bufLen bytes.
func New(seq0 uint32, bufLen int, closeFail bool) *Sim {
	return &Sim{seq: seq0, buf: make([]byte, bufLen), CloseFail: closeFail}
}

// SetPlans replaces the reactions to the coming requests.
func (s *Sim) SetPlans(p []Plan) {
	s.mu.Lock()
	s.plans = p
	s.mu.Unlock()
}

func (s *Sim) BufLen() int { return len(s.buf) }

// Enqueue puts unsolicited items on the receive queue (no sequence patching).
func (s *Sim) Enqueue(items []Item) {
	s.mu.Lock()
	for _, it := range items {
		it.Patch = nil
		s.Queue = append(s.Queue, Resolve(it, 0))
	}
	s.mu.Unlock()
}

// Resolve turns a planned item into a queue entry for request sequence own.
func Resolve(it Item, own uint32) Resolved {
	r := Resolved{K: it.K, Errno: it.Errno}
	if it.K == "raw" {
		b, err := hex.DecodeString(it.Raw)
		if err != nil {
			panic(err)
		}
		if it.Patch != nil && len(b) >= 12 {
			binary.LittleEndian.PutUint32(b[8:12], own+*it.Patch)
		}
		r.Raw = b
	}
	return r
}

func (s *Sim) Send(msg syscall.NetlinkMessage) (uint32, error) {
	if s.Yield {
		runtime.Gosched()
	}
	s.mu.Lock()
	defer s.mu.Unlock()
	s.seq++
	q := s.seq
	var plan Plan
	if len(s.plans) > 0 {
		plan, s.plans = s.plans[0], s.plans[1:]
	}
	s.Sent = append(s.Sent, Sent{Typ: msg.Header.Type, Flags: msg.Header.Flags, Seq: q,
		HdrLen: msg.Header.Len, HdrSeq: msg.Header.Seq, HdrPid: msg.Header.Pid, Data: append([]byte(nil), msg.Data...)})
	s.Events = append(s.Events, Event{"send", q})
	for _, it := range plan.Items {
		s.Queue = append(s.Queue, Resolve(it, q))
	}
	if plan.SendFail {
		return q, &Err{"send failed"}
	}
	return q, nil
}

func (s *Sim) Receive(nonBlocking bool, p libaudit.NetlinkParser) ([]syscall.NetlinkMessage, error) {
	if s.RecvDelay > 0 {
		// a receive call that takes its time (a loaded machine, a stopped and continued process)
		time.Sleep(s.RecvDelay)
	}
	s.mu.Lock()
	defer s.mu.Unlock()
	if len(s.Queue) == 0 {
		s.Recvs = append(s.Recvs, RecvRec{K: "exhausted"})
		return nil, &Err{"script exhausted"}
	}
	it := s.Queue[0]
	s.Queue = s.Queue[1:]
	rec := RecvRec{K: it.K}
	defer func() { s.Recvs = append(s.Recvs, rec) }()
	switch it.K {
	case "eintr":
		if s.WrapErrno {
			return nil, os.NewSyscallError("recvfrom", syscall.EINTR)
		}
		return nil, syscall.EINTR
	case "eagain":
		if s.WrapErrno {
			return nil, fmt.Errorf("receive: %w", syscall.EAGAIN)
		}
		return nil, syscall.EAGAIN
	case "fail":
		if it.Errno != 0 {
			if s.WrapErrno {
				return nil, fmt.Errorf("receive: %w", &RecvErr{syscall.Errno(it.Errno)})
			}
			return nil, &RecvErr{syscall.Errno(it.Errno)}
		}
		return nil, &Err{"receive failed"}
	case "nothing":
		return []syscall.NetlinkMessage{}, nil
	case "raw":
		if len(it.Raw) > len(s.buf) {
			panic(fmt.Sprintf("simkernel: datagram of %d bytes exceeds the receive buffer (%d)", len(it.Raw), len(s.buf)))
		}
		n := copy(s.buf, it.Raw)
		rec.Raw = append([]byte(nil), it.Raw...)
		msgs, err := p(s.buf[:n])
		rec.NMsgs = len(msgs)
		if err != nil {
			rec.ParserErr = true
			return nil, &Err{"parser: " + err.Error()}
		}
		if len(msgs) > 0 {
			rec.Hdr = msgs[0].Header
			rec.Data = append([]byte(nil), msgs[0].Data...)
		}
		return msgs, nil
	}
	panic("simkernel: unknown item kind " + it.K)
}

func (s *Sim) Close() error {
	if s.Yield {
		runtime.Gosched()
	}
	s.mu.Lock()
	defer s.mu.Unlock()
	s.Closes++
	s.Events = append(s.Events, Event{"close", 0})
	if s.CloseFail {
		return &Err{"close failed"}
	}
	return nil
}

// Snapshot values read under the lock.
func (s *Sim) Counts() (sent, recvs, closes, queue int) {
	s.mu.Lock()
	defer s.mu.Unlock()
	return len(s.Sent), len(s.Recvs), s.Closes, len(s.Queue)
}
