// Package common holds what every property family of the harness shares: the
// result record handed to ./check, the Lean model driver process, hashing of
// canonical inputs for the distinct/non-trivial count, and small helpers.
package common

import (
	"bufio"
	"encoding/hex"
	"encoding/json"
	"fmt"
	"hash/fnv"
	"io"
	"os"
	"os/exec"
	"sort"
	"strings"
	"sync"
)

// Violation is one failing case: either the property monitor failed on the
// implementation (kind "monitor") or model and implementation disagreed
// (kind "correspondence").
type Violation struct {
	Kind   string      `json:"kind"`
	Clause string      `json:"clause"`
	Input  interface{} `json:"input"`
	Impl   string      `json:"impl"`
	Model  string      `json:"model,omitempty"`
	Note   string      `json:"note,omitempty"`
	Known  string      `json:"known,omitempty"` // id of the known finding that accounts for it
	Case   int         `json:"case_index"`
}

// KnownStatus reports what happened to a known finding's stored witness.
type KnownStatus struct {
	ID         string `json:"id"`
	What       string `json:"what"`
	StillFails bool   `json:"still_fails"`
}

// Result is written as JSON for ./check.
type Result struct {
	Property    string         `json:"property"`
	Tier        string         `json:"tier"`
	Seed        int64          `json:"seed"`
	Evaluations int            `json:"evaluations"`
	Distinct    int            `json:"distinct_nontrivial"`
	Rule        string         `json:"rule"`
	Samples     []interface{}  `json:"samples"`
	Histogram   map[string]int `json:"histogram"`
	Unmodelled  int            `json:"unmodelled"`
	Ambiguous   int            `json:"timing_ambiguous"`
	ModelLines  int            `json:"model_lines_compared"`
	Exhaustive  bool           `json:"exhaustive"`
	Violations  []Violation    `json:"violations"`
	Known       []KnownStatus  `json:"known_findings"`
	Notes       []string       `json:"notes"`
	Assumptions []string       `json:"assumptions"`

	mu       sync.Mutex
	distinct map[uint64]struct{}
}

func NewResult(prop, tier string, seed int64) *Result {
	return &Result{Property: prop, Tier: tier, Seed: seed, Histogram: map[string]int{},
		distinct: map[uint64]struct{}{}, Samples: []interface{}{}, Violations: []Violation{},
		Known: []KnownStatus{}, Notes: []string{}, Assumptions: []string{}}
}

// Count records one evaluated case. canon is the canonical rendering of the
// input; nontrivial says whether it is non-trivial by the family's rule.
func (r *Result) Count(canon string, nontrivial bool) {
	r.mu.Lock()
	defer r.mu.Unlock()
	r.Evaluations++
	if nontrivial {
		h := fnv.New64a()
		io.WriteString(h, canon)
		r.distinct[h.Sum64()] = struct{}{}
	}
}

func (r *Result) Hist(key string) {
	r.mu.Lock()
	r.Histogram[key]++
	r.mu.Unlock()
}

func (r *Result) HistN(key string, n int) {
	r.mu.Lock()
	r.Histogram[key] += n
	r.mu.Unlock()
}

func (r *Result) Sample(s interface{}) {
	r.mu.Lock()
	if len(r.Samples) < 6 {
		r.Samples = append(r.Samples, s)
	}
	r.mu.Unlock()
}

func (r *Result) Note(format string, a ...interface{}) {
	r.mu.Lock()
	r.Notes = append(r.Notes, fmt.Sprintf(format, a...))
	r.mu.Unlock()
}

// Violate records a violation (at most 20 are kept, all are counted).
func (r *Result) Violate(v Violation) {
	r.mu.Lock()
	defer r.mu.Unlock()
	r.Histogram["violations_"+v.Kind]++
	if len(r.Violations) < 20 {
		r.Violations = append(r.Violations, v)
	}
}

func (r *Result) NumViolations() int {
	r.mu.Lock()
	defer r.mu.Unlock()
	return len(r.Violations)
}

func (r *Result) Write(path string) error {
	r.mu.Lock()
	r.Distinct = len(r.distinct)
	r.mu.Unlock()
	b, err := json.MarshalIndent(r, "", " ")
	if err != nil {
		return err
	}
	return os.WriteFile(path, b, 0o644)
}

// Hex encodes a byte string for the line protocol ("-" for empty).
func Hex(b []byte) string {
	if len(b) == 0 {
		return "-"
	}
	return hex.EncodeToString(b)
}

func HexS(s string) string { return Hex([]byte(s)) }

func UnHex(s string) []byte {
	if s == "-" || s == "" {
		return nil
	}
	b, err := hex.DecodeString(s)
	if err != nil {
		panic(err)
	}
	return b
}

// SortedKeys returns the keys of a string map in order.
func SortedKeys[V any](m map[string]V) []string {
	ks := make([]string, 0, len(m))
	for k := range m {
		ks = append(ks, k)
	}
	sort.Strings(ks)
	return ks
}

// Model is a running Lean driver process.
type Model struct {
	cmd *exec.Cmd
	wc  io.WriteCloser
	in  *bufio.Writer
	out *bufio.Reader
	mu  sync.Mutex
}

// DriverPath is the compiled Lean driver.
var DriverPath = "/verif/lean/.lake/build/bin/driver"

func StartModel() (*Model, error) {
	if p := os.Getenv("VERIF_DRIVER"); p != "" {
		DriverPath = p
	}
	cmd := exec.Command(DriverPath)
	stdin, err := cmd.StdinPipe()
	if err != nil {
		return nil, err
	}
	stdout, err := cmd.StdoutPipe()
	if err != nil {
		return nil, err
	}
	cmd.Stderr = os.Stderr
	if err := cmd.Start(); err != nil {
		return nil, err
	}
	return &Model{cmd: cmd, wc: stdin, in: bufio.NewWriterSize(stdin, 1<<16), out: bufio.NewReaderSize(stdout, 1<<16)}, nil
}

// Ask sends request lines and returns one reply per line.
func (m *Model) Ask(lines []string) ([]string, error) {
	m.mu.Lock()
	defer m.mu.Unlock()
	errc := make(chan error, 1)
	go func() {
		for _, l := range lines {
			if strings.ContainsAny(l, "\n\r") {
				errc <- fmt.Errorf("newline in request %q", l)
				return
			}
			if _, err := m.in.WriteString(l); err != nil {
				errc <- err
				return
			}
			m.in.WriteByte('\n')
		}
		errc <- m.in.Flush()
	}()
	replies := make([]string, 0, len(lines))
	for range lines {
		s, err := m.out.ReadString('\n')
		if err != nil {
			return replies, fmt.Errorf("model driver: %w", err)
		}
		replies = append(replies, strings.TrimRight(s, "\n"))
	}
	if err := <-errc; err != nil {
		return replies, err
	}
	return replies, nil
}

func (m *Model) Ask1(line string) (string, error) {
	r, err := m.Ask([]string{line})
	if err != nil {
		return "", err
	}
	return r[0], nil
}

func (m *Model) Close() {
	m.in.Flush()
	m.wc.Close()
	m.cmd.Wait()
}
