// c15alias resolves the ids of audit events against whatever user database the process sees and prints the last event
// as JSON. The C15 check runs it in a private mount namespace in which /etc/passwd and /etc/group have two names for one
// id: what an event resolves to must not depend on which other events were resolved before it.
//
//	c15alias <line> [<line> ...]   each line is one audit log line; every one is parsed, coalesced and resolved in order
package main

import (
	"encoding/json"
	"fmt"
	"os"

	"github.com/elastic/go-libaudit/v2/aucoalesce"
	"github.com/elastic/go-libaudit/v2/auparse"
)

func main() {
	var last *aucoalesce.Event
	for _, line := range os.Args[1:] {
		m, err := auparse.ParseLogLine(line)
		if err != nil {
			fmt.Println("parse:", err)
			os.Exit(2)
		}
		ev, err := aucoalesce.CoalesceMessages([]*auparse.AuditMessage{m})
		if err != nil {
			fmt.Println("coalesce:", err)
			os.Exit(2)
		}
		aucoalesce.ResolveIDs(ev)
		last = ev
	}
	b, _ := json.Marshal(last)
	fmt.Println(string(b))
}
