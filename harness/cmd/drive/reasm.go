package main

// Reassembler family: C01 (exactly once, grouped), C02 (order), C03 (lost
// accounting), C10 (bound, eviction for cause), C19 (timeouts, Close).

import (
	"encoding/json"
	"fmt"
	"math"
	"math/rand"
	"os"
	"runtime"
	"strconv"
	"strings"
	"sync"
	"sync/atomic"
	"time"

	libaudit "github.com/elastic/go-libaudit/v2"
	"github.com/elastic/go-libaudit/v2/auparse"

	"verifharness/internal/common"
)

func init() {
	families["C01"] = func(c *Ctx) error { return reasmFamily(c) }
	families["C02"] = func(c *Ctx) error { return reasmFamily(c) }
	families["C03"] = func(c *Ctx) error { return reasmFamily(c) }
	families["C10"] = func(c *Ctx) error { return reasmFamily(c) }
	families["C19"] = func(c *Ctx) error { return reasmFamily(c) }
}

// ROp is one operation of a reassembler history.
type ROp struct {
	K   string `json:"k"` // push | nil | raw | rawbad | maintain | close | sleep | newnil
	ID  int    `json:"id,omitempty"`
	Seq uint32 `json:"seq,omitempty"`
	Typ uint16 `json:"typ,omitempty"`
	Ms  int    `json:"ms,omitempty"`
	// TS, when not 0, is the time stamp the record carries, in milliseconds since 1970 (the header of a raw record, the
	// Timestamp field of a message). The library is documented to group and order by sequence number only, and the
	// model has no such field: whatever the stamps are, the outcome must be the one the model computes without them.
	TS int64 `json:"ts,omitempty"`
	// re-entrant calls: Nest are made from inside the At-th ReassemblyComplete callback of this operation (or
	// right after it returns, if it makes fewer callbacks); they are complete operations of their own
	Nest []ROp `json:"nest,omitempty"`
	At   int   `json:"at,omitempty"`
}

// flattenOps lists the operations in the order in which their effects on the Reassembler's state take place:
// an operation has finished with the state (Put and CleanUp done, lock released) before its callbacks run, so
// the calls made from inside a callback act on the state after it.
func flattenOps(ops []ROp) []ROp {
	var out []ROp
	for _, op := range ops {
		n := op.Nest
		op.Nest, op.At = nil, 0
		out = append(out, op)
		out = append(out, flattenOps(n)...)
	}
	return out
}

// RCase is a reassembler history with its configuration.
type RCase struct {
	Max       int    `json:"max_in_flight"`
	TimeoutNs int64  `json:"timeout_ns"`
	InWindow  bool   `json:"in_window"`
	Base      uint32 `json:"base"`
	Real      bool   `json:"real_time,omitempty"` // C19: real sleeps, bracketed clock reads
	// Peer: a second Reassembler is alive in the process and used by the same goroutine before every operation of
	// the history and from inside every ReassemblyComplete callback of the history's Reassembler (a consumer that
	// feeds what it gets into the next stage). Objects are independent: the outcome of the history is the one the
	// model computes for it alone, and the peer delivers exactly its own records.
	Peer bool `json:"peer,omitempty"`
	// Recycle: the consumer owns what it has been handed. Once a callback has noted what it was given, it clears the
	// delivered message structs and the slice that held them (a consumer that returns its messages to a free list).
	// What the Reassembler does afterwards must not depend on memory it has given away.
	Recycle bool  `json:"recycle,omitempty"`
	Ops     []ROp `json:"ops"`
}

// peerR is the second Reassembler of a history with Peer set: every step pushes the first records of two new
// events into a window that holds them all (at most 4000): it only ever takes, and gives back when it is closed. It checks its own deliveries.
type peerR struct {
	r      *libaudit.Reassembler
	k      uint32
	pushed map[uint32]*auparse.AuditMessage
	seen   map[uint32]bool
	bad    string
}

func (p *peerR) ReassemblyComplete(msgs []*auparse.AuditMessage) {
	if p.bad != "" {
		return
	}
	if len(msgs) != 1 {
		p.bad = fmt.Sprintf("the second Reassembler delivered a group of %d records; each of its events has one", len(msgs))
		return
	}
	m := msgs[0]
	switch {
	case p.pushed[m.Sequence] != m:
		p.bad = fmt.Sprintf("the second Reassembler delivered a record (sequence %d, type %d) that was not pushed into it", m.Sequence, m.RecordType)
	case p.seen[m.Sequence]:
		p.bad = fmt.Sprintf("the second Reassembler delivered event %d twice", m.Sequence)
	}
	p.seen[m.Sequence] = true
}
func (p *peerR) EventsLost(int) {}

func (p *peerR) step() {
	for i := 0; i < 2 && p.k < 4000; i++ {
		p.k++
		m := &auparse.AuditMessage{RecordType: tSYSCALL, Sequence: 1000000 + p.k}
		p.pushed[m.Sequence] = m
		p.r.PushMessage(m)
	}
}

func (p *peerR) finish() string {
	p.r.Close()
	if p.bad == "" {
		for s := range p.pushed {
			if !p.seen[s] {
				return fmt.Sprintf("the second Reassembler never delivered event %d", s)
			}
		}
	}
	return p.bad
}

func (c RCase) canon() string { b, _ := json.Marshal(c); return string(b) }

const (
	tSYSCALL   = 1300
	tPATH      = 1302
	tCWD       = 1307
	tEXECVE    = 1309
	tEOE       = 1320
	tPROCTITLE = 1327
)

var reasmTypes = []uint16{tSYSCALL, tSYSCALL, tPATH, tPATH, tCWD, tEXECVE, tEOE, tEOE, tPROCTITLE, 1100, 1112, 1200, 1299, 2100, 2500, 0, 65535, 1301, 1326, 1328, 2099, 1400, 1005, 1006, 1099, 1000, 1199, 1250}

// recStream records callbacks.
type recStream struct {
	ids  map[*auparse.AuditMessage]int
	cur  []string
	grps [][]delivered // per op: groups delivered (for monitors)
	lost []int
	// re-entrant calls of the operation in progress
	nest    []ROp
	nestAt  int
	ncb     int
	exec    func(ROp)
	peer    *peerR
	recycle bool
}

type delivered struct {
	id  int
	seq uint32
	typ uint16
}

func (s *recStream) idOf(m *auparse.AuditMessage) int {
	if id, ok := s.ids[m]; ok {
		return id
	}
	if i := strings.Index(m.RawData, "vid="); i >= 0 {
		if n, err := strconv.Atoi(strings.TrimSpace(m.RawData[i+4:])); err == nil {
			return n
		}
	}
	return -1
}

func (s *recStream) ReassemblyComplete(msgs []*auparse.AuditMessage) {
	parts := make([]string, len(msgs))
	g := make([]delivered, len(msgs))
	for i, m := range msgs {
		id := s.idOf(m)
		parts[i] = strconv.Itoa(id)
		g[i] = delivered{id, m.Sequence, uint16(m.RecordType)}
	}
	s.cur = append(s.cur, "g:"+strings.Join(parts, ","))
	s.grps = append(s.grps, g)
	s.ncb++
	if s.recycle {
		for i, m := range msgs {
			delete(s.ids, m)
			*m = auparse.AuditMessage{RecordType: 1320, Sequence: 0xDEAD0000 + uint32(i)}
			msgs[i] = nil
		}
	}
	if s.peer != nil {
		s.peer.step()
	}
	if s.nest != nil && s.ncb-1 == s.nestAt {
		// calls made from inside this callback: each is recorded as an operation of its own
		n := s.nest
		s.nest = nil
		saved := *s
		for _, op := range n {
			s.exec(op)
		}
		s.cur, s.grps, s.lost, s.ncb = saved.cur, saved.grps, saved.lost, saved.ncb
	}
}

func (s *recStream) EventsLost(n int) {
	s.cur = append(s.cur, "lost:"+strconv.Itoa(n))
	s.lost = append(s.lost, n)
}

// opObs is what one operation did on the implementation.
type opObs struct {
	Out    string
	Groups [][]delivered
	Lost   []int
	T0, T1 int64 // bracket (ns since start), real-time cases only
}

func runReasmImpl(c RCase) (obs []opObs, panicMsg string) {
	guardEnter(c)
	defer guardLeave()
	defer func() {
		if r := recover(); r != nil {
			panicMsg = fmt.Sprint(r)
		}
	}()
	st := &recStream{ids: map[*auparse.AuditMessage]int{}, recycle: c.Recycle}
	r, err := libaudit.NewReassembler(c.Max, time.Duration(c.TimeoutNs), st)
	if err != nil {
		return nil, "constructor: " + err.Error()
	}
	if c.Peer && err == nil {
		p := &peerR{pushed: map[uint32]*auparse.AuditMessage{}, seen: map[uint32]bool{}}
		if p.r, err = libaudit.NewReassembler(4096, time.Hour, p); err != nil {
			return nil, "constructor: " + err.Error()
		}
		st.peer = p
		defer func() {
			if bad := p.finish(); bad != "" && panicMsg == "" {
				panicMsg = "objects are independent: " + bad
			}
		}()
	}
	start := time.Now()
	stop := ""
	var exec func(op ROp)
	exec = func(op ROp) {
		if stop != "" {
			return
		}
		if st.peer != nil {
			st.peer.step()
		}
		idx := len(obs)
		obs = append(obs, opObs{})
		st.cur, st.grps, st.lost = nil, nil, nil
		st.nest, st.nestAt, st.ncb = op.Nest, op.At, 0
		var ret error
		hasRet := false
		t0 := int64(time.Since(start))
		switch op.K {
		case "push":
			m := &auparse.AuditMessage{RecordType: auparse.AuditMessageType(op.Typ), Sequence: op.Seq}
			if op.TS != 0 {
				m.Timestamp = time.UnixMilli(op.TS)
			}
			st.ids[m] = op.ID
			r.PushMessage(m)
		case "nil":
			r.PushMessage(nil)
		case "raw":
			buf := []byte(fmt.Sprintf("audit(1500000000.123:%d): vid=%d", op.Seq, op.ID))
			if op.TS > 0 {
				buf = []byte(fmt.Sprintf("audit(%d.%03d:%d): vid=%d", op.TS/1000, op.TS%1000, op.Seq, op.ID))
			}
			ret = r.Push(auparse.AuditMessageType(op.Typ), buf)
			// the caller's buffer belongs to the caller again once Push has returned (receive loops reuse
			// it): what is delivered later must be what was pushed, not what the buffer holds by then
			for i := range buf {
				buf[i] = 'x'
			}
			if ret != nil {
				stop = "valid raw message rejected: " + ret.Error()
				return
			}
		case "rawbad":
			// header corrupted in a way that depends on the id, never parseable
			bad := []string{"audit(1500000000.123:%d: vid=%d", "audit 1500000000.123:%d): vid=%d", "audit(1500000000,123:%d): vid=%d", "audit(1500000000.123:x%d): vid=%d", "audit(1500000000.123 %d): vid=%d"}
			ret = r.Push(auparse.AuditMessageType(op.Typ), []byte(fmt.Sprintf(bad[op.ID%len(bad)], op.Seq, op.ID)))
			hasRet = true
		case "maintain":
			ret = r.Maintain()
			hasRet = true
		case "close":
			ret = r.Close()
			hasRet = true
		case "sleep":
			time.Sleep(time.Duration(op.Ms) * time.Millisecond)
		case "newnil":
			_, e := libaudit.NewReassembler(c.Max, time.Duration(c.TimeoutNs), nil)
			ret, hasRet = e, true
		}
		t1 := int64(time.Since(start))
		out := strings.Join(st.cur, ";")
		if hasRet && ret != nil {
			if out != "" {
				out = "err;" + out
			} else {
				out = "err"
			}
		}
		if out == "" {
			out = "-"
		}
		obs[idx] = opObs{Out: out, Groups: st.grps, Lost: st.lost, T0: t0, T1: t1}
		// calls that no callback made (the operation made too few callbacks): right after it
		left := st.nest
		st.nest = nil
		for _, n := range left {
			exec(n)
		}
	}
	st.exec = exec
	for _, op := range c.Ops {
		exec(op)
	}
	if stop != "" {
		return obs, stop
	}
	return obs, ""
}

// modelLines renders the case for the Lean driver. eager selects which end of
// the clock bracket is used for real-time cases.
func reasmModelLines(c RCase, obs []opObs, eager bool) []string {
	c.Ops = flattenOps(c.Ops)
	lines := []string{fmt.Sprintf("reasm new %d %d", c.Max, c.TimeoutNs)}
	for i, op := range c.Ops {
		var tp, tc int64
		if c.Real && i < len(obs) {
			if eager {
				tp, tc = obs[i].T0, obs[i].T1
			} else {
				tp, tc = obs[i].T1, obs[i].T0
			}
		}
		switch op.K {
		case "push", "raw":
			lines = append(lines, fmt.Sprintf("reasm push %d %d %d %d %d", op.ID, op.Seq, op.Typ, tp, tc))
		case "nil", "sleep":
			lines = append(lines, "reasm nil")
		case "rawbad", "newnil":
			lines = append(lines, "reasm fail")
		case "maintain":
			lines = append(lines, fmt.Sprintf("reasm maintain %d", tc))
		case "close":
			lines = append(lines, "reasm close")
		}
	}
	return lines
}

// ---- generators -------------------------------------------------------------

// genReasmFarJump: two histories on one Reassembler, the second one a long way from the first in the sequence space (half
// of it, a quarter, just beyond the roll-over distance, anywhere). The first ends with Close, which delivers whatever is
// buffered and after which pushes are still accepted: the buffered sequence numbers stay within one window at all
// times, but what was delivered earlier, and the last delivered sequence number, are far from the window now in use.
func genReasmFarJump(rng *rand.Rand, prop string) RCase {
	c := genReasmCase(rng, prop, 25)
	d := genReasmCase(rng, prop, 25)
	jump := []uint32{1 << 31, 1<<31 - 2, 1<<31 + 3, 1 << 30, 3 << 30, 1 << 24, 1<<24 + 1, 1<<24 - 1, 1 << 25, rng.Uint32(), 0xFFFFFFFF - 1<<24 + 1, 0xFFFFFFFF - 1<<24 - 4}[rng.Intn(12)]
	var rebase func(ops []ROp) []ROp
	rebase = func(ops []ROp) []ROp {
		out := make([]ROp, len(ops))
		for i, op := range ops {
			if op.K == "push" || op.K == "raw" || op.K == "rawbad" {
				op.Seq = op.Seq - d.Base + c.Base + jump
				op.ID += 100000
			}
			if len(op.Nest) > 0 {
				op.Nest = rebase(op.Nest)
			}
			out[i] = op
		}
		return out
	}
	c.Ops = append(c.Ops, rebase(d.Ops)...)
	// the history as a whole is not inside one window: the monitors that place sequence numbers relative to the base
	// do not apply; the model (which orders as the library's Less does) decides, and it follows the library's sort for
	// buffers of at most 12 events
	c.InWindow = false
	if c.Max > 11 {
		c.Max = []int{0, 1, 2, 3, 5, 8, 11}[rng.Intn(7)]
	}
	return c
}

func genReasmCase(rng *rand.Rand, prop string, maxOps int) RCase {
	c := RCase{}
	small := []int{0, 1, 2, 3, 5, 8, 11}
	c.InWindow = prop == "C02" || prop == "C03" || rng.Intn(3) > 0
	if c.InWindow && rng.Intn(3) == 0 {
		c.Max = []int{12, 13, 16, 24, 40, 64}[rng.Intn(6)]
	} else {
		c.Max = small[rng.Intn(len(small))]
	}
	switch {
	case prop == "C10":
		c.TimeoutNs = int64(time.Hour)
	case rng.Intn(5) == 0:
		c.TimeoutNs = -int64(time.Hour)
	case rng.Intn(6) == 0:
		// "never": the largest Duration, and values whose sum with the current Unix time in ns overflows int64
		c.TimeoutNs = []int64{math.MaxInt64, math.MaxInt64 - 1, 250 * 365 * 24 * int64(time.Hour), math.MaxInt64 / 2}[rng.Intn(4)]
	default:
		c.TimeoutNs = int64(time.Hour)
	}
	if prop == "C10" && rng.Intn(6) == 0 {
		c.TimeoutNs = []int64{math.MaxInt64, 250 * 365 * 24 * int64(time.Hour)}[rng.Intn(2)]
	}
	n := 1 + rng.Intn(maxOps)
	const W = 1 << 24
	switch rng.Intn(7) {
	case 6:
		// the window straddles 2^31 (the sign boundary of a 32-bit comparison), or 2^16 / 2^24 multiples
		c.Base = []uint32{0x7FFFFFFF, 0x80000000, 0xFFFF, 0x1000000, 0xFFFFFF}[rng.Intn(5)] - uint32(rng.Intn(40))
	case 0:
		c.Base = uint32(0xFFFFFFFF - uint32(rng.Intn(200)))
	case 1:
		c.Base = uint32(rng.Intn(3))
	case 2:
		c.Base = 0xFFFFFFFF - W + 1 + uint32(rng.Intn(100)) // window ends right at the roll-over
	case 3:
		c.Base = 0xFFFFFFFF - W/2
	default:
		c.Base = rng.Uint32()
	}
	// position inside the window
	pos := 0
	if rng.Intn(3) == 0 {
		pos = rng.Intn(50)
	} else {
		pos = rng.Intn(W / 2)
	}
	radius := []int{0, 1, 2, 4, 8, 30, 200}[rng.Intn(7)]
	fullWidth := c.InWindow && rng.Intn(8) == 0
	var recent []uint32
	id := 0
	arb := []uint32{0, 1, 2, 0xFFFFFFFF, 0xFFFFFFFE, W - 1, W, W + 1, 2*W - 1, 0x80000000, 0x7FFFFFFF}
	for i := 0; i < n; i++ {
		x := rng.Intn(100)
		switch {
		case x < 3:
			c.Ops = append(c.Ops, ROp{K: "nil"})
			continue
		case x < 7:
			c.Ops = append(c.Ops, ROp{K: "maintain"})
			continue
		case x < 8:
			// Close in the middle: pushes are still accepted afterwards, and ordering and loss accounting carry on
			c.Ops = append(c.Ops, ROp{K: "close"})
			continue
		}
		id++
		var seq uint32
		typ := reasmTypes[rng.Intn(len(reasmTypes))]
		if rng.Intn(2) == 0 {
			typ = []uint16{tSYSCALL, tPATH, tCWD, tEXECVE}[rng.Intn(4)]
		}
		y := rng.Intn(100)
		switch {
		case y < 35 && len(recent) > 0: // another record (or EOE) of a recent event
			seq = recent[len(recent)-1-rng.Intn(min(len(recent), 6))]
			if rng.Intn(3) == 0 {
				typ = tEOE
			}
		case !c.InWindow && y < 60:
			if rng.Intn(2) == 0 {
				seq = arb[rng.Intn(len(arb))] + uint32(rng.Intn(3)) - 1
			} else {
				seq = rng.Uint32()
			}
		default:
			step := 1
			switch z := rng.Intn(20); {
			case z == 0:
				step = 2 + rng.Intn(5) // gap
			case z == 1:
				step = 0
			case z == 2 && fullWidth:
				step = rng.Intn(W)
			}
			pos += step
			off := pos
			if radius > 0 {
				off += rng.Intn(2*radius+1) - radius
			}
			if fullWidth && rng.Intn(4) == 0 {
				off = rng.Intn(W)
			}
			if fullWidth && rng.Intn(3) == 0 { // the two ends of the window are exactly maxSortRange apart
				off = []int{0, W - 1, 1, W - 2, W / 2}[rng.Intn(5)]
			}
			if rng.Intn(40) == 0 { // restart of the sequence / very late arrival
				off = rng.Intn(pos + 1)
			}
			if off < 0 {
				off = 0
			}
			if off > W-1 {
				off = W - 1
			}
			if pos > W-1 {
				pos = W - 1
			}
			seq = c.Base + uint32(off)
		}
		recent = append(recent, seq)
		k := "push"
		if z := rng.Intn(12); z == 0 {
			k = "raw"
		} else if z == 1 {
			k = "rawbad"
		}
		c.Ops = append(c.Ops, ROp{K: k, ID: id, Seq: seq, Typ: typ})
	}
	c.Ops = append(c.Ops, ROp{K: "close"})
	if rng.Intn(4) == 0 {
		c.Ops = append(c.Ops, ROp{K: []string{"maintain", "close"}[rng.Intn(2)]})
	}
	if prop == "C01" && rng.Intn(4) == 0 {
		// calls made from inside a callback (still one goroutine, still one call history): some later operations
		// are moved into a callback of an earlier one
		for tries := 0; tries < 3 && len(c.Ops) > 3; tries++ {
			i := rng.Intn(len(c.Ops) - 2)
			if c.Ops[i].K == "rawbad" || c.Ops[i].Nest != nil {
				continue
			}
			n := 1 + rng.Intn(4)
			if i+1+n > len(c.Ops)-1 {
				n = len(c.Ops) - 2 - i
			}
			if n <= 0 {
				continue
			}
			nest := append([]ROp{}, c.Ops[i+1:i+1+n]...)
			rest := append([]ROp{}, c.Ops[i+1+n:]...)
			c.Ops = append(c.Ops[:i+1], rest...)
			c.Ops[i].Nest, c.Ops[i].At = nest, rng.Intn(3)
		}
	}
	return c
}

// reentrantBatchCases: a call whose clean-up evicts several events hands them to the stream one by one; from inside
// one of those callbacks further calls are made whose own clean-ups evict several events too. Every message must
// still arrive exactly once (what a call has evicted belongs to that call).
func reentrantBatchCases() []RCase {
	var out []RCase
	for _, at := range []int{0, 1} {
		for _, max := range []int{4, 8} {
			for _, closer := range []string{"eoe", "maintain", "close"} {
				id := 0
				nid := func() int { id++; return id }
				batch := func(base uint32) []ROp {
					// an incomplete head and two complete events behind it, then the head's EOE: three events leave at once
					return []ROp{{K: "push", ID: nid(), Seq: base, Typ: tSYSCALL}, {K: "push", ID: nid(), Seq: base + 1, Typ: 1112},
						{K: "push", ID: nid(), Seq: base + 2, Typ: 1112}, {K: "push", ID: nid(), Seq: base, Typ: tEOE}}
				}
				outer := batch(10)
				inner := batch(20)
				switch closer {
				case "maintain":
					inner = append(inner, ROp{K: "maintain"})
				case "close":
					inner = append(inner, ROp{K: "push", ID: nid(), Seq: 30, Typ: tSYSCALL}, ROp{K: "push", ID: nid(), Seq: 31, Typ: tPATH}, ROp{K: "close"})
				}
				outer[3].Nest, outer[3].At = inner, at
				ops := append(outer, ROp{K: "push", ID: nid(), Seq: 40, Typ: tSYSCALL}, ROp{K: "close"})
				out = append(out, RCase{Max: max, TimeoutNs: int64(time.Hour), InWindow: true, Base: 0, Ops: ops})
			}
		}
	}
	return out
}

// genReasmRealCase builds a C19 history with real sleeps.
func genReasmRealCase(rng *rand.Rand) RCase {
	c := RCase{Real: true, InWindow: true, Base: 1000}
	c.Max = []int{0, 1, 2, 3, 5, 8}[rng.Intn(6)]
	toMs := []int{20, 30, 50}[rng.Intn(3)]
	switch rng.Intn(6) {
	case 0:
		c.TimeoutNs = -int64(time.Hour)
	case 1:
		c.TimeoutNs = 0
	case 2:
		c.TimeoutNs = int64(time.Hour)
	default:
		c.TimeoutNs = int64(toMs) * int64(time.Millisecond)
	}
	n := 3 + rng.Intn(10)
	id := 0
	pos := 0
	if rng.Intn(4) == 0 && c.TimeoutNs > 0 && c.TimeoutNs < int64(time.Hour) && c.Max >= 2 {
		// an older event with the HIGHER number expires while a younger, lower-numbered one is the head: time alone
		// never lets it overtake (it leaves when it is the oldest buffered event, not before)
		c.Ops = append(c.Ops, ROp{K: "push", ID: 800, Seq: c.Base + 301, Typ: tSYSCALL}, ROp{K: "sleep", Ms: toMs * 6 / 10},
			ROp{K: "push", ID: 801, Seq: c.Base + 300, Typ: tSYSCALL}, ROp{K: "sleep", Ms: toMs * 6 / 10}, ROp{K: "maintain"},
			ROp{K: "sleep", Ms: toMs * 6 / 10}, ROp{K: []string{"maintain", "push"}[rng.Intn(2)], ID: 802, Seq: c.Base + 300, Typ: tPATH}, ROp{K: "close"})
		return c
	}
	if rng.Intn(2) == 0 && c.TimeoutNs > 0 && c.TimeoutNs < int64(time.Hour) {
		// a stale multi-record event: later records must not postpone its deadline
		typ := []uint16{tSYSCALL, tPATH, tCWD}
		c.Ops = append(c.Ops, ROp{K: "push", ID: 900, Seq: c.Base, Typ: typ[rng.Intn(3)]})
		if rng.Intn(2) == 0 {
			c.Ops = append(c.Ops, ROp{K: "sleep", Ms: toMs / 2}, ROp{K: "push", ID: 901, Seq: c.Base, Typ: typ[rng.Intn(3)]})
		}
		switch rng.Intn(3) {
		case 0:
			// the first call after the timeout is a push that buffers nothing itself: the EOE of a sequence
			// that is not buffered (never seen, or delivered long ago) — it must flush the stale event all the same
			c.Ops = append(c.Ops, ROp{K: "sleep", Ms: toMs * 5}, ROp{K: "push", ID: 902, Seq: c.Base + 77 + uint32(rng.Intn(3)), Typ: tEOE})
		case 1:
			c.Ops = append(c.Ops, ROp{K: "sleep", Ms: toMs * 5}, ROp{K: "raw", ID: 902, Seq: c.Base + 5, Typ: []uint16{tEOE, tSYSCALL, 1100}[rng.Intn(3)]})
		default:
			c.Ops = append(c.Ops, ROp{K: "sleep", Ms: toMs * 5}, ROp{K: "push", ID: 902, Seq: c.Base, Typ: typ[rng.Intn(3)]})
		}
		if rng.Intn(2) == 0 {
			c.Ops = append(c.Ops, ROp{K: "maintain"})
		}
	}
	for i := 0; i < n; i++ {
		switch x := rng.Intn(10); {
		case x < 2:
			c.Ops = append(c.Ops, ROp{K: "sleep", Ms: toMs * 5})
		case x < 3:
			c.Ops = append(c.Ops, ROp{K: "sleep", Ms: 1 + rng.Intn(3)})
		case x < 5:
			c.Ops = append(c.Ops, ROp{K: "maintain"})
		default:
			id++
			pos += rng.Intn(3)
			typ := []uint16{tSYSCALL, tPATH, tCWD, tEOE, tPROCTITLE}[rng.Intn(5)]
			c.Ops = append(c.Ops, ROp{K: "push", ID: id, Seq: c.Base + uint32(pos), Typ: typ})
		}
	}
	if rng.Intn(3) == 0 {
		c.Ops = append(c.Ops, ROp{K: "newnil"})
	}
	c.Ops = append(c.Ops, ROp{K: "close"}, ROp{K: []string{"maintain", "close", "push"}[rng.Intn(3)], ID: id + 1, Seq: c.Base + uint32(pos) + 1, Typ: tSYSCALL})
	if rng.Intn(2) == 0 {
		c.Ops = append(c.Ops, ROp{K: "maintain"})
	}
	if rng.Intn(2) == 0 && c.TimeoutNs > 0 && c.TimeoutNs < int64(time.Hour) {
		// pushes are still accepted after Close; when the timeout of such a record has elapsed, Maintain and a
		// further Close must still answer with the error and deliver nothing
		c.Ops = append(c.Ops, ROp{K: "push", ID: id + 2, Seq: c.Base + uint32(pos) + 2, Typ: []uint16{tSYSCALL, tPATH}[rng.Intn(2)]},
			ROp{K: "sleep", Ms: toMs * 5}, ROp{K: "maintain"}, ROp{K: []string{"close", "maintain"}[rng.Intn(2)]})
	}
	return c
}

// ---- monitors (the properties, stated on the implementation's observations) --

const seqW = 1 << 24

func winPos(base, s uint32) uint32 { return s - base }

type evTrack struct {
	seq       uint32
	ids       []int
	complete  bool
	firstOp   int
	delivered bool
}

// reasmMonitor evaluates the clauses of C01, C02, C03, C10 and C19 that can be
// decided from pushes and callbacks. It returns the first failed clause.
// reasmSibling holds the first failed clause of a sibling property in the last reasmMonitor call.
var reasmSibling string

func reasmMonitor(c RCase, obs []opObs, prop string) (clause string) {
	c.Ops = flattenOps(c.Ops)
	// The family shares one monitor. Only a failed clause of the property being checked is a
	// monitor violation of that property; failed clauses of sibling properties are remembered in
	// reasmSibling (diagnostics) and otherwise left to that property's own check.
	own := ""
	reasmSibling = ""
	note := func(msg string) {
		if strings.HasPrefix(msg, prop+":") {
			if own == "" {
				own = msg
			}
		} else if reasmSibling == "" {
			reasmSibling = msg
		}
	}
	pushedAt := map[int]int{}     // id -> op index
	seqOf := map[int]uint32{}     // id -> seq
	typOf := map[int]uint16{}     // id -> typ
	deliveredAt := map[int]int{}  // id -> op index
	groupOf := map[int]int{}      // id -> global group number
	open := map[uint32]*evTrack{} // currently buffered events by seq (monitor's reconstruction)
	var order []uint32            // buffered seqs in arrival order of first record
	closedOK := false
	closeAt := -1
	closed := false
	gno := 0
	var hasL bool
	var L uint32
	type dl struct {
		seq     uint32
		op      int
		firstOp int
	}
	var dls []dl
	for i, op := range c.Ops {
		if i >= len(obs) {
			break
		}
		o := obs[i]
		isErr := strings.HasPrefix(o.Out, "err")
		switch op.K {
		case "push", "raw":
			pushedAt[op.ID] = i
			seqOf[op.ID] = op.Seq
			typOf[op.ID] = op.Typ
			if op.Typ == tEOE {
				if e := open[op.Seq]; e != nil {
					e.complete = true
				}
			} else {
				e := open[op.Seq]
				if e == nil {
					e = &evTrack{seq: op.Seq, firstOp: i}
					open[op.Seq] = e
					order = append(order, op.Seq)
				}
				e.ids = append(e.ids, op.ID)
				t := int(op.Typ)
				if t == tPROCTITLE || t <= 1299 || t >= 2100 {
					e.complete = true
				}
			}
		case "rawbad":
			if !isErr {
				note("C01: Push of an unparseable message returned nil")
			}
			if len(o.Groups) > 0 || len(o.Lost) > 0 {
				note("C01: failed Push caused callbacks")
			}
			continue
		case "newnil":
			if !isErr {
				note("C19: NewReassembler accepted a nil Stream")
			}
			continue
		case "maintain":
			if closed != isErr {
				note(fmt.Sprintf("C19: Maintain returned error=%v on closed=%v reassembler", isErr, closed))
			}
			if closed && (len(o.Groups) > 0 || len(o.Lost) > 0) {
				note("C19: Maintain on a closed reassembler delivered something")
			}
		case "close":
			if closed != isErr {
				note(fmt.Sprintf("C19: Close returned error=%v on closed=%v reassembler", isErr, closed))
			}
			if closed && (len(o.Groups) > 0 || len(o.Lost) > 0) {
				note("C19: second Close delivered something")
			}
			if !closed {
				closedOK = true
				closeAt = i
			}
		case "nil", "sleep":
			if o.Out != "-" {
				note("C01: a nil push / no call produced callbacks")
			}
		}
		// deliveries of this op
		callLost := 0
		for _, n := range o.Lost {
			if n <= 0 {
				note(fmt.Sprintf("C03: EventsLost(%d) is not positive", n))
			}
			callLost += n
		}
		if len(o.Lost) > 1 {
			note("C03: EventsLost reported more than once in one call")
		}
		if len(o.Lost) == 1 && !strings.HasSuffix(o.Out, "lost:"+strconv.Itoa(o.Lost[0])) {
			note("C03: EventsLost not reported after the groups of its call")
		}
		specLost := uint64(0)
		for _, g := range o.Groups {
			gno++
			if len(g) == 0 {
				note("C01: empty group delivered")
				return own
			}
			gs := g[0].seq
			e := open[gs]
			for k, d := range g {
				if _, ok := pushedAt[d.id]; !ok || d.id < 0 {
					note(fmt.Sprintf("C01: message id %d delivered but never pushed", d.id))
					return own
				}
				if typOf[d.id] == tEOE {
					note(fmt.Sprintf("C01: EOE message id %d delivered", d.id))
				}
				if _, dup := deliveredAt[d.id]; dup {
					note(fmt.Sprintf("C01: message id %d delivered twice", d.id))
				}
				deliveredAt[d.id] = i
				groupOf[d.id] = gno
				if d.seq != gs || seqOf[d.id] != gs {
					note(fmt.Sprintf("C01: group mixes sequences %d and %d", gs, d.seq))
				}
				if k > 0 && pushedAt[g[k-1].id] >= pushedAt[d.id] {
					note("C01: group not in push order")
				}
			}
			// no split: the group must be exactly the monitor's buffered event
			if e == nil {
				note(fmt.Sprintf("C01: group for sequence %d delivered but no such event is buffered", gs))
				return own
			}
			if len(e.ids) != len(g) {
				note(fmt.Sprintf("C01: event %d split or truncated: buffered ids %v delivered %d", gs, e.ids, len(g)))
				return own
			}
			for k := range g {
				if e.ids[k] != g[k].id {
					note(fmt.Sprintf("C01: event %d delivered ids differ from buffered ids %v", gs, e.ids))
				}
			}
			// C10 / C19: cause of eviction
			if op.K != "close" && !c.Real && c.TimeoutNs >= int64(time.Hour) {
				if !(e.complete || len(open) > c.Max) {
					note(fmt.Sprintf("C10: event %d evicted without cause (incomplete, %d buffered <= max %d, timeout %s not elapsed)", gs, len(open), c.Max, time.Duration(c.TimeoutNs)))
					note(fmt.Sprintf("C19: event %d was delivered on account of time before its timeout (%s) elapsed (incomplete, %d buffered <= max %d)", gs, time.Duration(c.TimeoutNs), len(open), c.Max))
				}
			}
			if op.K != "close" && c.Real && !e.complete && len(open) <= c.Max {
				// only the timeout can justify this eviction: it must have elapsed
				if o.T1 < obs[e.firstOp].T0+c.TimeoutNs {
					note(fmt.Sprintf("C19: event %d delivered on account of time before its timeout elapsed", gs))
				}
			}
			// C02 bookkeeping
			dls = append(dls, dl{gs, i, e.firstOp})
			// C03 spec
			if c.InWindow {
				if !hasL {
					hasL, L = true, gs
				} else if winPos(c.Base, gs) > winPos(c.Base, L) {
					specLost += uint64(gs - L - 1)
					L = gs
				}
			}
			delete(open, gs)
			for k, s := range order {
				if s == gs {
					order = append(order[:k], order[k+1:]...)
					break
				}
			}
		}
		if c.InWindow && uint64(callLost) != specLost {
			if op.K == "close" {
				note(fmt.Sprintf("C19: Close reported lost=%d, the sequence numbers skipped between the events it flushed (after the last delivery before it)=%d", callLost, specLost))
			}
			note(fmt.Sprintf("C03: call %d reported lost=%d, skipped sequence numbers between its in-order deliveries=%d", i, callLost, specLost))
		}
		if op.K == "close" && !isErr {
			closed = true
			if len(open) != 0 {
				note(fmt.Sprintf("C19: Close left %d events buffered", len(open)))
			}
		}
		// C10: bound and head not complete after a push
		if op.K == "push" || op.K == "raw" {
			if len(open) > c.Max && c.Max >= 0 {
				note(fmt.Sprintf("C10: %d events buffered after PushMessage, maxInFlight=%d", len(open), c.Max))
			}
			if c.InWindow && len(open) > 0 {
				var head *evTrack
				for _, e := range open {
					if head == nil || winPos(c.Base, e.seq) < winPos(c.Base, head.seq) {
						head = e
					}
				}
				if head.complete {
					note(fmt.Sprintf("C10: oldest buffered event %d is complete but was not delivered", head.seq))
				}
			}
		}
		// C19 (real time): the oldest buffered event must not be one whose timeout certainly elapsed before this call
		if c.Real && (op.K == "push" || op.K == "raw" || (op.K == "maintain" && !isErr)) && len(open) > 0 {
			var head *evTrack
			for _, e := range open {
				if head == nil || winPos(c.Base, e.seq) < winPos(c.Base, head.seq) {
					head = e
				}
			}
			if o.T0 > obs[head.firstOp].T1+c.TimeoutNs {
				note(fmt.Sprintf("C19: event %d is the oldest buffered event and its timeout elapsed, but this %s did not deliver it", head.seq, op.K))
			}
		}
		// C19: with an always-elapsed timeout nothing may stay buffered after push/maintain
		if !c.Real && c.TimeoutNs < 0 && (op.K == "push" || op.K == "raw" || (op.K == "maintain" && !isErr)) && len(open) > 0 {
			note(fmt.Sprintf("C19: %d events still buffered although their timeout elapsed", len(open)))
		}
	}
	// C01 final: everything pushed (non-EOE) delivered exactly once, if the history closed
	if closedOK {
		for id, at := range pushedAt {
			if typOf[id] == tEOE {
				continue
			}
			// pushes after the successful close are flushed only by later calls; only require those before
			if _, ok := deliveredAt[id]; !ok && at < closeAt {
				note(fmt.Sprintf("C01: message id %d was pushed before the successful Close but was never delivered", id))
			}
			if _, ok := deliveredAt[id]; !ok {
				if len(open) == 0 {
					note(fmt.Sprintf("C01: message id %d never delivered", id))
				}
				if e := open[seqOf[id]]; e == nil {
					note(fmt.Sprintf("C01: message id %d lost", id))
				}
			}
		}
	}
	// C02: order
	if c.InWindow {
		for j := 1; j < len(dls); j++ {
			for i := 0; i < j; i++ {
				a, b := dls[i], dls[j]
				if winPos(c.Base, a.seq) < winPos(c.Base, b.seq) {
					continue
				}
				if b.firstOp > a.op {
					continue // late arrival
				}
				note(fmt.Sprintf("C02: event %d delivered after event %d although its first record was pushed (op %d) before that delivery (op %d)", b.seq, a.seq, b.firstOp, a.op))
			}
		}
	}
	return own
}

// reasmNontrivial: the history has an overflow eviction, a late arrival, a
// duplicate after eviction, or an EOE for a buffered event.
func reasmNontrivial(c RCase, obs []opObs) (bool, []string) {
	c.Ops = flattenOps(c.Ops)
	var tags []string
	seen := map[uint32]bool{}
	deliveredSeq := map[uint32]bool{}
	var maxDelivered uint32
	hasDel := false
	open := map[uint32]bool{}
	for i, op := range c.Ops {
		if i >= len(obs) {
			break
		}
		if op.K == "push" || op.K == "raw" {
			if op.Typ == tEOE && open[op.Seq] {
				tags = append(tags, "eoe_for_buffered")
			}
			if op.Typ != tEOE {
				if deliveredSeq[op.Seq] && !open[op.Seq] {
					tags = append(tags, "duplicate_after_eviction")
				} else if hasDel && !open[op.Seq] && winPos(c.Base, op.Seq) < winPos(c.Base, maxDelivered) {
					tags = append(tags, "late_arrival")
				}
				open[op.Seq] = true
				seen[op.Seq] = true
			}
		}
		for _, g := range obs[i].Groups {
			if len(g) == 0 {
				continue
			}
			s := g[0].seq
			if len(open) > c.Max && op.K != "close" {
				tags = append(tags, "overflow_eviction")
			}
			delete(open, s)
			deliveredSeq[s] = true
			if !hasDel || winPos(c.Base, s) > winPos(c.Base, maxDelivered) {
				maxDelivered, hasDel = s, true
			}
		}
		if len(obs[i].Lost) > 0 {
			tags = append(tags, "lost_reported")
		}
	}
	if c.Base > 0xFFFFFFFF-seqW {
		for s := range seen {
			if s < c.Base {
				tags = append(tags, "rollover")
				break
			}
		}
	}
	uniq := map[string]bool{}
	var out []string
	for _, t := range tags {
		if !uniq[t] {
			uniq[t] = true
			out = append(out, t)
		}
	}
	return len(out) > 0, out
}

// ---- running a case --------------------------------------------------------------

// runReasmCase executes one case on implementation and model and records the outcome.
// It returns the violation found, if any.
// earlyStream notes how long after t0 a callback was made.
type earlyStream struct {
	t0 time.Time
	el []time.Duration
}

func (s *earlyStream) ReassemblyComplete(msgs []*auparse.AuditMessage) {
	s.el = append(s.el, time.Since(s.t0))
}
func (s *earlyStream) EventsLost(int) {}

// earlyProbe: "never delivered on account of time before that". A lone record that never completes is pushed into a
// fresh Reassembler with timeout T (t0 is read before the push, so the event's deadline is not before t0+T); the
// goroutine then spins until lead before t0+T and calls Maintain. A callback made at a moment when less than T has
// passed since t0 is a delivery on account of time before the timeout had elapsed: the decision to deliver was taken
// before the callback, the deadline is not before t0+T. Nothing here depends on how long the calls take: a late probe
// is inconclusive, never wrong. Returns the number of early deliveries and the smallest elapsed time seen in one.
func earlyProbe(T, lead time.Duration, trials int) (early int, least time.Duration, conclusive int) {
	for k := 0; k < trials; k++ {
		st := &earlyStream{}
		r, err := libaudit.NewReassembler(5, T, st)
		if err != nil {
			return 0, 0, 0
		}
		m := &auparse.AuditMessage{RecordType: tSYSCALL, Sequence: uint32(100 + k)}
		st.t0 = time.Now()
		r.PushMessage(m)
		for time.Since(st.t0) < T-lead {
		}
		if time.Since(st.t0) < T {
			conclusive++
		}
		r.Maintain()
		for _, el := range st.el {
			if el < T {
				if early == 0 || el < least {
					least = el
				}
				early++
				break
			}
		}
		st.t0 = time.Now().Add(-time.Hour) // what Close flushes is not early
		r.Close()
	}
	return
}

// longLived drives one Reassembler through n events (in groups of 8 and 7 that are evicted by one call each), then
// closes it. Every event must come out exactly once, alone, in ascending consecutive order, and no loss may be
// reported. Returns the first deviation ("" = none).
type longStream struct {
	next uint32
	bad  string
}

func (s *longStream) ReassemblyComplete(msgs []*auparse.AuditMessage) {
	if s.bad != "" {
		return
	}
	if len(msgs) != 1 || msgs[0].Sequence != s.next {
		got := uint32(0)
		if len(msgs) > 0 {
			got = msgs[0].Sequence
		}
		s.bad = fmt.Sprintf("after %d events had been delivered in order, the next callback carried %d records, the first with sequence %d (expected event %d alone)", s.next-1, len(msgs), got, s.next)
		return
	}
	s.next++
}
func (s *longStream) EventsLost(n int) {
	if s.bad == "" {
		s.bad = fmt.Sprintf("EventsLost(%d) on a stream without gaps, after %d events", n, s.next-1)
	}
}

func longLived(n int) string {
	st := &longStream{next: 1}
	r, err := libaudit.NewReassembler(32, time.Hour, st)
	if err != nil {
		return ""
	}
	// groups of 8 and 7 events in turn: the first records of a group arrive in order, then their EOEs in reverse
	// order, so that the last of them (the EOE of the oldest buffered event) evicts the whole group in one call
	seq := uint32(0)
	for g := 0; int(seq)+8 <= n && st.bad == ""; g++ {
		size := uint32(8 - g%2)
		lo := seq + 1
		for k := uint32(0); k < size; k++ {
			seq++
			r.PushMessage(&auparse.AuditMessage{RecordType: tSYSCALL, Sequence: seq})
		}
		for s := seq; s >= lo; s-- {
			r.PushMessage(&auparse.AuditMessage{RecordType: tEOE, Sequence: s})
		}
	}
	r.Close()
	if st.bad == "" && st.next-1 != seq {
		return fmt.Sprintf("%d events pushed, %d delivered by the time Close had returned", seq, st.next-1)
	}
	return st.bad
}

// parallelFirstRecords: the first records of one new event arrive from several goroutines at the same instant (a
// multi-threaded receiver). Eight goroutines wait at a spin barrier and then each push one record of the same, not yet
// buffered sequence number; the EOE follows once all have returned. The event must come out once, with all eight
// records. Returns the first deviation ("" = none).
type parStream struct {
	mu   sync.Mutex
	got  map[uint32][]int
	more string
}

func (s *parStream) ReassemblyComplete(msgs []*auparse.AuditMessage) {
	s.mu.Lock()
	defer s.mu.Unlock()
	if len(msgs) == 0 {
		return
	}
	seq := msgs[0].Sequence
	if _, dup := s.got[seq]; dup && s.more == "" {
		s.more = fmt.Sprintf("event %d was delivered in more than one callback", seq)
	}
	s.got[seq] = append(s.got[seq], len(msgs))
}
func (s *parStream) EventsLost(int) {}

func parallelFirstRecords(rounds int) string {
	const G = 8
	st := &parStream{got: map[uint32][]int{}}
	r, err := libaudit.NewReassembler(64, time.Hour, st)
	if err != nil {
		return ""
	}
	defer r.Close()
	for round := 0; round < rounds; round++ {
		seq := uint32(5000 + round)
		var ready, done sync.WaitGroup
		var gate int32
		ready.Add(G)
		done.Add(G)
		for g := 0; g < G; g++ {
			go func(g int) {
				defer done.Done()
				m := &auparse.AuditMessage{RecordType: []auparse.AuditMessageType{tSYSCALL, tPATH, tCWD, tEXECVE}[g%4], Sequence: seq}
				ready.Done()
				for i := 0; atomic.LoadInt32(&gate) == 0; i++ {
					if i > 5000 {
						runtime.Gosched() // a loaded machine: do not hold a processor the releasing goroutine may need
					}
				}
				r.PushMessage(m)
			}(g)
		}
		ready.Wait()
		atomic.StoreInt32(&gate, 1)
		done.Wait()
		r.PushMessage(&auparse.AuditMessage{RecordType: tEOE, Sequence: seq})
		st.mu.Lock()
		sizes, more := st.got[seq], st.more
		st.mu.Unlock()
		if more != "" {
			return more
		}
		if len(sizes) != 1 || sizes[0] != G {
			return fmt.Sprintf("round %d: %d goroutines each pushed one record of the new event %d at the same instant, then its EOE arrived: the callbacks for it carried %v records", round+1, G, seq, sizes)
		}
	}
	return ""
}

// wideClose buffers n events that never complete in a window of max (timeout 1h) and closes: Close delivers every one of
// them, once, in ascending order. Returns the first deviation ("" = none).
func wideClose(max, n int) string {
	st := &longStream{next: 1}
	r, err := libaudit.NewReassembler(max, time.Hour, st)
	if err != nil {
		return ""
	}
	for i := 1; i <= n; i++ {
		r.PushMessage(&auparse.AuditMessage{RecordType: tSYSCALL, Sequence: uint32(i)})
	}
	if st.next != 1 || st.bad != "" {
		return fmt.Sprintf("before Close: %d events delivered although none was complete, none timed out and %d <= maxInFlight %d were buffered (%s)", st.next-1, n, max, st.bad)
	}
	r.Close()
	if st.bad != "" {
		return "Close: " + st.bad
	}
	if int(st.next-1) != n {
		return fmt.Sprintf("%d events were buffered when Close was called; Close delivered %d of them, and a closed Reassembler delivers nothing later", n, st.next-1)
	}
	return ""
}

// wideWindow fills a window of max with n events that never complete (timeout 1h) and reports at which event the first
// delivery before Close happened (0 = none).
func wideWindow(max, n int) (evictedAt int) {
	st := &earlyStream{t0: time.Now()}
	r, err := libaudit.NewReassembler(max, time.Hour, st)
	if err != nil {
		return 0
	}
	defer r.Close()
	for i := 0; i < n; i++ {
		r.PushMessage(&auparse.AuditMessage{RecordType: tSYSCALL, Sequence: uint32(1000 + i)})
		if len(st.el) > 0 {
			return i + 1
		}
	}
	return 0
}

// reasmStampRng, when set, gives every second history time stamps (see ROp.TS) before it is run.
var reasmStampRng *rand.Rand

// stampCase gives the records of a history time stamps in one of several patterns: the same everywhere, growing with
// the order of arrival, falling with the sequence number (an older stamp on the higher number), different within one
// sequence, far in the past, or in the future (a clock that was stepped back).
func stampCase(rng *rand.Rand, c RCase) RCase {
	const y2017, y2100 = int64(1500000000123), int64(4102444800000)
	now := time.Now().UnixMilli()
	mode := rng.Intn(7)
	var stamp func(ops []ROp) []ROp
	n := int64(0)
	stamp = func(ops []ROp) []ROp {
		out := make([]ROp, len(ops))
		for i, op := range ops {
			if op.K == "push" || op.K == "raw" {
				n++
				switch mode {
				case 0:
					op.TS = y2017
				case 1: // by arrival
					op.TS = now - 100000 + n*7
				case 2: // older stamp on the higher sequence number
					op.TS = y2017 + 1000000 - int64(op.Seq%100000)*10
				case 3: // differs within one sequence
					op.TS = y2017 + n*1000 + int64(rng.Intn(3))
				case 4: // future: a minute, an hour, decades ahead
					op.TS = []int64{now + 60000, now + 3600000, y2100, now + 500}[rng.Intn(4)]
				case 5: // a mixture
					op.TS = []int64{1, y2017, now - 5000, now, now + 3600000, y2100, y2017 + int64(rng.Intn(1000000))}[rng.Intn(7)]
				case 6: // only some records stamped
					if rng.Intn(2) == 0 {
						op.TS = []int64{y2017, now + 3600000, now - 3600000}[rng.Intn(3)]
					}
				}
			}
			if len(op.Nest) > 0 {
				op.Nest = stamp(op.Nest)
			}
			out[i] = op
		}
		return out
	}
	c.Ops = stamp(c.Ops)
	return c
}

func runReasmCase(ctx *Ctx, m *common.Model, c RCase, idx int) *common.Violation {
	if reasmStampRng != nil && reasmStampRng.Intn(2) == 0 {
		c = stampCase(reasmStampRng, c)
		ctx.Res.Hist("time stamps varied")
	}
	if reasmStampRng != nil && reasmStampRng.Intn(3) == 0 {
		c.Recycle = true
		ctx.Res.Hist("consumer recycles what it was handed")
	}
	if reasmStampRng != nil && !c.Real && len(c.Ops) < 2000 && reasmStampRng.Intn(3) == 0 {
		c.Peer = true
		ctx.Res.Hist("a second Reassembler in use")
	}
	obs, pmsg := runReasmImpl(c)
	impl := make([]string, len(obs))
	for i := range obs {
		impl[i] = obs[i].Out
	}
	nt, tags := reasmNontrivial(c, obs)
	ctx.Res.Count(c.canon(), nt)
	for _, t := range tags {
		ctx.Res.Hist(t)
	}
	ctx.Res.Hist(fmt.Sprintf("max_in_flight=%d", c.Max))
	ctx.Res.HistN("ops", len(c.Ops))
	if c.InWindow {
		ctx.Res.Hist("in_window")
	} else {
		ctx.Res.Hist("arbitrary_sequences")
	}
	if strings.HasPrefix(pmsg, "objects are independent") {
		return &common.Violation{Kind: "monitor", Clause: ctx.Prop + ", with a second Reassembler in use by the same goroutine: " + pmsg, Input: c, Impl: strings.Join(impl, " | "), Case: idx}
	}
	if pmsg != "" {
		return &common.Violation{Kind: "monitor", Clause: "panic or constructor failure: " + pmsg, Input: c, Impl: strings.Join(impl, " | "), Case: idx}
	}
	if cl := reasmMonitor(c, obs, ctx.Prop); cl != "" {
		return &common.Violation{Kind: "monitor", Clause: cl, Input: c, Impl: strings.Join(impl, " | "), Case: idx}
	}
	sibling := reasmSibling
	// correspondence
	if !c.InWindow && (c.Max > 11 || strconv.IntSize == 32) {
		// as a 32-bit program (the second pass) histories outside one window are monitored only: EventsLost takes an
		// int, and a loss count of 2^31 or more, which only such histories produce, is not reported there
		ctx.Res.Unmodelled++
		return nil
	}
	rep, err := m.Ask(reasmModelLines(c, obs, true))
	if err != nil {
		return &common.Violation{Kind: "correspondence", Clause: "model driver failed: " + err.Error(), Input: c, Case: idx}
	}
	rep = rep[1:]
	if c.Real {
		rep2, err := m.Ask(reasmModelLines(c, obs, false))
		if err != nil {
			return &common.Violation{Kind: "correspondence", Clause: "model driver failed: " + err.Error(), Input: c, Case: idx}
		}
		if strings.Join(rep, "|") != strings.Join(rep2[1:], "|") {
			ctx.Res.Ambiguous++
			return nil
		}
	}
	ctx.Res.ModelLines += len(rep)
	for i := range rep {
		if rep[i] != impl[i] {
			return &common.Violation{Kind: "correspondence", Clause: fmt.Sprintf("Model.Reasm.step disagrees with the Reassembler at op %d (%s)", i, flattenOps(c.Ops)[i].K),
				Input: c, Impl: strings.Join(impl, " | "), Model: strings.Join(rep, " | "), Case: idx, Note: siblingNote(sibling)}
		}
	}
	return nil
}

func siblingNote(s string) string {
	if s == "" {
		return ""
	}
	return "on this history a clause of a sibling property fails: " + s
}

// shrinkReasm removes operations while the case still fails the same way.
func shrinkReasm(ctx *Ctx, m *common.Model, c RCase, kind string) RCase {
	fails := func(x RCase) bool {
		obs, p := runReasmImpl(x)
		if kind == "monitor" {
			return p != "" || reasmMonitor(x, obs, ctx.Prop) != ""
		}
		if p != "" {
			return false
		}
		rep, err := m.Ask(reasmModelLines(x, obs, true))
		if err != nil {
			return false
		}
		for i := range obs {
			if rep[i+1] != obs[i].Out {
				return true
			}
		}
		return false
	}
	if c.Real {
		return c
	}
	// delta debugging with a time budget: chunks of half the history, a quarter, ... down to single operations (a
	// history of thousands of operations is not re-run once per operation)
	deadline := time.Now().Add(20 * time.Second)
	for chunk := (len(c.Ops) + 1) / 2; chunk >= 1; chunk /= 2 {
		for changed := true; changed && time.Now().Before(deadline); {
			changed = false
			for i := 0; i+chunk <= len(c.Ops) && time.Now().Before(deadline); {
				x := c
				x.Ops = append(append([]ROp{}, c.Ops[:i]...), c.Ops[i+chunk:]...)
				if fails(x) {
					c = x
					changed = true
				} else {
					i += chunk
				}
			}
		}
		if chunk == 1 {
			break
		}
	}
	return c
}

func reasmFamily(ctx *Ctx) error {
	m, err := common.StartModel()
	if err != nil {
		return err
	}
	defer m.Close()
	res := ctx.Res
	res.Rule = "histories of Push/PushMessage/Maintain/Close generated around a moving base inside one 2^24 window (or arbitrary uint32 sequences, maxInFlight<=11); each is run on the real Reassembler and on Model.Reasm.step and the per-call callback traces compared; the property monitor is evaluated on the implementation's trace. Non-trivial = the history has an overflow eviction, a late arrival, a duplicate after eviction, an EOE for a buffered event, a reported loss or crosses the roll-over; distinct by hash of the canonical history."
	res.Assumptions = append(res.Assumptions,
		"sort.Sort on <=12 elements is insertion sort (out-of-window histories only run with maxInFlight<=11)",
		"the time.Now() reads inside one call are collapsed to one instant per call; timeouts +1h/-1h make the comparison clock-independent; C19 real-time histories use a clock bracket and discard ambiguous traces")

	if ctx.Replay != "" {
		b, err := os.ReadFile(ctx.Replay)
		if err != nil {
			return err
		}
		var rps struct {
			Input struct {
				Kind   string    `json:"kind"`
				Stress StressCfg `json:"stress"`
			} `json:"input"`
		}
		var rw struct {
			Input struct {
				Kind   string `json:"kind"`
				Max    int    `json:"max_in_flight"`
				Events int    `json:"events"`
			} `json:"input"`
		}
		if json.Unmarshal(b, &rw) == nil && rw.Input.Kind == "parallel-first-records" {
			fmt.Printf("first records of a new event from 8 goroutines at the same instant, 3000 rounds: %q (empty = each event delivered once with all its records)\n", parallelFirstRecords(3000))
			return nil
		}
		if json.Unmarshal(b, &rw) == nil && rw.Input.Kind == "long-lived" {
			fmt.Printf("%d consecutive events through one Reassembler: %q (empty = every event delivered once, alone, in order, no loss reported)\n", rw.Input.Events, longLived(rw.Input.Events))
			return nil
		}
		if json.Unmarshal(b, &rw) == nil && rw.Input.Kind == "wide-close" {
			fmt.Printf("%d events that never complete in a window of %d, then Close: %q (empty = Close delivered them all, once, in order)\n", rw.Input.Events, rw.Input.Max, wideClose(rw.Input.Max, rw.Input.Events))
			return nil
		}
		if json.Unmarshal(b, &rw) == nil && rw.Input.Kind == "wide-window" {
			at := wideWindow(rw.Input.Max, rw.Input.Events)
			fmt.Printf("maxInFlight %d, %d events pushed, none complete, timeout 1h: first delivery before Close when event number %d arrived (0 = none)\n", rw.Input.Max, rw.Input.Events, at)
			return nil
		}
		var rpe struct {
			Input struct {
				Kind    string `json:"kind"`
				Timeout int64  `json:"timeout_ns"`
				Lead    int64  `json:"lead_ns"`
				Trials  int    `json:"trials"`
			} `json:"input"`
		}
		if json.Unmarshal(b, &rpe) == nil && rpe.Input.Kind == "early" {
			early, least, conclusive := earlyProbe(time.Duration(rpe.Input.Timeout), time.Duration(rpe.Input.Lead), rpe.Input.Trials)
			fmt.Printf("timeout %v, Maintain called %v before it: %d of %d trials delivered before the timeout had elapsed (earliest: %v after a moment preceding the arrival); %d trials probed in time\n",
				time.Duration(rpe.Input.Timeout), time.Duration(rpe.Input.Lead), early, rpe.Input.Trials, least, conclusive)
			return nil
		}
		if json.Unmarshal(b, &rps) == nil && rps.Input.Kind == "stress" {
			// uncontrolled parallel rounds: the same configuration again (the schedule is the machine's)
			sr := concStress(rps.Input.Stress)
			fmt.Printf("parallel rounds: %d, calls: %d, deliveries: %d\nviolations: %q\n", sr.SoakRounds, sr.Calls, sr.Deliveries, sr.Violations)
			return nil
		}
		var rp struct {
			Input RCase `json:"input"`
		}
		if err := json.Unmarshal(b, &rp); err != nil {
			return err
		}
		obs, p := runReasmImpl(rp.Input)
		rep, _ := m.Ask(reasmModelLines(rp.Input, obs, true))
		fmt.Println("panic:", p)
		for i := range obs {
			ml := ""
			if i+1 < len(rep) {
				ml = rep[i+1]
			}
			fmt.Printf("op %d %+v impl=%s model=%s\n", i, flattenOps(rp.Input.Ops)[i], obs[i].Out, ml)
		}
		fmt.Println("monitor:", reasmMonitor(rp.Input, obs, ctx.Prop))
		return nil
	}

	report := func(v *common.Violation, c RCase) {
		if v == nil {
			return
		}
		// the history as it was run (it may carry time stamps the generator's copy does not)
		if rc, ok := v.Input.(RCase); ok {
			c = rc
		}
		keep := reasmStampRng
		reasmStampRng = nil
		sc := c
		if os.Getenv("VERIF_NOSHRINK") == "" {
			sc = shrinkReasm(ctx, m, c, v.Kind)
		}
		if v2 := runReasmCaseQuiet(ctx, m, sc); v2 != nil {
			v2.Case = v.Case
			v = v2
		}
		reasmStampRng = keep
		res.Violate(*v)
	}
	reasmStampRng = rand.New(rand.NewSource(ctx.Seed*7919 + 17))
	defer func() { reasmStampRng = nil }()

	idx := 0
	// corpus first (shared by the whole family, plus the property's own)
	for _, dir := range []string{"reasm", ctx.Prop} {
		for _, f := range ctx.CorpusFiles(dir) {
			b, err := os.ReadFile(f)
			if err != nil {
				return err
			}
			var c RCase
			if err := json.Unmarshal(b, &c); err != nil {
				return fmt.Errorf("%s: %w", f, err)
			}
			if c.Real && ctx.Prop != "C19" {
				continue
			}
			res.Hist("corpus")
			report(runReasmCase(ctx, m, c, idx), c)
			idx++
		}
	}

	if ctx.Prop != "C19" {
		for _, c := range reasmLargeCases() {
			res.Hist("large")
			report(runReasmCase(ctx, m, c, idx), c)
			idx++
		}
	}
	if ctx.Prop != "C19" {
		for _, c := range reasmNamedTypeCases() {
			res.Hist("named type")
			report(runReasmCase(ctx, m, c, idx), c)
			idx++
		}
	}
	if ctx.Prop == "C19" {
		// a call made from inside the callbacks of Close's own flush (still one goroutine): it finds the Reassembler closed
		for _, nest := range [][]ROp{{{K: "close"}}, {{K: "maintain"}}, {{K: "close"}, {K: "maintain"}, {K: "close"}}} {
			for _, at := range []int{0, 1} {
				c := RCase{Max: 4, TimeoutNs: int64(time.Hour), InWindow: true, Base: 0, Ops: []ROp{
					{K: "push", ID: 1, Seq: 1, Typ: tSYSCALL}, {K: "push", ID: 2, Seq: 2, Typ: tSYSCALL}, {K: "push", ID: 3, Seq: 3, Typ: tPATH},
					{K: "close", Nest: nest, At: at}, {K: "close"}}}
				res.Hist("re-entrant close")
				report(runReasmCase(ctx, m, c, idx), c)
				idx++
			}
		}
	}
	if ctx.Prop == "C01" || ctx.Prop == "C02" {
		// one object, a long life: more than 2^20 events through a single Reassembler (a daemon's Reassembler lives for
		// months); whatever the library does every so many removals happens here
		n := 1<<20 + 1<<17
		if ctx.Thorough() {
			n = 1<<24 + 1<<20
		}
		in := map[string]interface{}{"kind": "long-lived", "events": n}
		guardEnter(in)
		bad := longLived(n)
		guardLeave()
		res.Hist("long-lived object")
		if bad != "" {
			res.Violate(common.Violation{Kind: "monitor", Input: in, Clause: ctx.Prop + ": on one Reassembler fed consecutive events (seven or eight buffered, all evicted by one call): " + bad})
		}
	}
	if (ctx.Prop == "C01" || ctx.Prop == "C19") && strconv.IntSize == 64 {
		// Close with a backlog beyond 2^16 (filling it costs the library a few seconds: every new event re-sorts the list)
		in := map[string]interface{}{"kind": "wide-close", "max_in_flight": 70000, "events": 1<<16 + 3}
		guardEnter(in)
		bad := wideClose(70000, 1<<16+3)
		guardLeave()
		res.Hist("wide close")
		if bad != "" {
			res.Violate(common.Violation{Kind: "monitor", Input: in, Clause: ctx.Prop + ": " + bad})
		}
	}
	if ctx.Prop == "C10" && ctx.Thorough() {
		// a window larger than any size ladder reaches: 2^17+2 events buffered in a window of 200000 (filling it costs
		// the library about half a minute: every new event re-sorts the list). Nothing is complete, no timeout has
		// elapsed, the buffer never holds more than maxInFlight events: nothing may be delivered before Close.
		in := map[string]interface{}{"kind": "wide-window", "max_in_flight": 200000, "events": 1<<17 + 2}
		guardEnter(in)
		if at := wideWindow(200000, 1<<17+2); at > 0 {
			res.Violate(common.Violation{Kind: "monitor", Input: in, Clause: fmt.Sprintf("C10: an event was evicted without cause when event number %d arrived: incomplete, timeout 1h not elapsed, %d events buffered <= maxInFlight 200000", at, at)})
		}
		guardLeave()
		res.Hist("wide window")
	}
	if ctx.Prop == "C01" {
		// "any series of calls" includes calls made by several goroutines at once: the uncontrolled rounds of the C11
		// family (several goroutines on a real multi-core schedule, records of one sequence arriving at the same
		// instant), judged by exactly-once delivery in single-sequence groups
		cfg := StressCfg{Seed: ctx.Seed, BarrierMs: 0, SoakMs: ctx.N(2500, 20000)}
		guardEnter(map[string]interface{}{"block": "parallel pushes", "cfg": cfg})
		hook := libaudit.VerifYield
		sr := concStress(cfg)
		libaudit.VerifYield = hook
		guardLeave()
		res.HistN("parallel rounds", sr.SoakRounds)
		pin := map[string]interface{}{"kind": "parallel-first-records", "rounds": 1500}
		guardEnter(pin)
		bad := parallelFirstRecords(1500)
		guardLeave()
		if bad != "" {
			res.Violate(common.Violation{Kind: "monitor", Clause: "C01, calls made by several goroutines at once: " + bad, Input: pin})
		}
		for _, v := range sr.Violations {
			res.Violate(common.Violation{Kind: "monitor", Clause: "C01, calls made by several goroutines at once: " + v, Input: map[string]interface{}{"kind": "stress", "stress": cfg}})
		}
	}
	// cascades: one call whose clean-up evicts n+1 events in a row — an open event at the head holds back n complete ones
	// (or n incomplete ones that time out with it), and its EOE, a Maintain after the timeout or Close releases them
	// all. n around every power of two up to 512, windows far wider than the usual single digits.
	if ctx.Prop != "C11" {
		for _, n := range []int{15, 16, 17, 31, 32, 33, 47, 63, 64, 65, 80, 96, 127, 128, 129, 200, 255, 256, 257, 511, 512, 513} {
			for _, rel := range []string{"eoe", "close", "overflow"} {
				if ctx.Prop == "C19" && rel != "close" && n > 130 {
					continue
				}
				max := 2*n + 8
				if rel == "overflow" {
					max = n // the push that makes n+1 buffered events evicts the open head, and the complete ones behind it follow
				}
				c := RCase{Max: max, TimeoutNs: int64(time.Hour), InWindow: true, Base: 5000}
				id := 0
				nid := func() int { id++; return id }
				c.Ops = append(c.Ops, ROp{K: "push", ID: nid(), Seq: 5000, Typ: tSYSCALL})
				for i := 1; i <= n; i++ {
					seq := 5000 + uint32(i)
					switch i % 3 {
					case 0:
						c.Ops = append(c.Ops, ROp{K: "push", ID: nid(), Seq: seq, Typ: 1112})
					case 1:
						c.Ops = append(c.Ops, ROp{K: "push", ID: nid(), Seq: seq, Typ: tSYSCALL}, ROp{K: "push", ID: nid(), Seq: seq, Typ: tCWD}, ROp{K: "push", ID: nid(), Seq: seq, Typ: tPROCTITLE})
					default:
						c.Ops = append(c.Ops, ROp{K: "push", ID: nid(), Seq: seq, Typ: tSYSCALL}, ROp{K: "push", ID: nid(), Seq: seq, Typ: tEOE})
					}
				}
				switch rel {
				case "eoe":
					c.Ops = append(c.Ops, ROp{K: "push", ID: nid(), Seq: 5000, Typ: tEOE})
				case "overflow":
					// already released by the last push above when n+1 > max; one more event makes sure
					c.Ops = append(c.Ops, ROp{K: "push", ID: nid(), Seq: 5000 + uint32(n) + 1, Typ: tSYSCALL})
				}
				c.Ops = append(c.Ops, ROp{K: "push", ID: nid(), Seq: 5000 + uint32(n) + 2, Typ: tSYSCALL}, ROp{K: "close"})
				res.Hist("cascade")
				report(runReasmCase(ctx, m, c, idx), c)
				idx++
			}
		}
	}
	if ctx.Prop == "C01" {
		for _, c := range reentrantBatchCases() {
			res.Hist("re-entrant batch")
			report(runReasmCase(ctx, m, c, idx), c)
			idx++
		}
	}
	// systematic block: every record type at which the library's treatment of the type changes
	for _, c := range reasmTypeCases() {
		if res.NumViolations() >= 5 {
			break
		}
		res.Hist("record-type boundary")
		report(runReasmCase(ctx, m, c, idx), c)
		idx++
	}

	if ctx.Prop == "C01" || ctx.Prop == "C02" || ctx.Prop == "C19" {
		// directed: an older event with the higher number expires behind a younger, lower-numbered head
		for _, max := range []int{2, 5, 8} {
			for _, toMs := range []int{40, 60} {
				c := RCase{Real: true, InWindow: true, Base: 1000, Max: max, TimeoutNs: int64(toMs) * int64(time.Millisecond)}
				c.Ops = append(c.Ops, ROp{K: "push", ID: 800, Seq: 1301, Typ: tSYSCALL}, ROp{K: "sleep", Ms: toMs * 6 / 10},
					ROp{K: "push", ID: 801, Seq: 1300, Typ: tSYSCALL}, ROp{K: "sleep", Ms: toMs * 6 / 10}, ROp{K: "maintain"},
					ROp{K: "sleep", Ms: toMs * 6 / 10}, ROp{K: "maintain"}, ROp{K: "close"})
				res.Hist("expired behind a young head")
				report(runReasmCase(ctx, m, c, idx), c)
				idx++
			}
		}
	}
	if ctx.Prop == "C10" || ctx.Prop == "C19" {
		// a stale backlog with a complete event right behind it: hundreds of events time out together, the call that
		// finds them so must deliver them all and the complete event behind them (wide window, real timeout)
		for _, n := range []int{10, 255, 256, 257, 300, 1030} {
			c := RCase{Real: true, InWindow: true, Base: 1000, Max: 1500, TimeoutNs: int64(40 * time.Millisecond)}
			for i := 0; i < n; i++ {
				c.Ops = append(c.Ops, ROp{K: "push", ID: i + 1, Seq: 1000 + uint32(i), Typ: tSYSCALL})
			}
			c.Ops = append(c.Ops, ROp{K: "push", ID: n + 1, Seq: 1000 + uint32(n), Typ: 1112},
				ROp{K: "sleep", Ms: 400}, ROp{K: "push", ID: n + 2, Seq: 1000 + uint32(n) + 1, Typ: tSYSCALL}, ROp{K: "close"})
			res.Hist("stale backlog, complete event behind")
			report(runReasmCase(ctx, m, c, idx), c)
			idx++
		}
	}
	if ctx.Prop == "C02" {
		// order under real elapsed time (a few histories with real sleeps; the rest of C02 runs with +-1h timeouts)
		n := ctx.N(16, 160)
		for i := 0; i < n && res.NumViolations() < 5; i++ {
			c := genReasmRealCase(ctx.Rng)
			report(runReasmCase(ctx, m, c, idx), c)
			idx++
		}
	}
	if ctx.Prop == "C19" {
		// not before the timeout, to the microsecond
		for _, pr := range []struct{ T, lead time.Duration }{{80 * time.Microsecond, 40 * time.Microsecond}, {time.Millisecond, 30 * time.Microsecond}, {3 * time.Millisecond, 60 * time.Microsecond}, {20 * time.Millisecond, 500 * time.Microsecond}} {
			in := map[string]interface{}{"kind": "early", "timeout_ns": int64(pr.T), "lead_ns": int64(pr.lead), "trials": 40}
			guardEnter(in)
			early, least, conclusive := earlyProbe(pr.T, pr.lead, 40)
			guardLeave()
			res.HistN("early-delivery probes (conclusive)", conclusive)
			if early > 0 {
				res.Violate(common.Violation{Kind: "monitor", Input: in, Clause: fmt.Sprintf("C19: never delivered on account of time before the timeout has elapsed: with timeout %v a lone incomplete event was handed to the Stream %v after a moment that precedes its arrival (%d of 40 trials)", pr.T, least, early)})
			}
		}
		{
			// more than a thousand events stale at the same moment: the first Maintain after the timeout delivers them all
			c := RCase{Real: true, InWindow: true, Base: 1000, Max: 1500, TimeoutNs: int64(40 * time.Millisecond)}
			for i := 0; i < 1100; i++ {
				c.Ops = append(c.Ops, ROp{K: "push", ID: i + 1, Seq: 1000 + uint32(i), Typ: tSYSCALL})
			}
			c.Ops = append(c.Ops, ROp{K: "sleep", Ms: 400}, ROp{K: "maintain"}, ROp{K: "close"})
			res.Hist("large stale backlog")
			report(runReasmCase(ctx, m, c, idx), c)
			idx++
		}
		// records of one event keep arriving at intervals shorter than the timeout: the deadline stays that of the
		// first record (C19_deadline_from_first_record), so the first Maintain or push after first + timeout delivers
		// the event although its latest record is younger than the timeout
		for _, toMs := range []int{100, 160} {
			for _, recs := range []int{2, 3, 4} {
				for _, closer := range []string{"maintain", "push", "eoe-other"} {
					c := RCase{Real: true, InWindow: true, Base: 1000, Max: 5, TimeoutNs: int64(toMs) * int64(time.Millisecond)}
					gap := toMs * 6 / 10 / (recs - 1) * 2 // the last record arrives at 1.2·T·(recs-1)/recs … kept below T by the cut
					if gap*(recs-1) > toMs*8/10 {
						gap = toMs * 8 / 10 / (recs - 1)
					}
					typs := []uint16{tSYSCALL, tPATH, tCWD, tPATH}
					for k := 0; k < recs; k++ {
						if k > 0 {
							c.Ops = append(c.Ops, ROp{K: "sleep", Ms: gap})
						}
						c.Ops = append(c.Ops, ROp{K: "push", ID: k + 1, Seq: 1000, Typ: typs[k]})
					}
					c.Ops = append(c.Ops, ROp{K: "sleep", Ms: toMs - gap*(recs-1) + toMs*3/10})
					switch closer {
					case "maintain":
						c.Ops = append(c.Ops, ROp{K: "maintain"})
					case "push":
						c.Ops = append(c.Ops, ROp{K: "push", ID: 50, Seq: 1001, Typ: tSYSCALL})
					default:
						c.Ops = append(c.Ops, ROp{K: "push", ID: 50, Seq: 1077, Typ: tEOE})
					}
					c.Ops = append(c.Ops, ROp{K: "close"})
					res.Hist("records keep arriving, deadline of the first")
					report(runReasmCase(ctx, m, c, idx), c)
					idx++
				}
			}
		}
		// two calls straddle the moment an event times out, a small fraction of the timeout apart: the first (a Maintain,
		// a push for another event, another record of the same event) finds nothing to do, the second is the first call
		// after the timeout and delivers the event, however recently the Reassembler last looked
		for _, toMs := range []int{160, 240} {
			for _, pre := range []string{"maintain", "push-other", "push-same", "eoe-other"} {
				for _, gapPct := range []int{8, 15} {
					c := RCase{Real: true, InWindow: true, Base: 1000, Max: 5, TimeoutNs: int64(toMs) * int64(time.Millisecond)}
					c.Ops = append(c.Ops, ROp{K: "push", ID: 1, Seq: 1000, Typ: tSYSCALL}, ROp{K: "sleep", Ms: toMs * 90 / 100})
					switch pre {
					case "maintain":
						c.Ops = append(c.Ops, ROp{K: "maintain"})
					case "push-other":
						c.Ops = append(c.Ops, ROp{K: "push", ID: 2, Seq: 1001, Typ: tSYSCALL})
					case "push-same":
						c.Ops = append(c.Ops, ROp{K: "push", ID: 2, Seq: 1000, Typ: tPATH})
					default:
						c.Ops = append(c.Ops, ROp{K: "push", ID: 2, Seq: 1077, Typ: tEOE})
					}
					c.Ops = append(c.Ops, ROp{K: "sleep", Ms: toMs * (10 + gapPct) / 100}, ROp{K: "maintain"}, ROp{K: "close"})
					res.Hist("two calls straddle the timeout")
					report(runReasmCase(ctx, m, c, idx), c)
					idx++
				}
			}
		}
		n := ctx.N(40, 400)
		for i := 0; i < n && res.NumViolations() < 5; i++ {
			c := genReasmRealCase(ctx.Rng)
			if i < 2 {
				res.Sample(c)
			}
			report(runReasmCase(ctx, m, c, idx), c)
			idx++
		}
	}
	n := ctx.N(3000, 80000)
	if ctx.Prop == "C19" {
		n = ctx.N(800, 20000)
	}
	for i := 0; i < n && res.NumViolations() < 5; i++ {
		c := genReasmCase(ctx.Rng, ctx.Prop, 60)
		if i%5 == 4 && ctx.Prop != "C03" { // C03 is stated for histories within one window
			c = genReasmFarJump(ctx.Rng, ctx.Prop)
			res.Hist("far jump")
		}
		if i < 3 {
			res.Sample(c)
		}
		report(runReasmCase(ctx, m, c, idx), c)
		idx++
	}
	// exhaustive small scope (thorough): all histories of length <= L over a small alphabet
	if ctx.Thorough() && res.NumViolations() == 0 {
		cnt := reasmExhaustive(ctx, m, &idx, report)
		res.Note("exhaustive small scope: %d histories", cnt)
	}
	return nil
}

func runReasmCaseQuiet(ctx *Ctx, m *common.Model, c RCase) *common.Violation {
	tmp := &Ctx{Prop: ctx.Prop, Res: common.NewResult(ctx.Prop, ctx.Tier, ctx.Seed)}
	return runReasmCase(tmp, m, c, 0)
}

// reasmExhaustive enumerates every history of length <= 6 over 4 sequences x 3
// record types for maxInFlight in {0,1,2}.
func reasmExhaustive(ctx *Ctx, m *common.Model, idx *int, report func(*common.Violation, RCase)) int {
	type sym struct {
		seq uint32
		typ uint16
	}
	var alpha []sym
	for _, s := range []uint32{0xFFFFFFF0, 0xFFFFFFFF, 0, 0x00FFFFEF} {
		for _, t := range []uint16{tSYSCALL, tEOE, tPROCTITLE} {
			alpha = append(alpha, sym{s, t})
		}
	}
	count := 0
	L := 5
	for _, max := range []int{0, 1, 2} {
		var rec func(ops []ROp)
		rec = func(ops []ROp) {
			if len(ops) > 0 {
				c := RCase{Max: max, TimeoutNs: int64(time.Hour), InWindow: true, Base: 0xFFFFFFF0,
					Ops: append(append([]ROp{}, ops...), ROp{K: "close"})}
				report(runReasmCase(ctx, m, c, *idx), c)
				*idx++
				count++
			}
			if len(ops) == L || ctx.Res.NumViolations() > 0 {
				return
			}
			for _, a := range alpha {
				rec(append(ops, ROp{K: "push", ID: len(ops) + 1, Seq: a.seq, Typ: a.typ}))
			}
		}
		rec(nil)
	}
	return count
}
