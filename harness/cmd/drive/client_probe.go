package main

// Direct probes of the client family: histories that the simulated kernel and the model cannot carry (a million
// requests on one client) or that are about the transport rather than about what the kernel says (what its Close
// returns). A minimal transport stands in for the socket: it numbers what is sent, acknowledges every request that
// asks for it, in order, and counts.

import (
	"encoding/binary"
	"errors"
	"fmt"
	"os"
	"runtime"
	"syscall"
	"time"

	libaudit "github.com/elastic/go-libaudit/v2"

	"verifharness/internal/common"
)

type probeNL struct {
	seq      uint32
	sent     int
	queue    []uint32 // sequence numbers still to be acknowledged
	errAt    map[uint32]int32
	recvs    int
	closes   int
	closeErr error
	buf      [64]byte
}

func (f *probeNL) Send(msg syscall.NetlinkMessage) (uint32, error) {
	f.seq++
	f.sent++
	if msg.Header.Flags&syscall.NLM_F_ACK != 0 {
		f.queue = append(f.queue, f.seq)
	}
	return f.seq, nil
}

func (f *probeNL) Receive(nonBlocking bool, p libaudit.NetlinkParser) ([]syscall.NetlinkMessage, error) {
	f.recvs++
	if len(f.queue) == 0 {
		return nil, errors.New("probe transport: nothing left to receive")
	}
	s := f.queue[0]
	f.queue = f.queue[1:]
	b := f.buf[:36]
	for i := range b {
		b[i] = 0
	}
	binary.LittleEndian.PutUint32(b[0:], 36)
	binary.LittleEndian.PutUint16(b[4:], syscall.NLMSG_ERROR)
	binary.LittleEndian.PutUint32(b[8:], s)
	binary.LittleEndian.PutUint32(b[16:], uint32(-f.errAt[s]))
	binary.LittleEndian.PutUint32(b[20:], 60)
	binary.LittleEndian.PutUint16(b[24:], 1001)
	binary.LittleEndian.PutUint32(b[28:], s)
	return p(b)
}

func (f *probeNL) Close() error {
	f.closes++
	return f.closeErr
}

// probeManyPending: n NoWait requests on one client before the first wait (a program that sets its parameters in a
// loop and never waits). Every call sends its request; the wait afterwards reports the first kernel error and the
// acknowledgements are all consumed, in order, by it and the waits that follow.
func probeManyPending(n int) string {
	f := &probeNL{errAt: map[uint32]int32{1: 1}} // the first request is refused with EPERM
	cl := &libaudit.AuditClient{Netlink: f}
	for i := 0; i < n; i++ {
		if err := cl.SetRateLimit(uint32(i), libaudit.NoWait); err != nil {
			return fmt.Sprintf("C16,C17: SetRateLimit(NoWait) number %d on one client returned %v (the %d before it were not waited for)", i+1, err, i)
		}
		if f.sent != i+1 {
			return fmt.Sprintf("C16: SetRateLimit(NoWait) number %d returned nil but %d requests have been sent", i+1, f.sent)
		}
	}
	err := cl.WaitForPendingACKs()
	var en syscall.Errno
	if !errors.As(err, &en) || en != syscall.EPERM {
		return fmt.Sprintf("C17: with %d acknowledgements pending, the first of them EPERM, WaitForPendingACKs returned %v", n, err)
	}
	for k := 0; k < 3 && len(f.queue) > 0; k++ {
		if err := cl.WaitForPendingACKs(); err != nil {
			return fmt.Sprintf("C17: after the first kernel error had been reported, a further WaitForPendingACKs (all remaining acknowledgements are successes) returned %v", err)
		}
	}
	if len(f.queue) != 0 {
		return fmt.Sprintf("C17: %d of %d acknowledgements were never consumed", len(f.queue), n)
	}
	if f.recvs != n {
		return fmt.Sprintf("C17: %d acknowledgements were consumed with %d Receive calls", n, f.recvs)
	}
	return ""
}

// probeCloseErr: whatever the transport's Close returns, one Close of the client closes the socket exactly once (on
// Linux a descriptor is released even when close(2) reports EINTR: closing again closes whatever got the number since).
func probeCloseErr(kind string, setPID bool) string {
	f := &probeNL{errAt: map[uint32]int32{}}
	switch kind {
	case "eintr":
		f.closeErr = syscall.EINTR
	case "eintr-wrapped":
		f.closeErr = os.NewSyscallError("close", syscall.EINTR)
	case "eagain":
		f.closeErr = syscall.EAGAIN
	case "eio":
		f.closeErr = syscall.EIO
	case "ebadf":
		f.closeErr = fmt.Errorf("close: %w", syscall.EBADF)
	}
	cl := &libaudit.AuditClient{Netlink: f}
	if setPID {
		if err := cl.SetPID(libaudit.NoWait); err != nil {
			return ""
		}
	}
	cl.Close()
	if f.closes != 1 {
		return fmt.Sprintf("C17: one Close of the client, the transport's Close returning %v (SetPID used: %v): the socket was closed %d times", f.closeErr, setPID, f.closes)
	}
	cl.Close()
	cl.Close()
	if f.closes != 1 {
		return fmt.Sprintf("C17: after three Close calls, the transport's Close returning %v (SetPID used: %v), the socket was closed %d times", f.closeErr, setPID, f.closes)
	}
	return ""
}

// probeForgotten: a client made by the library's own constructor (whatever the constructor arranges besides filling the
// struct: finalizers, goroutines, registrations), its transport replaced by the counting one, closed with the
// transport's Close failing, then forgotten. After two garbage collections the transport has been closed exactly once.
// Needs a NETLINK_AUDIT socket ("" with a note when there is none).
func probeForgotten(kind string, setPID bool) (clause, note string) {
	f := &probeNL{errAt: map[uint32]int32{}}
	switch kind {
	case "eintr":
		f.closeErr = syscall.EINTR
	case "eio":
		f.closeErr = syscall.EIO
	}
	func() {
		cl, err := libaudit.NewAuditClient(nil)
		if err != nil {
			note = "cannot open a NETLINK_AUDIT socket: " + err.Error()
			return
		}
		real := cl.Netlink
		cl.Netlink = f
		defer real.Close()
		if setPID {
			cl.SetPID(libaudit.NoWait)
		}
		cl.Close()
		cl.Close()
	}()
	if note != "" {
		return "", note
	}
	for i := 0; i < 3; i++ {
		runtime.GC()
		time.Sleep(20 * time.Millisecond)
	}
	if f.closes != 1 {
		return fmt.Sprintf("C17: a client made by NewAuditClient was closed (the transport's Close returning %v, SetPID used: %v) and then forgotten; after the garbage collector had run, the socket had been closed %d times", f.closeErr, setPID, f.closes), ""
	}
	return "", ""
}

// slowNL: a transport on which every datagram becomes readable only after `eagains` transient failures (the reader
// sleeps 50 ms after each), and on which `events` unsolicited audit records precede the acknowledgement of the request.
type slowNL struct {
	seq     uint32
	script  [][]byte
	eagains int
	left    int
}

func (f *slowNL) Send(msg syscall.NetlinkMessage) (uint32, error) {
	f.seq++
	return f.seq, nil
}

func (f *slowNL) Receive(nonBlocking bool, p libaudit.NetlinkParser) ([]syscall.NetlinkMessage, error) {
	if len(f.script) == 0 {
		return nil, errors.New("probe transport: nothing left to receive")
	}
	if f.left > 0 {
		f.left--
		return nil, syscall.EAGAIN
	}
	b := f.script[0]
	f.script = f.script[1:]
	f.left = f.eagains
	return p(b)
}

func (f *slowNL) Close() error { return nil }

// probeLongWait: one request whose acknowledgement (errno 0) is preceded by `events` unsolicited records, every
// datagram readable only after nine transient failures: nothing in that is a reason to report a failure, however long
// it takes (events × 9 × 50 ms).
func probeLongWait(events int, get bool) string {
	f := &slowNL{eagains: 9, left: 9}
	for i := 0; i < events; i++ {
		body := []byte(fmt.Sprintf("audit(1700000000.%03d:%d): pid=1 uid=0", i%1000, 100+i))
		b := make([]byte, 16+len(body))
		binary.LittleEndian.PutUint32(b[0:], uint32(len(b)))
		binary.LittleEndian.PutUint16(b[4:], 1300)
		copy(b[16:], body)
		f.script = append(f.script, b)
	}
	ack := make([]byte, 36)
	binary.LittleEndian.PutUint32(ack[0:], 36)
	binary.LittleEndian.PutUint16(ack[4:], syscall.NLMSG_ERROR)
	binary.LittleEndian.PutUint32(ack[8:], 1)
	binary.LittleEndian.PutUint32(ack[20:], 60)
	binary.LittleEndian.PutUint16(ack[24:], 1001)
	binary.LittleEndian.PutUint32(ack[28:], 1)
	f.script = append(f.script, ack)
	cl := &libaudit.AuditClient{Netlink: f}
	t0 := time.Now()
	if get {
		st := make([]byte, 16+40)
		binary.LittleEndian.PutUint32(st[0:], uint32(len(st)))
		binary.LittleEndian.PutUint16(st[4:], 1000)
		binary.LittleEndian.PutUint32(st[8:], 1)
		binary.LittleEndian.PutUint32(st[16+4:], 1) // enabled
		f.script = append(f.script, st)
		got, err := cl.GetStatus()
		if err != nil || got == nil || got.Enabled != 1 {
			return fmt.Sprintf("C08: GetStatus whose acknowledgement (errno 0) and data followed %d unsolicited records, every datagram after nine transient failures (%v in all), returned %v, %v", events, time.Since(t0).Round(100*time.Millisecond), got, err)
		}
		return ""
	}
	if err := cl.SetEnabled(true, libaudit.WaitForReply); err != nil {
		return fmt.Sprintf("C08: SetEnabled whose acknowledgement (errno 0) followed %d unsolicited records, every datagram after nine transient failures (%v in all), returned %v", events, time.Since(t0).Round(100*time.Millisecond), err)
	}
	return ""
}

func runClientProbes(ctx *Ctx) {
	res := ctx.Res
	own := func(cl string) bool { return ownClause(cl, ctx.Prop) }
	if ctx.Prop == "C16" || ctx.Prop == "C17" {
		for _, n := range []int{65535, 65536, 65537, 1<<20 + 16} {
			in := map[string]interface{}{"kind": "probe-many-pending", "requests": n}
			guardEnter(in)
			cl := probeManyPending(n)
			guardLeave()
			res.Hist("probe: many pending acknowledgements")
			if cl != "" && own(cl) {
				res.Violate(common.Violation{Kind: "monitor", Clause: cl, Input: in})
			}
		}
	}
	if ctx.Prop == "C08" {
		// one wait of several seconds (thorough: more than half a minute) that is nothing but skipped records and
		// transient failures within the bound
		evs := []int{13}
		if ctx.Thorough() {
			evs = []int{13, 70}
		}
		for _, n := range evs {
			for _, get := range []bool{false, true} {
				if get && n > 13 {
					continue
				}
				in := map[string]interface{}{"kind": "probe-long-wait", "events": n, "get_status": get}
				guardEnter(in)
				cl := probeLongWait(n, get)
				guardLeave()
				res.Hist("probe: a wait of several seconds through records and transient failures")
				if cl != "" {
					res.Violate(common.Violation{Kind: "monitor", Clause: cl, Input: in})
				}
			}
		}
	}
	if ctx.Prop == "C17" {
		for _, kind := range []string{"nil", "eintr", "eintr-wrapped", "eagain", "eio", "ebadf"} {
			for _, pid := range []bool{false, true} {
				in := map[string]interface{}{"kind": "probe-close-error", "close_returns": kind, "set_pid": pid}
				guardEnter(in)
				cl := probeCloseErr(kind, pid)
				guardLeave()
				res.Hist("probe: the transport's Close fails")
				if cl != "" {
					res.Violate(common.Violation{Kind: "monitor", Clause: cl, Input: in})
				}
			}
		}
		for _, kind := range []string{"nil", "eintr", "eio"} {
			for _, pid := range []bool{false, true} {
				in := map[string]interface{}{"kind": "probe-forgotten-client", "close_returns": kind, "set_pid": pid}
				guardEnter(in)
				cl, note := probeForgotten(kind, pid)
				guardLeave()
				if note != "" {
					res.Note("forgotten-client probe NOT run: %s", note)
					break
				}
				res.Hist("probe: a closed client is forgotten and collected")
				if cl != "" {
					res.Violate(common.Violation{Kind: "monitor", Clause: cl, Input: in})
				}
			}
		}
	}
}

// replayClientProbe re-runs a probe from its replay file; false when the input is not a probe.
func replayClientProbe(in map[string]interface{}) bool {
	switch in["kind"] {
	case "probe-many-pending":
		n, _ := in["requests"].(float64)
		fmt.Printf("%d NoWait requests, then the waits: %q (empty = as stated)\n", int(n), probeManyPending(int(n)))
	case "probe-long-wait":
		n, _ := in["events"].(float64)
		g, _ := in["get_status"].(bool)
		fmt.Printf("%d unsolicited records before the acknowledgement, nine transient failures before every datagram (GetStatus: %v): %q (empty = the kernel's verdict was reported)\n", int(n), g, probeLongWait(int(n), g))
	case "probe-forgotten-client":
		k, _ := in["close_returns"].(string)
		p, _ := in["set_pid"].(bool)
		cl, note := probeForgotten(k, p)
		fmt.Printf("client from NewAuditClient, transport Close returns %s, SetPID used %v, closed, forgotten, collected: %q %s (empty = closed exactly once)\n", k, p, cl, note)
	case "probe-close-error":
		k, _ := in["close_returns"].(string)
		p, _ := in["set_pid"].(bool)
		fmt.Printf("transport Close returns %s, SetPID used %v: %q (empty = closed exactly once)\n", k, p, probeCloseErr(k, p))
	default:
		return false
	}
	return true
}
