package main

// Client family: C08 (commands report the kernel's verdict for their own
// request), C16 (audit_status encoding and the exported numbers), C17 (ACK
// bookkeeping, Close, returned data: once and only once), C18 (netlink
// framing and sender check).
//
// Histories of AuditClient operations are run on the real client over the
// simulated kernel (internal/simkernel, installed in the exported Netlink
// field) and on Model.Client.step; per-operation observations are compared
// and the property monitors (client_monitor.go) are evaluated on the real
// client's observations. C18 additionally uses real netlink sockets
// (client_sockets.go).

import (
	"encoding/binary"
	"encoding/hex"
	"encoding/json"
	"errors"
	"fmt"
	"io"
	"os"
	"path/filepath"
	"reflect"
	"strconv"
	"strings"
	"syscall"
	"time"

	libaudit "github.com/elastic/go-libaudit/v2"

	"verifharness/internal/common"
	"verifharness/internal/simkernel"
)

func init() {
	families["C08"] = clientFamily
	families["C16"] = clientFamily
	families["C17"] = clientFamily
	families["C18"] = clientFamily
}

// KOp is one operation of a client history.
type KOp struct {
	K     string           `json:"k"`              // getstatus getstatusasync getrules deleterules deleterule addrule setpid setratelimit setbackloglimit setenabled setimmutable setfailure setbacklogwaittime wait close receive
	Rule  string           `json:"rule,omitempty"` // hex
	V     uint32           `json:"v,omitempty"`
	W     int32            `json:"w,omitempty"`
	B     bool             `json:"b,omitempty"`
	WM    uint8            `json:"wm,omitempty"`
	FM    string           `json:"fm,omitempty"`     // setfailure: silent | log | panic = the library's named constant (else V)
	Plans []simkernel.Plan `json:"plans,omitempty"`  // reactions to the requests this operation sends
	Pre   []simkernel.Item `json:"pre,omitempty"`    // put on the receive queue before the operation (unsolicited traffic)
	GapMs int              `json:"gap_ms,omitempty"` // real time that passes before the operation (the model has no clock)
}

// failureMode is the argument SetFailure is called with.
func failureMode(op KOp) libaudit.FailureMode {
	switch op.FM {
	case "silent":
		return libaudit.SilentOnFailure
	case "log":
		return libaudit.LogOnFailure
	case "panic":
		return libaudit.PanicOnFailure
	}
	return libaudit.FailureMode(op.V)
}

func maxDatagram(c KCase) int {
	bl := c.BufLen
	for _, op := range c.Ops { // the ONE receive buffer must hold the largest datagram of the case
		for _, it := range op.Pre {
			if n := len(it.Raw) / 2; n > bl {
				bl = n
			}
		}
		for _, p := range op.Plans {
			for _, it := range p.Items {
				if n := len(it.Raw) / 2; n > bl {
					bl = n
				}
			}
		}
	}
	return bl
}

// KCase is one generated case of the client family.
type KCase struct {
	Kind      string `json:"kind"` // history | fromwire | perr | consts | concclose | echo | spoof | concsend
	Seq0      uint32 `json:"seq0,omitempty"`
	BufLen    int    `json:"buf_len,omitempty"`
	CloseFail bool   `json:"close_fail,omitempty"`
	// every Receive call of the simulated kernel takes this many milliseconds (the model has no clock: the outcome of a
	// history depends on what the kernel sends and how often a receive fails, not on how long a receive takes)
	RecvDelayMs int `json:"recv_delay_ms,omitempty"`
	// the transport reports a transient receive failure as an error that wraps the errno (os.SyscallError, fmt %w), as a
	// NetlinkSendReceiver other than the library's own may; it is the same failure
	WrapErrno bool  `json:"wrap_errno,omitempty"`
	Ops       []KOp `json:"ops,omitempty"`
	// fromwire
	Prior string `json:"prior,omitempty"` // hex, 44 bytes: the receiver's previous content
	Buf   string `json:"buf,omitempty"`   // hex: the buffer decoded (fromwire), the payload (perr, echo), the datagram (spoof)
	// concclose / concsend
	Iters      int  `json:"iters,omitempty"`
	SetPID     bool `json:"set_pid,omitempty"`
	SendFail   bool `json:"send_fail,omitempty"`
	Goroutines int  `json:"goroutines,omitempty"`
	Calls      int  `json:"calls,omitempty"`
	// echo
	Typ    uint16 `json:"typ,omitempty"`
	Flags  uint16 `json:"flags,omitempty"`
	HdrPid uint32 `json:"hdr_pid,omitempty"`
	// spoof
	Multicast bool `json:"multicast,omitempty"`
}

func (c KCase) canon() string { b, _ := json.Marshal(c); return string(b) }

func isSetter(k string) bool { return strings.HasPrefix(k, "set") }

// ---- canonical rendering (must agree with LA.Drv.Client) ---------------------------

func classifyErr(err error) string {
	if err == nil {
		return "nil"
	}
	var re *simkernel.RecvErr
	if errors.As(err, &re) {
		return "err" // a hard receive failure, whatever errno the transport reported for it
	}
	var en syscall.Errno
	if errors.As(err, &en) {
		return "errno:" + strconv.FormatUint(uint64(en), 10)
	}
	if err.Error() == "rule exists" { // AddRule's representation of EEXIST
		return "errno:17"
	}
	if errors.Is(err, io.ErrUnexpectedEOF) {
		return "err:eof"
	}
	return "err"
}

func statusWords(s *libaudit.AuditStatus) [11]uint32 {
	return [11]uint32{uint32(s.Mask), s.Enabled, s.Failure, s.PID, s.RateLimit, s.BacklogLimit, s.Lost, s.Backlog,
		s.FeatureBitmap, s.BacklogWaitTime, s.BacklogWaitTimeActual}
}

func wordsHex(w [11]uint32) string {
	b := make([]byte, 44)
	for i, x := range w {
		binary.LittleEndian.PutUint32(b[4*i:], x)
	}
	return common.Hex(b)
}

func statusFromWords(w [11]uint32) libaudit.AuditStatus {
	return libaudit.AuditStatus{Mask: libaudit.AuditStatusMask(w[0]), Enabled: w[1], Failure: w[2], PID: w[3], RateLimit: w[4],
		BacklogLimit: w[5], Lost: w[6], Backlog: w[7], FeatureBitmap: w[8], BacklogWaitTime: w[9], BacklogWaitTimeActual: w[10]}
}

func kHexList(bs [][]byte) string {
	if len(bs) == 0 {
		return "none"
	}
	p := make([]string, len(bs))
	for i, b := range bs {
		p[i] = common.Hex(b)
	}
	return strings.Join(p, ",")
}

func pendingOf(c *libaudit.AuditClient) string {
	f := reflect.ValueOf(c).Elem().FieldByName("pendingAcks")
	if !f.IsValid() || f.Kind() != reflect.Slice {
		return "?"
	}
	if f.Len() == 0 {
		return "-"
	}
	p := make([]string, f.Len())
	for i := range p {
		e := f.Index(i)
		if e.Kind() != reflect.Uint32 {
			return "?"
		}
		p[i] = strconv.FormatUint(e.Uint(), 10)
	}
	return strings.Join(p, ",")
}

// kObs is what one operation did on the real client.
type kObs struct {
	Ret       string
	Data      string
	Err       error
	Panic     string
	Status    *libaudit.AuditStatus
	Rules     [][]byte
	Count     int
	Seq       uint32
	RawType   uint16
	RawData   []byte
	RawSnap   []byte              // copy of RawData taken when it was returned
	Sent      []simkernel.Sent    // messages sent during the operation
	Recvs     []simkernel.RecvRec // Receive calls made during the operation
	Events    []simkernel.Event
	Pending   string
	Closes    int
	Queue     int
	QBefore   []simkernel.Resolved // the queue before the operation
	SeqBefore uint32
	Line      string
}

func renderSent(ss []simkernel.Sent) string {
	if len(ss) == 0 {
		return "-"
	}
	p := make([]string, len(ss))
	for i, m := range ss {
		p[i] = fmt.Sprintf("%d.%d.%d.%s", m.Typ, m.Flags, m.Seq, common.Hex(m.Data))
	}
	return strings.Join(p, ";")
}

type clientRun struct {
	Obs      []kObs
	Kept     [][]byte // every byte slice the client returned, as returned (aliases included)
	KeptSnap [][]byte // copies taken when they were returned
	KeptRule []bool   // came from GetRules
	Late     string
	Pid      uint32
}

func wm(op KOp) libaudit.WaitMode { return libaudit.WaitMode(op.WM) }

// runClientImpl runs a history on the real AuditClient over the simulated kernel.
func runClientImpl(c KCase) *clientRun {
	guardEnter(c)
	defer guardLeave()
	bl := maxDatagram(c)
	sim := simkernel.New(c.Seq0, bl, c.CloseFail)
	sim.RecvDelay = time.Duration(c.RecvDelayMs) * time.Millisecond
	sim.WrapErrno = c.WrapErrno
	cl := &libaudit.AuditClient{Netlink: sim}
	run := &clientRun{Pid: uint32(os.Getpid())}
	seq := c.Seq0
	for _, op := range c.Ops {
		if op.GapMs > 0 {
			time.Sleep(time.Duration(op.GapMs) * time.Millisecond)
		}
		sim.SetPlans(op.Plans)
		sim.Enqueue(op.Pre)
		nS, nR, _, _ := sim.Counts()
		nE := len(sim.Events)
		o := kObs{QBefore: append([]simkernel.Resolved(nil), sim.Queue...), SeqBefore: seq}
		func() {
			defer func() {
				if r := recover(); r != nil {
					o.Panic = fmt.Sprint(r)
				}
			}()
			switch op.K {
			case "getstatus":
				o.Status, o.Err = cl.GetStatus()
			case "getstatusasync":
				o.Seq, o.Err = cl.GetStatusAsync(op.B)
			case "getrules":
				o.Rules, o.Err = cl.GetRules()
			case "deleterules":
				o.Count, o.Err = cl.DeleteRules()
			case "deleterule":
				o.Err = cl.DeleteRule(common.UnHex(op.Rule))
			case "addrule":
				o.Err = cl.AddRule(common.UnHex(op.Rule))
			case "setpid":
				o.Err = cl.SetPID(wm(op))
			case "setratelimit":
				o.Err = cl.SetRateLimit(op.V, wm(op))
			case "setbackloglimit":
				o.Err = cl.SetBacklogLimit(op.V, wm(op))
			case "setenabled":
				o.Err = cl.SetEnabled(op.B, wm(op))
			case "setimmutable":
				o.Err = cl.SetImmutable(wm(op))
			case "setfailure":
				o.Err = cl.SetFailure(failureMode(op), wm(op))
			case "setbacklogwaittime":
				o.Err = cl.SetBacklogWaitTime(op.W, wm(op))
			case "wait":
				o.Err = cl.WaitForPendingACKs()
			case "close":
				o.Err = cl.Close()
			case "receive":
				var m *libaudit.RawAuditMessage
				m, o.Err = cl.Receive(true)
				if m != nil {
					o.RawType, o.RawData = uint16(m.Type), m.Data
					o.RawSnap = append([]byte(nil), m.Data...)
				}
			default:
				o.Panic = "harness: unknown op " + op.K
			}
		}()
		o.Sent = append([]simkernel.Sent(nil), sim.Sent[nS:]...)
		o.Recvs = append([]simkernel.RecvRec(nil), sim.Recvs[nR:]...)
		o.Events = append([]simkernel.Event(nil), sim.Events[nE:]...)
		_, _, o.Closes, o.Queue = sim.Counts()
		o.Pending = pendingOf(cl)
		seq += uint32(len(o.Sent))
		o.Data = "-"
		switch {
		case o.Panic != "":
			o.Ret = "panic"
		default:
			o.Ret = classifyErr(o.Err)
			if o.Err == nil {
				switch op.K {
				case "getstatus":
					if o.Status != nil {
						o.Data = "st:" + wordsHex(statusWords(o.Status))
					}
				case "getstatusasync":
					o.Data = "seq:" + strconv.FormatUint(uint64(o.Seq), 10)
				case "getrules":
					o.Data = "rules:" + kHexList(o.Rules)
					for _, r := range o.Rules {
						run.Kept = append(run.Kept, r)
						run.KeptSnap = append(run.KeptSnap, append([]byte(nil), r...))
						run.KeptRule = append(run.KeptRule, true)
					}
				case "deleterules":
					o.Data = "count:" + strconv.Itoa(o.Count)
				case "receive":
					o.Data = fmt.Sprintf("raw:%d:%s", o.RawType, common.Hex(o.RawData))
					run.Kept = append(run.Kept, o.RawData)
					run.KeptSnap = append(run.KeptSnap, append([]byte(nil), o.RawData...))
					run.KeptRule = append(run.KeptRule, false)
				}
			}
		}
		o.Line = fmt.Sprintf("ret=%s data=%s sent=%s recvs=%d pending=%s closes=%d queue=%d", o.Ret, o.Data, renderSent(o.Sent),
			len(o.Recvs), o.Pending, o.Closes, o.Queue)
		run.Obs = append(run.Obs, o)
	}
	run.Late = kHexList(run.Kept)
	return run
}

// ---- model lines ----------------------------------------------------------------------

func planWord(p simkernel.Plan) string {
	var b strings.Builder
	if p.SendFail {
		b.WriteString("P0")
	} else {
		b.WriteString("P1")
	}
	for _, it := range p.Items {
		b.WriteByte(',')
		switch it.K {
		case "eintr":
			b.WriteByte('i')
		case "eagain":
			b.WriteByte('a')
		case "fail":
			b.WriteByte('f')
		case "nothing":
			b.WriteByte('n')
		case "raw":
			h := it.Raw
			if h == "" {
				h = "-"
			}
			if it.Patch != nil {
				fmt.Fprintf(&b, "x%d:%s", *it.Patch, h)
			} else {
				b.WriteString("r" + h)
			}
		}
	}
	return b.String()
}

func b01(b bool) string {
	if b {
		return "1"
	}
	return "0"
}

// clientModelLines renders the history for the Lean driver; three lines per operation
// (plans, enqueue, op) after the `new` line, and a final `late`.
func clientModelLines(c KCase, run *clientRun) []string {
	bl := maxDatagram(c)
	lines := []string{fmt.Sprintf("cli new %d %d %s", c.Seq0, bl, b01(!c.CloseFail))}
	for _, op := range c.Ops {
		pw := make([]string, len(op.Plans))
		for i, p := range op.Plans {
			pw[i] = planWord(p)
		}
		lines = append(lines, strings.TrimSpace("cli plans "+strings.Join(pw, " ")))
		iw := make([]string, len(op.Pre))
		for i, it := range op.Pre {
			iw[i] = planWord(simkernel.Plan{Items: []simkernel.Item{it}})[3:]
		}
		lines = append(lines, strings.TrimSpace("cli enqueue "+strings.Join(iw, " ")))
		var l string
		switch op.K {
		case "getstatus", "getrules", "deleterules", "wait", "close", "receive":
			l = op.K
		case "getstatusasync":
			l = "getstatusasync " + b01(op.B)
		case "deleterule", "addrule":
			l = op.K + " " + hexOrDash(op.Rule)
		case "setpid":
			l = fmt.Sprintf("setpid %d %d", run.Pid, op.WM)
		case "setratelimit", "setbackloglimit":
			l = fmt.Sprintf("%s %d %d", op.K, op.V, op.WM)
		case "setfailure":
			l = fmt.Sprintf("%s %d %d", op.K, uint32(failureMode(op)), op.WM)
		case "setenabled":
			l = fmt.Sprintf("setenabled %s %d", b01(op.B), op.WM)
		case "setimmutable":
			l = fmt.Sprintf("setimmutable %d", op.WM)
		case "setbacklogwaittime":
			l = fmt.Sprintf("setbacklogwaittime %d %d", op.W, op.WM)
		default:
			l = "unknown"
		}
		lines = append(lines, "cli "+l)
	}
	return append(lines, "cli late")
}

// stripPending removes the pending= field when the implementation's could not be read.
func stripPending(s string) string {
	f := strings.Fields(s)
	out := f[:0]
	for _, w := range f {
		if !strings.HasPrefix(w, "pending=") {
			out = append(out, w)
		}
	}
	return strings.Join(out, " ")
}

// ---- running one case -------------------------------------------------------------------

func hexBytes(h string) []byte {
	b, err := hex.DecodeString(h)
	if err != nil {
		panic(err)
	}
	return b
}

// runClientCase executes one case on implementation and model and returns the violation found, if any.
func runClientCase(ctx *Ctx, m *common.Model, c KCase, idx int) *common.Violation {
	switch c.Kind {
	case "history":
		return runHistoryCase(ctx, m, c, idx)
	case "fromwire":
		return runFromWireCase(ctx, m, c, idx)
	case "perr":
		return runPerrCase(ctx, m, c, idx)
	case "consts":
		return runConstsCase(ctx, c, idx)
	case "concclose":
		return runConcCloseCase(ctx, c, idx)
	case "echo":
		return runEchoCase(ctx, m, c, idx)
	case "exactfit":
		return runExactFitCase(ctx, c, idx)
	case "tail":
		return runTailCase(ctx, c, idx)
	case "fdzero":
		return runFdZeroCase(ctx, c, idx)
	case "seqwrap":
		return runSeqWrapCase(ctx, c, idx)
	case "spoof":
		return runSpoofCase(ctx, c, idx)
	case "spoofoverrun":
		return runSpoofOverrunCase(ctx, c, idx)
	case "concsend":
		return runConcSendCase(ctx, c, idx)
	case "concecho":
		return runConcEchoCase(ctx, c, idx)
	}
	return &common.Violation{Kind: "correspondence", Clause: "harness: unknown case kind " + c.Kind, Input: c, Case: idx}
}

// ownClause: a monitor clause names the property (or properties, "C08,C16: ...") whose statement it reads.
func ownClause(cl, prop string) bool {
	i := strings.IndexByte(cl, ':')
	if i < 0 {
		return false
	}
	for _, p := range strings.Split(cl[:i], ",") {
		if p == prop {
			return true
		}
	}
	return false
}

func runHistoryCase(ctx *Ctx, m *common.Model, c KCase, idx int) *common.Violation {
	run := runClientImpl(c)
	impl := make([]string, len(run.Obs))
	for i := range run.Obs {
		impl[i] = run.Obs[i].Line
	}
	nt, tags := historyNontrivial(c, run)
	ctx.Res.Count(c.canon(), nt)
	for _, t := range tags {
		ctx.Res.Hist(t)
	}
	ctx.Res.HistN("ops", len(c.Ops))
	for _, op := range c.Ops {
		ctx.Res.Hist("op_" + op.K)
	}
	implAll := strings.Join(impl, " | ") + " | late=" + run.Late
	sibling := ""
	if cl := historyMonitor(c, run); cl != "" {
		if ownClause(cl, ctx.Prop) {
			return &common.Violation{Kind: "monitor", Clause: cl, Input: c, Impl: implAll, Case: idx}
		}
		// the family shares one monitor: a failed clause of a sibling property is not a monitor
		// violation of this one (its own check reports it); it is kept as a note
		sibling = "on this history a clause of a sibling property fails: " + cl
		ctx.Res.Hist("sibling_clause_failed")
	}
	rep, err := m.Ask(clientModelLines(c, run))
	if err != nil {
		return &common.Violation{Kind: "correspondence", Clause: "model driver failed: " + err.Error(), Input: c, Case: idx}
	}
	for i, r := range rep {
		if strings.HasPrefix(r, "unmodelled:") || (i%3 != 0 && i < len(rep)-1 && r != "ok") || (i == 0 && r != "ok") || r == "bad-op" {
			if strings.HasPrefix(r, "unmodelled:") {
				ctx.Res.Unmodelled++
				return nil
			}
			return &common.Violation{Kind: "correspondence", Clause: fmt.Sprintf("model driver rejected line %d: %s", i, r), Input: c, Impl: implAll, Case: idx}
		}
	}
	var model []string
	for i := range c.Ops {
		model = append(model, rep[3+3*i])
	}
	late := rep[len(rep)-1]
	ctx.Res.ModelLines += len(model) + 1
	modelAll := strings.Join(model, " | ") + " | late=" + late
	for i := range model {
		a, b := impl[i], model[i]
		if run.Obs[i].Pending == "?" {
			a, b = stripPending(a), stripPending(b)
		}
		if a != b {
			return &common.Violation{Kind: "correspondence", Clause: fmt.Sprintf("Model.Client.step disagrees with AuditClient at op %d (%s)", i, c.Ops[i].K),
				Input: c, Impl: implAll, Model: modelAll, Case: idx, Note: sibling}
		}
	}
	if late != run.Late {
		return &common.Violation{Kind: "correspondence", Clause: "byte slices returned earlier, read after the history: model and implementation differ (aliasing of the receive buffer)",
			Input: c, Impl: implAll, Model: modelAll, Case: idx, Note: sibling}
	}
	return nil
}

// runFromWireCase: FromWireFormat into a reused (dirty) receiver, buffer placed inside a larger
// array so that a read beyond len(buf) would pick up sentinel bytes.
func runFromWireCase(ctx *Ctx, m *common.Model, c KCase, idx int) *common.Violation {
	guardEnter(c)
	defer guardLeave()
	prior, buf := hexBytes(c.Prior), hexBytes(c.Buf)
	var pw [11]uint32
	for i := range pw {
		pw[i] = binary.LittleEndian.Uint32(prior[4*i:])
	}
	st := statusFromWords(pw)
	arena := make([]byte, len(buf)+64)
	for i := range arena {
		arena[i] = 0xA5
	}
	copy(arena, buf)
	var err error
	var pmsg string
	func() {
		defer func() {
			if r := recover(); r != nil {
				pmsg = fmt.Sprint(r)
			}
		}()
		err = st.FromWireFormat(arena[: len(buf) : len(buf)+64])
	}()
	ctx.Res.Count(c.canon(), len(buf) != 44)
	ctx.Res.Hist(fmt.Sprintf("fromwire_len_%s", lenBucket(len(buf))))
	var impl string
	switch {
	case pmsg != "":
		impl = "panic"
	case err != nil:
		impl = classifyErr(err)
	default:
		impl = wordsHex(statusWords(&st))
	}
	// monitor: the property's FromWireFormat clause, stated with fixed UAPI offsets
	if pmsg != "" {
		return &common.Violation{Kind: "monitor", Clause: "C16: FromWireFormat panicked: " + pmsg, Input: c, Impl: impl, Case: idx}
	}
	if len(buf) < 32 {
		if !errors.Is(err, io.ErrUnexpectedEOF) {
			return &common.Violation{Kind: "monitor", Clause: fmt.Sprintf("C16: FromWireFormat of %d bytes (< 32) did not return io.ErrUnexpectedEOF", len(buf)), Input: c, Impl: impl, Case: idx}
		}
	} else {
		if err != nil {
			return &common.Violation{Kind: "monitor", Clause: fmt.Sprintf("C16: FromWireFormat rejected a buffer of %d bytes (>= 32)", len(buf)), Input: c, Impl: impl, Case: idx}
		}
		img := make([]byte, 44)
		copy(img, buf)
		got := statusWords(&st)
		for i := 0; i < 11; i++ {
			if want := binary.LittleEndian.Uint32(img[4*i:]); got[i] != want {
				return &common.Violation{Kind: "monitor", Clause: fmt.Sprintf("C16: FromWireFormat(%d bytes): %s = %#x, the buffer (zero-filled beyond its end) has %#x at offset %d",
					len(buf), uapiStatusFields[i], got[i], want, 4*i), Input: c, Impl: impl, Case: idx}
			}
		}
	}
	rep, e := m.Ask1(fmt.Sprintf("cli fromwire %s %s", c.Prior, hexOrDash(c.Buf)))
	if e != nil {
		return &common.Violation{Kind: "correspondence", Clause: "model driver failed: " + e.Error(), Input: c, Case: idx}
	}
	ctx.Res.ModelLines++
	if rep != impl {
		return &common.Violation{Kind: "correspondence", Clause: "Model.Client.fromWire disagrees with AuditStatus.FromWireFormat", Input: c, Impl: impl, Model: rep, Case: idx}
	}
	return nil
}

func lenBucket(n int) string {
	switch {
	case n == 0:
		return "0"
	case n < 16:
		return "1-15"
	case n == 16:
		return "16"
	case n < 32:
		return "17-31"
	case n == 32:
		return "32"
	case n < 44:
		return "33-43"
	case n == 44:
		return "44"
	case n <= 64:
		return "45-64"
	}
	return "65+"
}

// runPerrCase: ParseNetlinkError on an arbitrary payload.
func runPerrCase(ctx *Ctx, m *common.Model, c KCase, idx int) *common.Violation {
	guardEnter(c)
	defer guardLeave()
	buf := hexBytes(c.Buf)
	arena := make([]byte, len(buf)+16)
	for i := range arena {
		arena[i] = 0xA5
	}
	copy(arena, buf)
	var err error
	var pmsg string
	func() {
		defer func() {
			if r := recover(); r != nil {
				pmsg = fmt.Sprint(r)
			}
		}()
		err = libaudit.ParseNetlinkError(arena[: len(buf) : len(buf)+16])
	}()
	ctx.Res.Count(c.canon(), len(buf) >= 4)
	ctx.Res.Hist("perr")
	impl := classifyErr(err)
	if pmsg != "" {
		return &common.Violation{Kind: "monitor", Clause: "C08: ParseNetlinkError panicked: " + pmsg, Input: c, Impl: "panic", Case: idx}
	}
	if len(buf) >= 4 {
		e := -int32(binary.LittleEndian.Uint32(buf))
		want := "nil"
		if e != 0 {
			want = "errno:" + strconv.FormatUint(uint64(uintptr(e)), 10)
		}
		if impl != want {
			return &common.Violation{Kind: "monitor", Clause: fmt.Sprintf("C08: ParseNetlinkError: payload carries errno %d, result is %s", e, impl), Input: c, Impl: impl, Case: idx}
		}
	} else if err == nil {
		return &common.Violation{Kind: "monitor", Clause: "C08: ParseNetlinkError accepted a payload shorter than an errno", Input: c, Impl: impl, Case: idx}
	}
	rep, e := m.Ask1("cli nl perr " + hexOrDash(c.Buf))
	if e != nil {
		return &common.Violation{Kind: "correspondence", Clause: "model driver failed: " + e.Error(), Input: c, Case: idx}
	}
	ctx.Res.ModelLines++
	if rep != impl {
		return &common.Violation{Kind: "correspondence", Clause: "Model.Netlink.parseNetlinkError disagrees with ParseNetlinkError", Input: c, Impl: impl, Model: rep, Case: idx}
	}
	return nil
}

// ---- the family ------------------------------------------------------------------------------

func clientFamily(ctx *Ctx) error {
	if os.Getenv("VERIF_DRIVER") == "" { // replay mode of ./check: use the driver of the tree we were started from
		if p := filepath.Join(ctx.Verif, "lean", ".lake", "build", "bin", "driver"); fileExists(p) {
			common.DriverPath = p
		}
	}
	m, err := common.StartModel()
	if err != nil {
		return err
	}
	defer m.Close()
	res := ctx.Res
	res.Rule = clientRule(ctx.Prop)
	res.Assumptions = append(res.Assumptions,
		"the simulated kernel (harness/internal/simkernel) stands for the kernel side of NETLINK_AUDIT: it numbers requests as NetlinkClient.Send does, reuses one receive buffer and calls the parser it is given on the raw bytes",
		"errors are compared as classes (nil | errno:N | err:eof | err), not texts; AddRule's \"rule exists\" is read as errno 17",
		"os.Getpid() is an input of SetPID; the 50 ms sleep after EAGAIN is not observed",
		"a request whose own sequence number is 0 (only after 2^32 sends on one client) is outside the C08 monitor: the kernel uses sequence 0 for unsolicited events; the model covers it and the correspondence still compares it")

	if ctx.Replay != "" {
		b, err := os.ReadFile(ctx.Replay)
		if err != nil {
			return err
		}
		var rpp struct {
			Input map[string]interface{} `json:"input"`
		}
		if json.Unmarshal(b, &rpp) == nil && replayClientProbe(rpp.Input) {
			return nil
		}
		var rp struct {
			Input KCase `json:"input"`
		}
		if err := json.Unmarshal(b, &rp); err != nil {
			return err
		}
		return replayClientCase(ctx, m, rp.Input)
	}
	runClientProbes(ctx)

	report := func(v *common.Violation, c KCase) {
		if v == nil {
			return
		}
		sc := shrinkClient(ctx, m, c, v)
		if v2 := runClientCaseQuiet(ctx, m, sc); v2 != nil && v2.Kind == v.Kind {
			v2.Case = v.Case
			v = v2
		}
		res.Violate(*v)
	}

	idx := 0
	for _, dir := range []string{"client", ctx.Prop} {
		for _, f := range ctx.CorpusFiles(dir) {
			b, err := os.ReadFile(f)
			if err != nil {
				return err
			}
			var c KCase
			if err := json.Unmarshal(b, &c); err != nil {
				return fmt.Errorf("%s: %w", f, err)
			}
			res.Hist("corpus")
			report(runClientCase(ctx, m, c, idx), c)
			idx++
		}
	}
	g := newClientGen(ctx)
	for _, c := range g.fixedCases() {
		if res.NumViolations() >= 5 {
			break
		}
		report(runClientCase(ctx, m, c, idx), c)
		idx++
	}
	n := g.randomCount()
	for i := 0; i < n && res.NumViolations() < 5; i++ {
		c := g.next()
		if i < 4 {
			res.Sample(c)
		}
		report(runClientCase(ctx, m, c, idx), c)
		idx++
	}
	return nil
}

func fileExists(p string) bool {
	_, err := os.Stat(p)
	return err == nil
}

func runClientCaseQuiet(ctx *Ctx, m *common.Model, c KCase) *common.Violation {
	tmp := &Ctx{Prop: ctx.Prop, Tier: ctx.Tier, Seed: ctx.Seed, Rng: ctx.Rng, Res: common.NewResult(ctx.Prop, ctx.Tier, ctx.Seed)}
	return runClientCase(tmp, m, c, 0)
}

func replayClientCase(ctx *Ctx, m *common.Model, c KCase) error {
	fmt.Printf("case kind=%s\n", c.Kind)
	if c.Kind == "history" {
		run := runClientImpl(c)
		rep, err := m.Ask(clientModelLines(c, run))
		if err != nil {
			return err
		}
		for i := range c.Ops {
			js, _ := json.Marshal(c.Ops[i])
			fmt.Printf("op %d %s\n  impl : %s\n  model: %s\n", i, js, run.Obs[i].Line, rep[3+3*i])
		}
		fmt.Printf("late impl : %s\nlate model: %s\n", run.Late, rep[len(rep)-1])
		fmt.Println("monitor:", historyMonitor(c, run))
		return nil
	}
	v := runClientCaseQuiet(ctx, m, c)
	if v == nil {
		fmt.Println("no violation on this tree")
		return nil
	}
	fmt.Printf("kind=%s clause=%s\n impl : %s\n model: %s\n", v.Kind, v.Clause, v.Impl, v.Model)
	return nil
}

// shrinkClient removes operations and plan items while the case still fails the same way.
func shrinkClient(ctx *Ctx, m *common.Model, c KCase, v *common.Violation) KCase {
	if c.Kind != "history" {
		return c
	}
	prop := func(cl string) string {
		if len(cl) >= 3 {
			return cl[:3]
		}
		return cl
	}
	fails := func(x KCase) bool {
		v2 := runClientCaseQuiet(ctx, m, x)
		return v2 != nil && v2.Kind == v.Kind && (v.Kind != "monitor" || prop(v2.Clause) == prop(v.Clause))
	}
	hasEagain := func(x KCase) bool { return strings.Contains(x.canon(), `"eagain"`) }
	budget := 400
	if hasEagain(c) {
		budget = 60
	}
	// histories in which real time passes (pauses, slow receive calls) are re-run for at most half a minute
	deadline := time.Now().Add(30 * time.Second)
	inTime := fails
	fails = func(x KCase) bool {
		if time.Now().After(deadline) {
			budget = 0
			return false
		}
		return inTime(x)
	}
	for changed := true; changed && budget > 0; {
		changed = false
		for i := 0; i < len(c.Ops) && budget > 0; i++ {
			x := c
			x.Ops = append(append([]KOp{}, c.Ops[:i]...), c.Ops[i+1:]...)
			budget--
			if fails(x) {
				c, changed = x, true
				i--
			}
		}
		for i := 0; i < len(c.Ops) && budget > 0; i++ {
			for p := 0; p < len(c.Ops[i].Plans) && budget > 0; p++ {
				for k := 0; k < len(c.Ops[i].Plans[p].Items) && budget > 0; k++ {
					x := cloneCase(c)
					its := x.Ops[i].Plans[p].Items
					x.Ops[i].Plans[p].Items = append(append([]simkernel.Item{}, its[:k]...), its[k+1:]...)
					budget--
					if fails(x) {
						c, changed = x, true
						k--
					}
				}
			}
		}
	}
	return c
}

func cloneCase(c KCase) KCase {
	b, _ := json.Marshal(c)
	var x KCase
	json.Unmarshal(b, &x)
	return x
}

func clientRule(prop string) string {
	base := "histories of AuditClient operations over the simulated kernel (response plans: sequence-0 events, EINTR/EAGAIN runs, hard failures, ACKs with any errno, wrong ACK types, foreign sequence numbers, short payloads, data messages, NLMSG_DONE, no messages) are run on the real AuditClient and on Model.Client.step; per-operation observations (return class, returned data, messages sent, Receive calls made, pending list, Close calls, queue left) and a late re-read of every returned byte slice are compared, and the property monitor is evaluated on the real client's observations. "
	switch prop {
	case "C08":
		return base + "Non-trivial = the history contains a waited-for request whose reply is preceded by noise (events or transient failures) or is not a plain success (errno, wrong type, foreign sequence, short payload, failure) or carries data; distinct by hash of the canonical case."
	case "C16":
		return base + "Plus FromWireFormat on every length 0..80 into a dirty receiver inside a sentinel arena, and the exported constants against UAPI numbers. Non-trivial = a setter with a non-zero argument or NoWait mode, a status reply that is not exactly 44 bytes, or a FromWireFormat buffer whose length is not 44; distinct by hash."
	case "C17":
		return base + "Plus concurrent Close stress. Non-trivial = the history has a NoWait request followed by WaitForPendingACKs with an error or a second wait, a repeated Close, a send failure, or returned rule data re-read after later receives; distinct by hash."
	case "C18":
		return base + "Plus real sockets: NETLINK_ROUTE echo of a rejected request compared with Model.Netlink.serialize/NL.send, datagrams of every length 1..64 from a second NETLINK_USERSOCK socket (unicast and multicast) that Receive must reject, N goroutines x M Sends on one client; ParseNetlinkError on arbitrary payloads; AuditClient.Receive over the simulator for every datagram length 0..64. Non-trivial = every such case except an empty history; distinct by hash."
	}
	return base
}
