package main

// UAPI numbers transcribed from include/uapi/linux/audit.h (independent of the library's constants).

var uapiFields = map[string]uint32{
	"a0":           200, // AUDIT_ARG0
	"a1":           201, // AUDIT_ARG1
	"a2":           202, // AUDIT_ARG2
	"a3":           203, // AUDIT_ARG3
	"arch":         11,  // AUDIT_ARCH
	"auid":         9,   // AUDIT_LOGINUID
	"devmajor":     100, // AUDIT_DEVMAJOR
	"devminor":     101, // AUDIT_DEVMINOR
	"dir":          107, // AUDIT_DIR
	"egid":         6,   // AUDIT_EGID
	"euid":         2,   // AUDIT_EUID
	"exe":          112, // AUDIT_EXE
	"exit":         103, // AUDIT_EXIT
	"filetype":     108, // AUDIT_FILETYPE
	"fsgid":        8,   // AUDIT_FSGID
	"fsuid":        4,   // AUDIT_FSUID
	"gid":          5,   // AUDIT_GID
	"inode":        102, // AUDIT_INODE
	"key":          210, // AUDIT_FILTERKEY
	"msgtype":      12,  // AUDIT_MSGTYPE
	"obj_gid":      110, // AUDIT_OBJ_GID
	"obj_lev_high": 23,  // AUDIT_OBJ_LEV_HIGH
	"obj_lev_low":  22,  // AUDIT_OBJ_LEV_LOW
	"obj_role":     20,  // AUDIT_OBJ_ROLE
	"obj_type":     21,  // AUDIT_OBJ_TYPE
	"obj_uid":      109, // AUDIT_OBJ_UID
	"obj_user":     19,  // AUDIT_OBJ_USER
	"path":         105, // AUDIT_WATCH
	"perm":         106, // AUDIT_PERM
	"pers":         10,  // AUDIT_PERS
	"pid":          0,   // AUDIT_PID
	"ppid":         18,  // AUDIT_PPID
	"saddr_fam":    113, // AUDIT_SADDR_FAM
	"sgid":         7,   // AUDIT_SGID
	"subj_clr":     17,  // AUDIT_SUBJ_CLR
	"subj_role":    14,  // AUDIT_SUBJ_ROLE
	"subj_sen":     16,  // AUDIT_SUBJ_SEN
	"subj_type":    15,  // AUDIT_SUBJ_TYPE
	"subj_user":    13,  // AUDIT_SUBJ_USER
	"success":      104, // AUDIT_SUCCESS
	"suid":         3,   // AUDIT_SUID
	"uid":          1,   // AUDIT_UID
}

var uapiOps = map[string]uint32{
	"!=": 0x30000000, // AUDIT_NOT_EQUAL
	"&":  0x8000000,  // AUDIT_BIT_MASK
	"&=": 0x48000000, // AUDIT_BIT_TEST
	"<":  0x10000000, // AUDIT_LESS_THAN
	"<=": 0x50000000, // AUDIT_LESS_THAN_OR_EQUAL
	"=":  0x40000000, // AUDIT_EQUAL
	">":  0x20000000, // AUDIT_GREATER_THAN
	">=": 0x60000000, // AUDIT_GREATER_THAN_OR_EQUAL
}

var uapiLists = map[string]uint32{
	"exclude": 5,
	"exit":    4,
	"task":    1,
	"user":    0,
}

var uapiActions = map[string]uint32{
	"always": 2,
	"never":  0,
}

var uapiCompare = map[string]uint32{
	"UID_TO_OBJ_UID":   1,
	"GID_TO_OBJ_GID":   2,
	"EUID_TO_OBJ_UID":  3,
	"EGID_TO_OBJ_GID":  4,
	"AUID_TO_OBJ_UID":  5,
	"SUID_TO_OBJ_UID":  6,
	"SGID_TO_OBJ_GID":  7,
	"FSUID_TO_OBJ_UID": 8,
	"FSGID_TO_OBJ_GID": 9,
	"UID_TO_AUID":      10,
	"UID_TO_EUID":      11,
	"UID_TO_FSUID":     12,
	"UID_TO_SUID":      13,
	"AUID_TO_FSUID":    14,
	"AUID_TO_SUID":     15,
	"AUID_TO_EUID":     16,
	"EUID_TO_SUID":     17,
	"EUID_TO_FSUID":    18,
	"SUID_TO_FSUID":    19,
	"GID_TO_EGID":      20,
	"GID_TO_FSGID":     21,
	"GID_TO_SGID":      22,
	"EGID_TO_FSGID":    23,
	"EGID_TO_SGID":     24,
	"SGID_TO_FSGID":    25,
}

const uapiFieldCompare = 111
