package main

import "strings"

// c05EdgeRecords: degenerate values of every decoder; run under every record type that selects one
// (quick and thorough). Data()/Tags()/ToMapStr() must fail cleanly on them, never panic.
var c05EdgeRecords = []string{
	"saddr=0100", "saddr=01000000", "saddr=0100" + strings.Repeat("00", 108), "saddr=010000" + "2F746D702F78", "saddr=0200", "saddr=0A00", "saddr=", "saddr=01", "saddr=0", "saddr=010",
	"saddr=0100ZZ", "saddr=02000050", "saddr=020000500102", "saddr=0A0000500000", "saddr=0A00005000000000" + strings.Repeat("0", 24), "saddr=0A00005000000000" + strings.Repeat("0", 30),
	"saddr=1000", "saddr=FFFF", "argc=1 a0=00", "argc=1 a0=", `argc=1 a0=""`, "argc=2 a0=0000 a1=00", "argc=0", "argc=-1", "argc=1", "argc=99999999999999999999",
	"argc=11 a0=1 a1=1 a2=1 a3=1 a4=1 a5=1 a6=1 a7=1 a8=1 a9=1 a10=00",
	"proctitle=00", "proctitle=0000", "proctitle=", "cmd=00", "data=00", "cwd=00", "name=00", "exe=00", "key=00", "key=01", "key=0101", "key=6101", "key=0161", "key=65786563013634626974", "key=(null)",
	"arch=0 syscall=0", "arch= syscall=", "arch=c000003e syscall=99999", "arch=zz syscall=1", "sig=0", "sig=999", "sig=-1", "exit=-0", "exit=-99999", "exit=-9223372036854775808", "auid=-1 ses=-1",
	"subj=", "subj=:", "subj=::::::::", "obj=a:b", "msg=", "msg=''", "msg='", "msg='msg='msg='a=b'''", "res=", "success=",
}
