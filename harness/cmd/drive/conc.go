package main

// Conc family: C11 (Reassembler is safe under concurrent Push, Maintain and Close).
//
// Part 1 (this file): a CONTROLLED SCHEDULER over the library's yield hooks
// (libaudit.VerifYield, build tag verif). Worker goroutines run short programs of
// PushMessage/Maintain/Close against one real Reassembler; Stream callbacks may
// re-enter it as the program-spec says. Exactly one goroutine runs at a time:
// VerifYield hands control back to the scheduler and blocks; the scheduler resumes
// the goroutine the schedule names. One scheduler pick = the real code between two
// consecutive yield points of that goroutine = one `step` of Model.ReasmConc.
// All interleavings of a system are enumerated by depth-first search with
// stateless re-execution; each complete schedule is (a) judged by the property
// monitor, which looks only at calls, returns, callbacks and hook positions of
// the real code, and (b) compared with the model's `conc run` on the same schedule.
//
// Part 2 (conc_stress.go): uncontrolled stress runs, in a race-detector child.

import (
	"encoding/json"
	"fmt"
	"math/rand"
	"os"
	"path/filepath"
	"sort"
	"strconv"
	"strings"
	"sync"
	"time"

	libaudit "github.com/elastic/go-libaudit/v2"
	"github.com/elastic/go-libaudit/v2/auparse"

	"verifharness/internal/common"
)

func init() {
	families["C11"] = concFamily
}

// ---- case type ---------------------------------------------------------------------

// COp is one call: k = "p" PushMessage(id,seq,typ) | "m" Maintain | "c" Close.
type COp struct {
	K   string `json:"k"`
	ID  int    `json:"id,omitempty"`
	Seq uint32 `json:"seq,omitempty"`
	Typ uint16 `json:"typ,omitempty"`
}

// CThread is one goroutine: its main program and the scripts run by its k-th
// Stream callback (k counts every callback made on that goroutine from 0,
// ReassemblyComplete and EventsLost alike, all nesting levels together).
type CThread struct {
	Main []COp         `json:"main"`
	Cbs  map[int][]COp `json:"cbs,omitempty"`
}

// CSys is a system: one Reassembler and the goroutines using it. Prefix is a
// forced initial schedule segment (set-up); enumeration branches only after it.
type CSys struct {
	Name      string    `json:"name,omitempty"`
	Max       int       `json:"max_in_flight"`
	TimeoutNs int64     `json:"timeout_ns"`
	Threads   []CThread `json:"threads"`
	Prefix    []int     `json:"prefix,omitempty"`
}

// CCase is what corpus files and replays hold: a system and one complete
// schedule (Kind "schedule"), a system to enumerate (Kind "system"), or the
// parameters of an uncontrolled stress run (Kind "stress").
type CCase struct {
	Kind   string     `json:"kind"`
	Sys    CSys       `json:"system"`
	Sched  []int      `json:"schedule,omitempty"`
	Stress *StressCfg `json:"stress,omitempty"`
}

func opsText(ops []COp) string {
	if len(ops) == 0 {
		return "-"
	}
	parts := make([]string, len(ops))
	for i, o := range ops {
		switch o.K {
		case "p":
			parts[i] = fmt.Sprintf("p%d:%d:%d", o.ID, o.Seq, o.Typ)
		default:
			parts[i] = o.K
		}
	}
	return strings.Join(parts, ",")
}

func (t CThread) text() string {
	s := opsText(t.Main)
	ks := make([]int, 0, len(t.Cbs))
	for k := range t.Cbs {
		ks = append(ks, k)
	}
	sort.Ints(ks)
	for _, k := range ks {
		s += fmt.Sprintf("/%d=%s", k, opsText(t.Cbs[k]))
	}
	return s
}

// specText is the program-spec handed to the model (see lean/LA/Drv/Conc.lean).
func (s CSys) specText() string {
	parts := make([]string, len(s.Threads))
	for i, t := range s.Threads {
		parts[i] = t.text()
	}
	return fmt.Sprintf("%d %d %s", s.Max, s.TimeoutNs, strings.Join(parts, " "))
}

func intsText(xs []int) string {
	if len(xs) == 0 {
		return "-"
	}
	p := make([]string, len(xs))
	for i, x := range xs {
		if x < 0 {
			p[i] = "x"
		} else {
			p[i] = strconv.Itoa(x)
		}
	}
	return strings.Join(p, ",")
}

func (s CSys) modelLine(sched []int) string {
	return "conc run " + s.specText() + " | " + intsText(sched)
}

func (s CSys) valid() error {
	if len(s.Threads) == 0 {
		return fmt.Errorf("no threads")
	}
	seen := map[int]bool{}
	chk := func(ops []COp) error {
		for _, o := range ops {
			switch o.K {
			case "p":
				if seen[o.ID] {
					return fmt.Errorf("message id %d used twice", o.ID)
				}
				seen[o.ID] = true
			case "m", "c":
			default:
				return fmt.Errorf("unknown op %q", o.K)
			}
		}
		return nil
	}
	for _, t := range s.Threads {
		if err := chk(t.Main); err != nil {
			return err
		}
		for _, ops := range t.Cbs {
			if err := chk(ops); err != nil {
				return err
			}
		}
	}
	return nil
}

// ---- one controlled execution -------------------------------------------------------

// cEvent is one entry of the execution log (logical time = index).
type cEvent struct {
	Tid  int
	Kind string // call | ret | cb | lost | yield | resume | done
	Op   string // p | m | c (call, ret)
	ID   int    // message id (call/ret of p)
	Err  bool   // ret of m, c
	IDs  []int  // cb
	Seqs []uint32
	Typs []uint16
	N    int // lost count; yield/resume: the point
}

type cObs struct {
	Sched    []int
	Pts      []int // per pick: point reached by the picked goroutine (0: finished)
	Start    []int
	End      []int
	Rets     [][]string
	Cbs      []string
	Events   []cEvent
	Panic    string
	Deadlock string
	NonDet   string
}

// line renders the observation in the model's reply format.
func (o *cObs) line() string {
	rets := make([]string, len(o.Rets))
	for i, r := range o.Rets {
		if len(r) == 0 {
			rets[i] = "-"
		} else {
			rets[i] = strings.Join(r, ",")
		}
	}
	cbs := "-"
	if len(o.Cbs) > 0 {
		cbs = strings.Join(o.Cbs, ";")
	}
	return fmt.Sprintf("start=%s pts=%s ret=%s cb=%s end=%s", intsText(o.Start), intsText(o.Pts), strings.Join(rets, "/"), cbs, intsText(o.End))
}

type cWorker struct {
	resume  chan struct{}
	point   int
	done    bool
	started bool
	cbCount int
}

type cExec struct {
	sys     CSys
	r       *libaudit.Reassembler
	workers []*cWorker
	cur     int
	back    chan int // 1: yielded, 2: finished
	obs     *cObs
	ids     map[*auparse.AuditMessage]int
	dead    bool
}

// curExec is the execution the yield hook reports to. Only one controlled
// execution exists at a time and only one of its goroutines runs at a time.
var curExec *cExec

func concYield(point int) {
	e := curExec
	if e == nil || e.dead {
		// a goroutine leaked by an execution that was abandoned by the watchdog
		select {}
	}
	w := e.workers[e.cur]
	w.point = point
	e.obs.Events = append(e.obs.Events, cEvent{Tid: e.cur, Kind: "yield", N: point})
	e.back <- 1
	<-w.resume
	e.obs.Events = append(e.obs.Events, cEvent{Tid: e.cur, Kind: "resume", N: point})
}

type cStream struct{ e *cExec }

func (s cStream) ReassemblyComplete(msgs []*auparse.AuditMessage) {
	e := s.e
	i := e.cur
	ev := cEvent{Tid: i, Kind: "cb"}
	parts := make([]string, len(msgs))
	for k, m := range msgs {
		id, ok := e.ids[m]
		if !ok {
			id = -1
		}
		ev.IDs = append(ev.IDs, id)
		ev.Seqs = append(ev.Seqs, m.Sequence)
		ev.Typs = append(ev.Typs, uint16(m.RecordType))
		parts[k] = strconv.Itoa(id)
	}
	e.obs.Events = append(e.obs.Events, ev)
	e.obs.Cbs = append(e.obs.Cbs, fmt.Sprintf("%d:g:%s", i, strings.Join(parts, ",")))
	e.reenter(i)
}

func (s cStream) EventsLost(n int) {
	e := s.e
	i := e.cur
	e.obs.Events = append(e.obs.Events, cEvent{Tid: i, Kind: "lost", N: n})
	e.obs.Cbs = append(e.obs.Cbs, fmt.Sprintf("%d:lost:%d", i, n))
	e.reenter(i)
}

func (e *cExec) reenter(i int) {
	w := e.workers[i]
	k := w.cbCount
	w.cbCount++
	if ops, ok := e.sys.Threads[i].Cbs[k]; ok {
		e.runOps(i, ops)
	}
}

func (e *cExec) runOps(i int, ops []COp) {
	for _, op := range ops {
		switch op.K {
		case "p":
			m := &auparse.AuditMessage{RecordType: auparse.AuditMessageType(op.Typ), Sequence: op.Seq}
			e.ids[m] = op.ID
			e.obs.Events = append(e.obs.Events, cEvent{Tid: i, Kind: "call", Op: "p", ID: op.ID, Seqs: []uint32{op.Seq}, Typs: []uint16{op.Typ}})
			e.r.PushMessage(m)
			e.obs.Events = append(e.obs.Events, cEvent{Tid: i, Kind: "ret", Op: "p", ID: op.ID})
			e.obs.Rets[i] = append(e.obs.Rets[i], "P")
		case "m":
			e.obs.Events = append(e.obs.Events, cEvent{Tid: i, Kind: "call", Op: "m"})
			err := e.r.Maintain()
			e.obs.Events = append(e.obs.Events, cEvent{Tid: i, Kind: "ret", Op: "m", Err: err != nil})
			if err != nil {
				e.obs.Rets[i] = append(e.obs.Rets[i], "Me")
			} else {
				e.obs.Rets[i] = append(e.obs.Rets[i], "M")
			}
		case "c":
			e.obs.Events = append(e.obs.Events, cEvent{Tid: i, Kind: "call", Op: "c"})
			err := e.r.Close()
			e.obs.Events = append(e.obs.Events, cEvent{Tid: i, Kind: "ret", Op: "c", Err: err != nil})
			if err != nil {
				e.obs.Rets[i] = append(e.obs.Rets[i], "Ce")
			} else {
				e.obs.Rets[i] = append(e.obs.Rets[i], "C")
			}
		}
	}
}

func (e *cExec) worker(i int) {
	defer func() {
		if r := recover(); r != nil {
			e.obs.Panic = fmt.Sprintf("goroutine %d: %v", i, r)
		}
		e.workers[i].done = true
		e.workers[i].point = 0
		e.obs.Events = append(e.obs.Events, cEvent{Tid: i, Kind: "done"})
		e.back <- 2
	}()
	e.runOps(i, e.sys.Threads[i].Main)
}

var concWatchdog = 10 * time.Second

// wait blocks until the running goroutine yields or finishes; false = watchdog.
func (e *cExec) wait(timer *time.Timer) bool {
	timer.Reset(concWatchdog) // go 1.23 timer semantics (go.mod): Stop/Reset leave no stale value, never drain
	select {
	case <-e.back:
		timer.Stop()
		return true
	case <-timer.C:
		return false
	}
}

// runControlled executes the system once. choose picks the next goroutine among
// the unfinished ones (it is the schedule). The initial phase lets every
// goroutine run up to its first yield point; nothing shared happens there.
func runControlled(sys CSys, choose func(enabled []int) int) *cObs {
	obs := &cObs{Rets: make([][]string, len(sys.Threads))}
	e := &cExec{sys: sys, back: make(chan int), obs: obs, ids: map[*auparse.AuditMessage]int{}}
	r, err := libaudit.NewReassembler(sys.Max, time.Duration(sys.TimeoutNs), cStream{e})
	if err != nil {
		obs.Panic = "constructor: " + err.Error()
		return obs
	}
	e.r = r
	curExec = e
	libaudit.VerifYield = concYield
	defer func() { libaudit.VerifYield = nil; curExec = nil }()
	timer := time.NewTimer(time.Hour)
	timer.Stop()
	for range sys.Threads {
		e.workers = append(e.workers, &cWorker{resume: make(chan struct{})})
	}
	for i := range sys.Threads {
		e.cur = i
		go e.worker(i)
		if !e.wait(timer) {
			e.dead = true
			obs.Deadlock = fmt.Sprintf("goroutine %d did not reach its first yield point within %v", i, concWatchdog)
			return obs
		}
		obs.Start = append(obs.Start, e.workers[i].point)
	}
	for obs.Panic == "" {
		var enabled []int
		for i, w := range e.workers {
			if !w.done {
				enabled = append(enabled, i)
			}
		}
		if len(enabled) == 0 {
			break
		}
		i := choose(enabled)
		if i < 0 {
			obs.NonDet = "schedule does not fit the execution"
			break
		}
		e.cur = i
		from := e.workers[i].point
		e.workers[i].resume <- struct{}{}
		if !e.wait(timer) {
			e.dead = true
			obs.Sched = append(obs.Sched, i)
			obs.Pts = append(obs.Pts, -1)
			obs.Deadlock = fmt.Sprintf("goroutine %d, resumed at yield point %d, neither reached another yield point nor returned within %v: it is blocked (deadlock, or a callback / yield point inside a locked region)", i, from, concWatchdog)
			return obs
		}
		obs.Sched = append(obs.Sched, i)
		obs.Pts = append(obs.Pts, e.workers[i].point)
	}
	for _, w := range e.workers {
		obs.End = append(obs.End, w.point)
	}
	if obs.Panic != "" {
		e.dead = true // other goroutines stay parked for ever
	}
	return obs
}

// schedChooser follows a fixed schedule (skipping picks of finished goroutines,
// as the model does) and then runs the lowest unfinished goroutine.
func schedChooser(sched []int) func([]int) int {
	pos := 0
	return func(enabled []int) int {
		for pos < len(sched) {
			x := sched[pos]
			pos++
			for _, e := range enabled {
				if e == x {
					return x
				}
			}
		}
		return enabled[0]
	}
}

// ---- the property monitor -------------------------------------------------------------

// concMonitor evaluates C11 on what the real code did under one schedule. It
// uses only calls, returns, callbacks and (for the clause marked hook-level) the
// positions reported by the yield hooks. Returns the first failed clause.
func concMonitor(sys CSys, o *cObs) string {
	if o.Panic != "" {
		return "panic: " + o.Panic
	}
	if o.Deadlock != "" {
		return "no deadlock: " + o.Deadlock
	}
	type pushInfo struct {
		call, ret, putDone int
		seq                uint32
		typ                uint16
		delivered          int
	}
	pushes := map[int]*pushInfo{}
	type closeInfo struct {
		call, ret, clearStart int
		err                   bool
		tid                   int
	}
	var closes []*closeInfo
	openClose := map[int][]*closeInfo{} // per goroutine: stack of Close calls in progress
	openPush := map[int][]int{}         // per goroutine: stack of pushes in progress
	firstCloseCall := -1
	for t, ev := range o.Events {
		switch ev.Kind {
		case "call":
			switch ev.Op {
			case "p":
				pushes[ev.ID] = &pushInfo{call: t, ret: -1, putDone: -1, seq: ev.Seqs[0], typ: ev.Typs[0]}
				openPush[ev.Tid] = append(openPush[ev.Tid], ev.ID)
			case "c":
				c := &closeInfo{call: t, ret: -1, clearStart: -1, tid: ev.Tid}
				closes = append(closes, c)
				openClose[ev.Tid] = append(openClose[ev.Tid], c)
				if firstCloseCall < 0 {
					firstCloseCall = t
				}
			}
		case "ret":
			switch ev.Op {
			case "p":
				pushes[ev.ID].ret = t
				st := openPush[ev.Tid]
				openPush[ev.Tid] = st[:len(st)-1]
			case "c":
				st := openClose[ev.Tid]
				c := st[len(st)-1]
				openClose[ev.Tid] = st[:len(st)-1]
				c.ret, c.err = t, ev.Err
				if ev.Err {
					// the error means "already closed": some other Close call must have started
					other := false
					for _, d := range closes {
						if d != c && d.call < t {
							other = true
						}
					}
					if !other {
						return "exactly one Close succeeds: a Close call returned the closed error although no other Close had been called"
					}
				}
			case "m":
				if ev.Err && (firstCloseCall < 0 || firstCloseCall > t) {
					return "Maintain returned the closed error although Close had not been called"
				}
			}
		case "yield":
			if ev.N == 2 { // verifPushAfterPut: the innermost push in progress has completed Put
				st := openPush[ev.Tid]
				if len(st) > 0 {
					pushes[st[len(st)-1]].putDone = t
				}
			}
		case "resume":
			if ev.N == 8 { // verifCloseAfterCAS: Clear starts now
				st := openClose[ev.Tid]
				if len(st) > 0 {
					st[len(st)-1].clearStart = t
				}
			}
		case "cb":
			if len(ev.IDs) == 0 {
				return "single-sequence groups: an empty group was delivered"
			}
			for k, id := range ev.IDs {
				p := pushes[id]
				if id < 0 || p == nil {
					return "at most once: a message was delivered that had not been pushed"
				}
				if p.typ == tEOE {
					return fmt.Sprintf("at most once: EOE message id %d was delivered", id)
				}
				p.delivered++
				if p.delivered > 1 {
					return fmt.Sprintf("at most once: message id %d delivered twice", id)
				}
				if ev.Seqs[k] != ev.Seqs[0] || p.seq != ev.Seqs[0] {
					return fmt.Sprintf("single-sequence groups: a group mixes sequences %d and %d", ev.Seqs[0], ev.Seqs[k])
				}
			}
		case "lost":
			if ev.N <= 0 {
				return fmt.Sprintf("EventsLost(%d) is not positive", ev.N)
			}
		}
	}
	// quiescence: every goroutine has returned
	for i, p := range o.End {
		if p != 0 {
			return fmt.Sprintf("no deadlock: goroutine %d still at yield point %d at the end", i, p)
		}
	}
	nOK := 0
	var ok *closeInfo
	for _, c := range closes {
		if c.ret < 0 {
			return "no deadlock: a Close call never returned"
		}
		if !c.err {
			nOK++
			if ok == nil {
				ok = c
			}
		}
	}
	if len(closes) > 0 && nOK != 1 {
		return fmt.Sprintf("exactly one Close succeeds: %d of %d Close calls returned nil", nOK, len(closes))
	}
	if ok != nil {
		ids := make([]int, 0, len(pushes))
		for id := range pushes {
			ids = append(ids, id)
		}
		sort.Ints(ids)
		for _, id := range ids {
			p := pushes[id]
			if p.typ == tEOE {
				continue
			}
			if p.ret >= 0 && p.ret < ok.call && p.delivered != 1 {
				return fmt.Sprintf("exactly once after quiescence: message id %d (push returned before Close was invoked) delivered %d times", id, p.delivered)
			}
			// hook-level strengthening: Put had completed before the successful Close began its Clear
			if p.putDone >= 0 && ok.clearStart >= 0 && p.putDone < ok.clearStart && p.delivered != 1 {
				return fmt.Sprintf("exactly once after quiescence (hook-level): message id %d (Put completed before the successful Close started Clear) delivered %d times", id, p.delivered)
			}
		}
	}
	return ""
}

// concNontrivial: some goroutine was preempted in the middle of a call (left at
// a yield point other than a method's first one while another goroutine ran).
func concNontrivial(o *cObs) (bool, []string) {
	var tags []string
	pre := false
	last := map[int]int{}
	for k, i := range o.Sched {
		if k > 0 && o.Sched[k-1] != i {
			p := last[o.Sched[k-1]]
			if p != 0 && p != 1 && p != 4 && p != 7 {
				pre = true
			}
		}
		last[i] = o.Pts[k]
	}
	if pre {
		tags = append(tags, "preempted_mid_call")
	}
	has := func(s string) bool {
		for _, c := range o.Cbs {
			if strings.Contains(c, s) {
				return true
			}
		}
		return false
	}
	if has(":g:") {
		tags = append(tags, "delivery")
	}
	if has(":lost:") {
		tags = append(tags, "events_lost")
	}
	depth, maxDepth := map[int]int{}, 0
	for _, ev := range o.Events {
		switch ev.Kind {
		case "call":
			depth[ev.Tid]++
			if depth[ev.Tid] > maxDepth {
				maxDepth = depth[ev.Tid]
			}
		case "ret":
			depth[ev.Tid]--
		}
	}
	if maxDepth > 1 {
		tags = append(tags, "reentrant_call")
	}
	return pre, tags
}

// ---- enumeration of all interleavings ---------------------------------------------------

type dfsFrame struct {
	enabled []int
	idx     int
	forced  bool // a pick of the system's set-up prefix: no alternatives
}

// explorer walks the schedule tree of one system depth-first; every call of next
// re-executes the system from scratch along the current branch.
type explorer struct {
	sys   CSys
	stack []dfsFrame
	done  bool
}

func sameInts(a, b []int) bool {
	if len(a) != len(b) {
		return false
	}
	for i := range a {
		if a[i] != b[i] {
			return false
		}
	}
	return true
}

func (x *explorer) next() *cObs {
	depth := 0
	nondet := ""
	prefix := x.sys.Prefix
	obs := runControlled(x.sys, func(enabled []int) int {
		d := depth
		depth++
		if d < len(x.stack) {
			f := x.stack[d]
			if !sameInts(f.enabled, enabled) {
				nondet = fmt.Sprintf("re-execution diverged at depth %d: enabled %v, before %v", d, enabled, f.enabled)
				return -1
			}
			return f.enabled[f.idx]
		}
		en := append([]int{}, enabled...)
		if d < len(prefix) { // set-up segment: forced while the named goroutine is still running
			for k, e := range en {
				if e == prefix[d] {
					x.stack = append(x.stack, dfsFrame{enabled: en, idx: k, forced: true})
					return e
				}
			}
		}
		x.stack = append(x.stack, dfsFrame{enabled: en, idx: 0})
		return en[0]
	})
	if nondet != "" {
		obs.NonDet = nondet
	}
	// backtrack to the deepest choice point with an untried alternative
	if depth < len(x.stack) {
		x.stack = x.stack[:depth]
	}
	for len(x.stack) > 0 {
		f := &x.stack[len(x.stack)-1]
		if !f.forced && f.idx+1 < len(f.enabled) {
			f.idx++
			break
		}
		x.stack = x.stack[:len(x.stack)-1]
	}
	if len(x.stack) == 0 {
		x.done = true
	}
	return obs
}

// ---- systems: hand-made (aimed at the corners) and generated ---------------------------------

const hourNs = int64(time.Hour)

func p(id int, seq uint32, typ uint16) COp { return COp{K: "p", ID: id, Seq: seq, Typ: typ} }

var opM, opC = COp{K: "m"}, COp{K: "c"}

func rep(i, n int) []int {
	out := make([]int, n)
	for k := range out {
		out[k] = i
	}
	return out
}

// concHandSystems are enumerated exhaustively on every run.
func concHandSystems() []CSys {
	return []CSys{
		{Name: "two-closes-and-a-push", Max: 4, TimeoutNs: hourNs, Threads: []CThread{
			{Main: []COp{opC}}, {Main: []COp{opC}}, {Main: []COp{p(1, 100, tSYSCALL)}}}},
		{Name: "close-races-close-with-buffered-events", Max: 4, TimeoutNs: hourNs, Prefix: rep(2, 6), Threads: []CThread{
			{Main: []COp{opC}}, {Main: []COp{opC, opM}},
			{Main: []COp{p(1, 100, tSYSCALL), p(2, 101, tPATH)}}}},
		// one CleanUp detaches two events (101 is complete but queued behind 100, whose EOE then
		// arrives); another goroutine's CleanUp runs while the first is still delivering
		{Name: "two-events-evicted-at-once-vs-push", Max: 4, TimeoutNs: hourNs, Prefix: rep(2, 6), Threads: []CThread{
			{Main: []COp{p(3, 100, tEOE)}},
			{Main: []COp{p(4, 102, 1100)}},
			{Main: []COp{p(1, 100, tSYSCALL), p(2, 101, tPROCTITLE)}}}},
		{Name: "two-events-evicted-at-once-vs-maintain-close", Max: 4, TimeoutNs: hourNs, Prefix: rep(2, 6), Threads: []CThread{
			{Main: []COp{p(3, 100, tEOE)}},
			{Main: []COp{opM, opC}},
			{Main: []COp{p(1, 100, tSYSCALL), p(2, 101, tPROCTITLE)}}}},
		// expired events (timeout -1h): Maintain and a push reap them concurrently
		{Name: "expired-events-maintain-vs-push", Max: 4, TimeoutNs: -hourNs, Threads: []CThread{
			{Main: []COp{p(1, 100, tSYSCALL), opM}},
			{Main: []COp{p(2, 101, tSYSCALL)}}}},
		// Maintain reaps another goroutine's expired event while Close wins the flag
		{Name: "expired-event-maintain-vs-close", Max: 4, TimeoutNs: -hourNs, Threads: []CThread{
			{Main: []COp{p(1, 100, tSYSCALL)}},
			{Main: []COp{opM}},
			{Main: []COp{opC}}}},
		{Name: "expired-events-three-pushers", Max: 4, TimeoutNs: -hourNs, Threads: []CThread{
			{Main: []COp{p(1, 100, tSYSCALL)}},
			{Main: []COp{p(2, 101, tSYSCALL)}},
			{Main: []COp{opM}}}},
		// callbacks re-enter: Close from inside ReassemblyComplete, push from inside the Close's flush
		{Name: "reentrant-close-from-callback", Max: 4, TimeoutNs: hourNs, Threads: []CThread{
			{Main: []COp{p(1, 100, 1100)}, Cbs: map[int][]COp{0: {opC}}},
			{Main: []COp{p(2, 101, tSYSCALL), opC}}}},
		{Name: "reentrant-push-from-close-flush", Max: 4, TimeoutNs: hourNs, Prefix: rep(2, 3), Threads: []CThread{
			{Main: []COp{opC}, Cbs: map[int][]COp{0: {p(3, 102, 1100), opM}}},
			{Main: []COp{p(2, 101, tSYSCALL), opM}},
			{Main: []COp{p(1, 100, tSYSCALL)}}}},
		// overflow eviction (maxInFlight 1) with a gap: EventsLost callbacks, re-entering from one
		{Name: "overflow-and-events-lost", Max: 1, TimeoutNs: hourNs, Threads: []CThread{
			{Main: []COp{p(1, 100, tSYSCALL), p(2, 103, tSYSCALL)}, Cbs: map[int][]COp{1: {opM}}},
			{Main: []COp{p(3, 105, tSYSCALL), opC}}}},
		{Name: "max-zero-every-push-evicts", Max: 0, TimeoutNs: hourNs, Threads: []CThread{
			{Main: []COp{p(1, 100, tSYSCALL)}, Cbs: map[int][]COp{0: {p(4, 100, tPATH)}}},
			{Main: []COp{p(2, 100, tPATH)}},
			{Main: []COp{opC}}}},
		{Name: "same-sequence-from-two-goroutines", Max: 4, TimeoutNs: hourNs, Threads: []CThread{
			{Main: []COp{p(1, 100, tSYSCALL), p(3, 100, tEOE)}},
			{Main: []COp{p(2, 100, tPATH), opC}}}},
	}
}

// genConcSys draws a random small system: 2-3 goroutines, 1-3 calls each,
// sequences from a 4-value alphabet, re-entrant scripts on some callbacks.
func genConcSys(rng *rand.Rand) CSys {
	s := CSys{}
	s.Max = []int{0, 1, 2, 4}[rng.Intn(4)]
	s.TimeoutNs = hourNs
	if rng.Intn(4) == 0 {
		s.TimeoutNs = -hourNs
	}
	id := 0
	seqs := []uint32{100, 101, 102, 104}
	if rng.Intn(5) == 0 {
		seqs = []uint32{0xFFFFFFFE, 0xFFFFFFFF, 0, 2} // across the roll-over
	}
	typs := []uint16{tSYSCALL, tSYSCALL, tPATH, tEOE, tPROCTITLE, 1100}
	genOp := func(allowClose bool) COp {
		switch x := rng.Intn(10); {
		case x < 6:
			id++
			return p(id, seqs[rng.Intn(len(seqs))], typs[rng.Intn(len(typs))])
		case x < 8 || !allowClose:
			return opM
		default:
			return opC
		}
	}
	nt := 2 + rng.Intn(2)
	budget := 5 + rng.Intn(2) // total calls, keeps the schedule tree small
	for i := 0; i < nt; i++ {
		t := CThread{}
		n := 1 + rng.Intn(3)
		if nt == 3 && n > 2 {
			n = 2
		}
		for k := 0; k < n && budget > 0; k++ {
			t.Main = append(t.Main, genOp(true))
			budget--
		}
		if len(t.Main) == 0 {
			t.Main = append(t.Main, genOp(true))
		}
		if rng.Intn(3) == 0 && budget > 0 {
			t.Cbs = map[int][]COp{rng.Intn(2): {genOp(true)}}
			budget--
		}
		s.Threads = append(s.Threads, t)
	}
	if rng.Intn(2) == 0 { // make sure a Close is there half of the time
		i := rng.Intn(nt)
		s.Threads[i].Main = append(s.Threads[i].Main, opC)
	}
	if rng.Intn(3) == 0 { // a set-up goroutine that fills the buffer first
		t := CThread{}
		n := 1 + rng.Intn(2)
		for k := 0; k < n; k++ {
			id++
			t.Main = append(t.Main, p(id, seqs[rng.Intn(len(seqs))], []uint16{tSYSCALL, tPATH, tPROCTITLE}[rng.Intn(3)]))
		}
		s.Threads = append(s.Threads, t)
		s.Prefix = rep(len(s.Threads)-1, 12)
	}
	return s
}

// ---- the family ---------------------------------------------------------------------------

type concRun struct {
	// corrBroken: model and implementation already disagreed in this run. The first
	// disagreements are recorded; exploration then goes on with the monitor alone,
	// looking for a schedule on which the real code violates the property itself.
	corrBroken  int
	monitorHits int
	ctx         *Ctx
	m           *common.Model
	idx         int
	pendSys     []CSys
	pendObs     []*cObs
	aborted     bool
	schedules   int
}

// judge evaluates the monitor on one execution and queues it for the model.
func (c *concRun) judge(sys CSys, o *cObs) *common.Violation {
	res := c.ctx.Res
	c.idx++
	c.schedules++
	if c.schedules == 200 || c.schedules == 5000 { // a couple of complete executions for the evidence
		res.Sample(map[string]interface{}{"system": sys, "schedule": intsText(o.Sched), "observation": o.line()})
	}
	canon := sys.specText() + " | " + intsText(o.Sched)
	nt, tags := concNontrivial(o)
	res.Count(canon, nt)
	for _, t := range tags {
		res.Hist(t)
	}
	res.HistN("steps", len(o.Sched))
	if o.NonDet != "" {
		return &common.Violation{Kind: "correspondence", Clause: "controlled execution is not deterministic: " + o.NonDet,
			Input: CCase{Kind: "schedule", Sys: sys, Sched: o.Sched}, Impl: o.line(), Case: c.idx}
	}
	if cl := concMonitor(sys, o); cl != "" {
		if o.Deadlock != "" || o.Panic != "" {
			c.aborted = true // goroutines of that execution are parked for ever; stop exploring
		}
		return &common.Violation{Kind: "monitor", Clause: cl, Input: CCase{Kind: "schedule", Sys: sys, Sched: o.Sched}, Impl: o.line(), Case: c.idx}
	}
	if c.corrBroken >= 2 {
		return nil
	}
	c.pendSys = append(c.pendSys, sys)
	c.pendObs = append(c.pendObs, o)
	if len(c.pendObs) >= 512 {
		c.flush()
	}
	return nil
}

// flush compares the queued executions with the model and records disagreements.
func (c *concRun) flush() {
	if len(c.pendObs) == 0 {
		return
	}
	lines := make([]string, len(c.pendObs))
	for i, o := range c.pendObs {
		lines[i] = c.pendSys[i].modelLine(o.Sched)
	}
	rep, err := c.m.Ask(lines)
	syss, obss := c.pendSys, c.pendObs
	c.pendSys, c.pendObs = nil, nil
	if err != nil {
		c.corrBroken = 2
		c.ctx.Res.Violate(common.Violation{Kind: "correspondence", Clause: "model driver failed: " + err.Error(), Input: CCase{Kind: "schedule", Sys: syss[0], Sched: obss[0].Sched}})
		return
	}
	for i, o := range obss {
		c.ctx.Res.ModelLines++
		if rep[i] != o.line() && c.corrBroken < 2 {
			c.corrBroken++
			c.ctx.Res.Violate(common.Violation{Kind: "correspondence",
				Clause: "Model.ReasmConc.run disagrees with the Reassembler under this schedule (yield points reached, return values or callback trace)",
				Input:  CCase{Kind: "schedule", Sys: syss[i], Sched: o.Sched}, Impl: o.line(), Model: rep[i], Case: c.idx})
		}
	}
}

// explore enumerates a system's interleavings (up to cap schedules; beyond the
// cap the rest of the budget is spent on randomly chosen schedules). It returns
// the first violation.
func (c *concRun) explore(sys CSys, cap int, rng *rand.Rand) *common.Violation {
	if err := sys.valid(); err != nil {
		return &common.Violation{Kind: "correspondence", Clause: "malformed system: " + err.Error(), Input: CCase{Kind: "system", Sys: sys}}
	}
	x := &explorer{sys: sys}
	n := 0
	for !x.done && n < cap && !c.aborted {
		o := x.next()
		n++
		if v := c.judge(sys, o); v != nil {
			return v
		}
	}
	if x.done {
		c.ctx.Res.Hist("systems_enumerated_exhaustively")
	} else if !c.aborted {
		c.ctx.Res.Hist("systems_cut_at_cap_then_sampled")
		for k := 0; k < cap/4 && !c.aborted; k++ {
			o := runControlled(sys, func(enabled []int) int {
				return enabled[rng.Intn(len(enabled))]
			})
			if v := c.judge(sys, o); v != nil {
				return v
			}
		}
	}
	return nil
}

// shrinkConc tries smaller systems (drop a goroutine, a call, a callback script)
// that still have a schedule failing with the same kind of violation.
func (c *concRun) shrinkConc(v *common.Violation) *common.Violation {
	cc, ok := v.Input.(CCase)
	if !ok || c.aborted || v.Kind != "monitor" {
		return v
	}
	fails := func(s CSys) *common.Violation {
		if s.valid() != nil {
			return nil
		}
		x := &explorer{sys: s}
		for n := 0; !x.done && n < 3000; n++ {
			o := x.next()
			if cl := concMonitor(s, o); cl != "" {
				if o.Deadlock != "" || o.Panic != "" {
					c.aborted = true
				}
				return &common.Violation{Kind: "monitor", Clause: cl, Input: CCase{Kind: "schedule", Sys: s, Sched: o.Sched}, Impl: o.line(), Case: v.Case}
			}
		}
		return nil
	}
	best := v
	sys := cc.Sys
	for changed := true; changed && !c.aborted; {
		changed = false
		var cands []CSys
		for i := range sys.Threads { // drop a goroutine (only when no prefix refers to indices)
			if len(sys.Prefix) == 0 && len(sys.Threads) > 1 {
				s := sys
				s.Threads = append(append([]CThread{}, sys.Threads[:i]...), sys.Threads[i+1:]...)
				cands = append(cands, s)
			}
			for k := range sys.Threads[i].Main { // drop a call
				s := sys
				s.Threads = append([]CThread{}, sys.Threads...)
				t := sys.Threads[i]
				t.Main = append(append([]COp{}, t.Main[:k]...), t.Main[k+1:]...)
				s.Threads[i] = t
				if i == len(sys.Threads)-1 && len(sys.Prefix) > 0 {
					continue
				}
				cands = append(cands, s)
			}
			for key := range sys.Threads[i].Cbs { // drop a callback script
				s := sys
				s.Threads = append([]CThread{}, sys.Threads...)
				t := sys.Threads[i]
				t.Cbs = map[int][]COp{}
				for k2, v2 := range sys.Threads[i].Cbs {
					if k2 != key {
						t.Cbs[k2] = v2
					}
				}
				s.Threads[i] = t
				cands = append(cands, s)
			}
		}
		for _, s := range cands {
			if v2 := fails(s); v2 != nil {
				best, sys, changed = v2, s, true
				break
			}
			if c.aborted {
				break
			}
		}
	}
	return best
}

func concFamily(ctx *Ctx) error {
	if out := os.Getenv("VERIF_C11_STRESS_CHILD"); out != "" {
		return concStressChild(ctx, out)
	}
	res := ctx.Res
	res.Rule = "a case is one complete interleaving (schedule over the yield hooks) of a system of 2-4 goroutines running 1-3 calls of PushMessage/Maintain/Close each (Stream callbacks re-enter per the program-spec) against one real Reassembler; every schedule of every system is enumerated depth-first (systems whose tree exceeds the per-system cap are cut and sampled at random); each is judged by the property monitor and compared with Model.ReasmConc.run on the same schedule (yield point reached by every pick, return values, global callback trace). Non-trivial = some goroutine was preempted in the middle of a call (between the atomic steps of one method); distinct by hash of system+schedule. Uncontrolled stress rounds (barrier Close, soak with re-entrant callbacks, race detector) are counted in the histogram, not as evaluations."
	res.Assumptions = append(res.Assumptions,
		"timeouts are +1h (never) or -1h (always elapsed), so clock reads do not influence the outcome and the model's clock parameters are all 0",
		"the granularity of interleaving is that of the yield hooks: Put, CleanUp, Clear (each entirely under the eventList mutex), the atomic load / CompareAndSwap of closed, each Stream callback; that nothing shared is touched elsewhere is the extracted lock discipline (LA.Gen.LockFacts, theorem C11_lock_facts_*) and the race detector run",
		"data races are outside the Lean model; they are looked for by the race-detector stress child and excluded structurally by the lock-discipline facts")

	if os.Getenv("VERIF_DRIVER") == "" { // `check --replay` does not pass it: use this tree's driver
		common.DriverPath = filepath.Join(ctx.Verif, "lean", ".lake", "build", "bin", "driver")
	}
	m, err := common.StartModel()
	if err != nil {
		return err
	}
	defer m.Close()
	run := &concRun{ctx: ctx, m: m}

	if ctx.Replay != "" {
		return concReplay(ctx, run)
	}

	// the race-detector stress child runs alongside the enumeration
	stress := startConcStress(ctx)

	// sizes the enumerated systems do not reach: hundreds of events in flight when Close is invoked (several
	// pushers, then Close from two goroutines): every message pushed before Close is delivered exactly once
	for _, n := range []int{255, 256, 257, 300, 1100} {
		if cl := concLargeClose(n); cl != "" {
			res.Violate(common.Violation{Kind: "monitor", Clause: cl, Input: map[string]int{"events_in_flight_at_close": n, "max_in_flight": 2 * n}})
		}
		res.Hist("large close")
	}

	report := func(v *common.Violation) {
		if v == nil {
			return
		}
		if v.Case == 0 {
			v.Case = run.idx
		}
		run.monitorHits++
		v = run.shrinkConc(v)
		if cc, ok := v.Input.(CCase); ok && cc.Kind == "schedule" && v.Model == "" {
			if ml, err := m.Ask1(cc.Sys.modelLine(cc.Sched)); err == nil {
				v.Model = ml // what the model does under the same schedule
			}
		}
		res.Violate(*v)
	}

	// corpus first
	for _, f := range ctx.CorpusFiles(ctx.Prop) {
		b, err := os.ReadFile(f)
		if err != nil {
			return err
		}
		var cc CCase
		if err := json.Unmarshal(b, &cc); err != nil {
			return fmt.Errorf("%s: %w", f, err)
		}
		res.Hist("corpus")
		switch cc.Kind {
		case "schedule":
			if err := cc.Sys.valid(); err != nil {
				return fmt.Errorf("%s: %w", f, err)
			}
			o := runControlled(cc.Sys, schedChooser(cc.Sched))
			report(run.judge(cc.Sys, o))
		case "system":
			report(run.explore(cc.Sys, ctx.N(3000, 100000), ctx.Rng))
		default:
			return fmt.Errorf("%s: unknown case kind %q", f, cc.Kind)
		}
	}

	perSys := ctx.N(600, 20000)
	total := ctx.N(30000, 1000000)
	hand := concHandSystems()
	for i, s := range hand {
		if run.monitorHits >= 3 || run.aborted {
			break
		}
		if i < 4 {
			res.Sample(CCase{Kind: "system", Sys: s})
		}
		before := run.schedules
		report(run.explore(s, ctx.N(3000, 300000), ctx.Rng))
		res.HistN("schedules_hand_systems", run.schedules-before)
		res.HistN("hand:"+s.Name, run.schedules-before)
	}
	gen := 0
	for run.schedules < total && run.monitorHits < 3 && !run.aborted {
		s := genConcSys(ctx.Rng)
		s.Name = fmt.Sprintf("gen-%d", gen)
		gen++
		if gen <= 2 {
			res.Sample(CCase{Kind: "system", Sys: s})
		}
		res.Hist(fmt.Sprintf("goroutines=%d", len(s.Threads)))
		res.Hist(fmt.Sprintf("max_in_flight=%d", s.Max))
		before := run.schedules
		report(run.explore(s, perSys, ctx.Rng))
		res.HistN("schedules_generated_systems", run.schedules-before)
	}
	run.flush()
	res.HistN("systems_generated", gen)
	res.HistN("systems_hand_made", len(hand))
	res.Note("controlled scheduler: %d complete schedules over %d systems", run.schedules, gen+len(hand))

	// collect the stress child (or run the stress in-process without the race detector)
	return finishConcStress(ctx, stress)
}

func concReplay(ctx *Ctx, run *concRun) error {
	b, err := os.ReadFile(ctx.Replay)
	if err != nil {
		return err
	}
	var rp struct {
		Input CCase `json:"input"`
	}
	if err := json.Unmarshal(b, &rp); err != nil {
		return err
	}
	cc := rp.Input
	switch cc.Kind {
	case "schedule":
		if err := cc.Sys.valid(); err != nil {
			return err
		}
		o := runControlled(cc.Sys, schedChooser(cc.Sched))
		ml, _ := run.m.Ask1(cc.Sys.modelLine(o.Sched))
		fmt.Println("system:  ", cc.Sys.specText())
		fmt.Println("schedule:", intsText(o.Sched))
		fmt.Println("impl:    ", o.line())
		fmt.Println("model:   ", ml)
		fmt.Println("monitor: ", concMonitor(cc.Sys, o))
	case "system":
		v := run.explore(cc.Sys, 20000, ctx.Rng)
		run.flush()
		if v == nil && len(ctx.Res.Violations) > 0 {
			v = &ctx.Res.Violations[0]
		}
		if v == nil {
			fmt.Println("no violation over", run.schedules, "schedules")
		} else {
			fmt.Printf("%s: %s\nimpl:  %s\nmodel: %s\n", v.Kind, v.Clause, v.Impl, v.Model)
		}
	case "stress":
		cfg := StressCfg{Seed: ctx.Seed, BarrierMs: 2000, SoakMs: 4000}
		if cc.Stress != nil {
			cfg = *cc.Stress
		}
		r := concStress(cfg)
		fmt.Printf("stress: %d barrier rounds, %d soak rounds, violations: %v\n", r.BarrierRounds, r.SoakRounds, r.Violations)
	default:
		return fmt.Errorf("unknown case kind %q", cc.Kind)
	}
	return nil
}

type countStream struct {
	mu    sync.Mutex
	count map[int]int
}

func (s *countStream) ReassemblyComplete(msgs []*auparse.AuditMessage) {
	s.mu.Lock()
	for _, m := range msgs {
		s.count[int(m.Sequence)]++
	}
	s.mu.Unlock()
}
func (s *countStream) EventsLost(int) {}

// concLargeClose: n incomplete events pushed by three goroutines, then Close from two goroutines.
func concLargeClose(n int) (clause string) {
	defer func() {
		if r := recover(); r != nil {
			clause = fmt.Sprintf("panic with %d events in flight at Close: %v", n, r)
		}
	}()
	st := &countStream{count: map[int]int{}}
	r, err := libaudit.NewReassembler(2*n, time.Hour, st)
	if err != nil {
		return "constructor: " + err.Error()
	}
	var wg sync.WaitGroup
	for g := 0; g < 3; g++ {
		wg.Add(1)
		go func(g int) {
			defer wg.Done()
			for i := g; i < n; i += 3 {
				r.PushMessage(&auparse.AuditMessage{RecordType: 1300, Sequence: uint32(1000 + i)})
			}
		}(g)
	}
	wg.Wait()
	errs := make([]error, 2)
	for g := 0; g < 2; g++ {
		wg.Add(1)
		go func(g int) { defer wg.Done(); errs[g] = r.Close() }(g)
	}
	wg.Wait()
	if (errs[0] == nil) == (errs[1] == nil) {
		return fmt.Sprintf("exactly one Close call succeeds: two concurrent Close calls returned %v and %v", errs[0], errs[1])
	}
	missing, dup := 0, 0
	for i := 0; i < n; i++ {
		switch c := st.count[1000+i]; {
		case c == 0:
			missing++
		case c > 1:
			dup++
		}
	}
	if missing > 0 || dup > 0 {
		return fmt.Sprintf("exactly once after quiescence: of %d messages pushed before Close was invoked, %d were never delivered and %d more than once", n, missing, dup)
	}
	return ""
}
