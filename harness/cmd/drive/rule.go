package main

// Rule family: C06 (byte-exact audit_rule_data), C07 (text round trip), C13 (no panic,
// bounded allocation, ok => structurally valid), C14 (flag parsing accounts for every token).

import (
	"bytes"
	"encoding/binary"
	"encoding/hex"
	"encoding/json"
	"fmt"
	"math/rand"
	"net"
	"os"
	"os/user"
	"path/filepath"
	"runtime"
	"sort"
	"strconv"
	"strings"
	"syscall"

	"github.com/kballard/go-shellquote"

	"github.com/elastic/go-libaudit/v2/auparse"
	"github.com/elastic/go-libaudit/v2/rule"
	"github.com/elastic/go-libaudit/v2/rule/flags"

	"verifharness/internal/common"
)

func init() {
	for _, p := range []string{"C06", "C07", "C13", "C14"} {
		families[p] = ruleFamily
	}
}

// ---- case ------------------------------------------------------------------------------

// Occ is one flag occurrence the generator wrote (its intent).
type Occ struct {
	Flag  string `json:"flag"`            // "a","A","F","C","S","k","p","w","D" or "" for a positional word
	Value string `json:"value,omitempty"` // the argument (for "" the word itself)
	Eq    bool   `json:"eq,omitempty"`    // written as -x=value
	// intent of an -F/-C: the parts it was assembled from
	LHS, Op, RHS string  `json:",omitempty"`
	Word         *uint32 `json:"word,omitempty"` // expected value word (nil = unknown / string field)
	Str          bool    `json:"str,omitempty"`  // string-valued field
}

// RCaseR is one rule-family case.
type RCaseR struct {
	Kind   string   `json:"kind"` // "line" (tokens -> Parse -> Build -> ToCommandLine), "bytes" (ToCommandLine), "struct" (Build)
	Tokens []string `json:"tokens,omitempty"`
	Occs   []Occ    `json:"occs,omitempty"`
	Valid  bool     `json:"valid,omitempty"` // the generator believes the line is a valid rule (C06: must be accepted)
	Hex    string   `json:"hex,omitempty"`   // kind bytes
	Spec   string   `json:"spec,omitempty"`  // kind struct
	Note   string   `json:"note,omitempty"`
	Flip   string   `json:"flip,omitempty"` // "dir" | "file": what <ruletmp>/flip is made into before the case runs
	// Raw, when set, is the line as given to flags.Parse (Tokens are what shellquote.Split makes of it): text as a rule
	// file holds it, with bytes around and between the arguments that a shell does not treat as separators
	Raw string `json:"raw,omitempty"`
}

// applyFlip makes <ruletmp>/flip a directory or a regular file: the same path name changes kind
// between cases of one run (a watch is encoded as dir= or path= by what the path is *now*).
func applyFlip(kind string) {
	if kind == "" || ruleTmp == "" {
		return
	}
	p := filepath.Join(ruleTmp, "flip")
	os.RemoveAll(p)
	if kind == "dir" {
		os.MkdirAll(p, 0o755)
	} else {
		os.WriteFile(p, []byte("x"), 0o644)
	}
}

func (c RCaseR) canon() string { b, _ := json.Marshal(c); return string(b) }

// ---- canonical rendering (same as LA/Drv/Rule.lean) ------------------------------------------

func hexList(l []string) string {
	p := make([]string, len(l))
	for i, s := range l {
		p[i] = common.HexS(s)
	}
	return strings.Join(p, ",")
}

func renderRule(r rule.Rule) string {
	switch v := r.(type) {
	case *rule.SyscallRule:
		fs := make([]string, len(v.Filters))
		for i, f := range v.Filters {
			fs[i] = fmt.Sprintf("%d.%s.%s.%s", f.Type, common.HexS(f.LHS), common.HexS(f.Comparator), common.HexS(f.RHS))
		}
		return fmt.Sprintf("S;%d;%s;%s;%s;%s;%s", v.Type, common.HexS(v.List), common.HexS(v.Action), strings.Join(fs, ","), hexList(v.Syscalls), hexList(v.Keys))
	case *rule.FileWatchRule:
		ps := ""
		for _, p := range v.Permissions {
			ps += strconv.Itoa(int(p))
		}
		return fmt.Sprintf("W;%s;%s;%s", common.HexS(v.Path), ps, hexList(v.Keys))
	case *rule.DeleteAllRule:
		return "D;" + hexList(v.Keys)
	}
	return "?"
}

func parseSpec(spec string) rule.Rule {
	un := func(s string) string { return string(common.UnHex(s)) }
	unl := func(s string) []string {
		if s == "" {
			return nil
		}
		var out []string
		for _, x := range strings.Split(s, ",") {
			out = append(out, un(x))
		}
		return out
	}
	p := strings.Split(spec, ";")
	switch p[0] {
	case "S":
		t, _ := strconv.Atoi(p[1])
		r := &rule.SyscallRule{Type: rule.Type(t), List: un(p[2]), Action: un(p[3]), Syscalls: unl(p[5]), Keys: unl(p[6])}
		if p[4] != "" {
			for _, f := range strings.Split(p[4], ",") {
				q := strings.Split(f, ".")
				ft, _ := strconv.Atoi(q[0])
				r.Filters = append(r.Filters, rule.FilterSpec{Type: rule.FilterType(ft), LHS: un(q[1]), Comparator: un(q[2]), RHS: un(q[3])})
			}
		}
		return r
	case "W":
		r := &rule.FileWatchRule{Type: rule.FileWatchRuleType, Path: un(p[1]), Keys: unl(p[3])}
		for _, c := range p[2] {
			r.Permissions = append(r.Permissions, rule.AccessType(c-'0'))
		}
		return r
	case "D":
		return &rule.DeleteAllRule{Type: rule.DeleteAllRuleType, Keys: unl(p[1])}
	}
	return nil
}

// ---- environment ---------------------------------------------------------------------------------

var ruleTmp string

func setupRuleTmp(verif string) {
	ruleTmp = filepath.Join(verif, ".work", "ruletmp")
	os.MkdirAll(filepath.Join(ruleTmp, "dir1", "sub"), 0o755)
	os.WriteFile(filepath.Join(ruleTmp, "file1"), []byte("x"), 0o644)
	os.WriteFile(filepath.Join(ruleTmp, "dir1", "f2"), []byte("x"), 0o644)
	// objects of other kinds at a watched path: a FIFO nobody writes to, a unix socket, symbolic links to a file, to a
	// directory and to nothing (the kind of a watch is decided by looking at the path, never by opening it)
	syscall.Mkfifo(filepath.Join(ruleTmp, "fifo1"), 0o600)
	if l, err := net.Listen("unix", filepath.Join(ruleTmp, "sock1")); err == nil {
		l.(*net.UnixListener).SetUnlinkOnClose(false)
		l.Close()
	}
	os.Symlink(filepath.Join(ruleTmp, "file1"), filepath.Join(ruleTmp, "ln-file"))
	os.Symlink(filepath.Join(ruleTmp, "dir1"), filepath.Join(ruleTmp, "ln-dir"))
	os.Symlink(filepath.Join(ruleTmp, "nowhere"), filepath.Join(ruleTmp, "ln-dangling"))
	// a link into a deeper directory, so that "<link>/../x" names one object to the operating system (x beside the link's
	// target) and another to a program that tidies the path as text (x beside the link): deep/file1 is a directory,
	// file1 a regular file
	os.MkdirAll(filepath.Join(ruleTmp, "deep", "inner"), 0o755)
	os.MkdirAll(filepath.Join(ruleTmp, "deep", "file1"), 0o755)
	os.Symlink(filepath.Join(ruleTmp, "deep", "inner"), filepath.Join(ruleTmp, "ln-deep"))
	// names that are not valid UTF-8 (legacy encodings), as a directory, inside such a directory, and as a file
	os.MkdirAll(filepath.Join(ruleTmp, "caf\xe9", "sub"), 0o755)
	os.WriteFile(filepath.Join(ruleTmp, "caf\xe9", "men\xfc.txt"), []byte("x"), 0o644)
	os.WriteFile(filepath.Join(ruleTmp, "f\xff\xfe"), []byte("x"), 0o644)
}

type ruleEnv struct {
	isDir  bool
	users  string
	groups string
}

var etcNamesCache = map[string][]string{}

// etcNames lists the account / group names of a passwd-format file that are not numbers.
func etcNames(path string) []string {
	if n, ok := etcNamesCache[path]; ok {
		return n
	}
	var out []string
	if b, err := os.ReadFile(path); err == nil {
		for _, l := range strings.Split(string(b), "\n") {
			f := strings.SplitN(l, ":", 2)
			if len(f) == 2 && f[0] != "" && !strings.HasPrefix(f[0], "#") {
				if _, err := strconv.ParseUint(f[0], 10, 64); err != nil {
					out = append(out, f[0])
				}
			}
		}
	}
	etcNamesCache[path] = out
	return out
}

func envFor(r rule.Rule) ruleEnv {
	e := ruleEnv{users: "-", groups: "-"}
	var us, gs []string
	switch v := r.(type) {
	case *rule.FileWatchRule:
		if fi, err := os.Stat(filepath.Clean(v.Path)); err == nil && fi.IsDir() {
			e.isDir = true
		}
	case *rule.SyscallRule:
		for _, f := range v.Filters {
			if u, err := user.Lookup(f.RHS); err == nil {
				if n, err := strconv.ParseUint(u.Uid, 10, 32); err == nil {
					us = append(us, fmt.Sprintf("%s:%d", common.HexS(f.RHS), n))
				}
			}
			if g, err := user.LookupGroup(f.RHS); err == nil {
				if n, err := strconv.ParseUint(g.Gid, 10, 32); err == nil {
					gs = append(gs, fmt.Sprintf("%s:%d", common.HexS(f.RHS), n))
				}
			}
		}
	}
	if len(us) > 0 {
		e.users = strings.Join(us, ",")
	}
	if len(gs) > 0 {
		e.groups = strings.Join(gs, ",")
	}
	return e
}

func (e ruleEnv) words() string {
	if e.users == "" {
		e.users = "-"
	}
	if e.groups == "" {
		e.groups = "-"
	}
	d := "0"
	if e.isDir {
		d = "1"
	}
	return d + " " + e.users + " " + e.groups
}

// ---- implementation run ------------------------------------------------------------------------------

type rObs struct {
	Out   string // canonical line for the model
	Rule  rule.Rule
	PErr  error
	WF    []byte
	BErr  error
	Text  string
	CErr  error
	Panic string
	Alloc uint64
	Env   ruleEnv
	Line  string
	NoTok bool // Join/Split does not reproduce the tokens: case skipped
}

func renderBytesOrErr(b []byte, err error) string {
	if err != nil {
		return "err"
	}
	return common.Hex(b)
}

// resolveToo calls ToCommandLine with resolveIds=true; a panic is left to the caller's recover with a text that says
// which call it was; what it returns is only required to be text or an error.
func resolveToo(b []byte) {
	defer func() {
		if r := recover(); r != nil {
			panic(fmt.Sprint("ToCommandLine(resolveIds=true): ", r))
		}
	}()
	_, _ = rule.ToCommandLine(b, true)
}

func runRImpl(c RCaseR) (o rObs) {
	guardEnter(c)
	defer guardLeave()
	applyFlip(c.Flip)
	defer func() {
		if r := recover(); r != nil {
			o.Panic = fmt.Sprint(r)
		}
	}()
	var ms0, ms1 runtime.MemStats
	switch c.Kind {
	case "line":
		o.Line = shellquote.Join(c.Tokens...)
		if c.Raw != "" {
			o.Line = c.Raw
		}
		if back, err := shellquote.Split(o.Line); err != nil || len(back) != len(c.Tokens) {
			o.NoTok = true
			return
		} else {
			for i := range back {
				if back[i] != c.Tokens[i] {
					o.NoTok = true
					return
				}
			}
		}
		runtime.ReadMemStats(&ms0)
		o.Rule, o.PErr = flags.Parse(o.Line)
		if o.PErr != nil {
			o.Out = "P:err"
			return
		}
		o.Env = envFor(o.Rule)
		o.WF, o.BErr = rule.Build(o.Rule)
		cs := "-"
		if o.BErr == nil {
			o.Text, o.CErr = rule.ToCommandLine(o.WF, false)
			cs = renderBytesOrErr([]byte(o.Text), o.CErr)
		}
		runtime.ReadMemStats(&ms1)
		o.Out = fmt.Sprintf("P:%s|B:%s|C:%s", renderRule(o.Rule), renderBytesOrErr(o.WF, o.BErr), cs)
		if o.BErr == nil {
			// the decoder asked to resolve ids and table codes to names: text or an error, never a panic (C13 is
			// stated for both settings; the model and the round trip are about resolveIds=false)
			resolveToo(o.WF)
		}
	case "bytes":
		b, _ := hex.DecodeString(c.Hex)
		runtime.ReadMemStats(&ms0)
		o.Text, o.CErr = rule.ToCommandLine(b, false)
		runtime.ReadMemStats(&ms1)
		o.Out = renderBytesOrErr([]byte(o.Text), o.CErr)
		resolveToo(b)
		// the same bytes as a window of a longer buffer (a rule cut out of a receive buffer: the next message lies behind
		// it): the answer is a function of the bytes given, whatever lies beyond their end
		{
			big := make([]byte, len(b)+1200)
			copy(big, b)
			for i := len(b); i < len(big); i++ {
				big[i] = "NEXT-MESSAGE-"[(i-len(b))%13]
			}
			t2, e2 := rule.ToCommandLine(big[:len(b):len(big)], false)
			if out2 := renderBytesOrErr([]byte(t2), e2); out2 != o.Out {
				o.Panic = "ToCommandLine answers differently when the same bytes are a window of a longer buffer: " + out2
			}
		}
	case "struct":
		o.Rule = parseSpec(c.Spec)
		o.Env = envFor(o.Rule)
		intact := withSpareCapacity(o.Rule)
		runtime.ReadMemStats(&ms0)
		o.WF, o.BErr = rule.Build(o.Rule)
		runtime.ReadMemStats(&ms1)
		o.Out = renderBytesOrErr(o.WF, o.BErr)
		if msg := intact(); msg != "" {
			o.Panic = msg
		}
	}
	o.Alloc = ms1.TotalAlloc - ms0.TotalAlloc
	return o
}

// withSpareCapacity re-houses the slices of a rule in arrays that have room beyond their length, filled with
// sentinels (a caller's slice may be a prefix of a longer one it still uses); the returned function reports whether
// Build wrote to the caller's rule or to the array behind it.
func withSpareCapacity(r rule.Rule) func() string {
	sentF := rule.FilterSpec{Type: 99, LHS: "sentinel", Comparator: "~", RHS: "sentinel"}
	spareS := func(s []string) []string {
		n := append(make([]string, 0, len(s)+3), s...)
		copy(n[len(s):cap(n)], []string{"sentinel", "sentinel", "sentinel"})
		return n
	}
	checkS := func(what string, s, orig []string) string {
		if len(s) != len(orig) {
			return what + " changed length"
		}
		for i := range orig {
			if s[i] != orig[i] {
				return what + " changed"
			}
		}
		for _, x := range s[len(s):cap(s)] {
			if x != "sentinel" {
				return "the array behind " + what + " was written beyond the slice's length"
			}
		}
		return ""
	}
	switch v := r.(type) {
	case *rule.SyscallRule:
		of, os_, ok := append([]rule.FilterSpec{}, v.Filters...), append([]string{}, v.Syscalls...), append([]string{}, v.Keys...)
		nf := append(make([]rule.FilterSpec, 0, len(v.Filters)+3), v.Filters...)
		for i := len(nf); i < cap(nf); i++ {
			nf[:cap(nf)][i] = sentF
		}
		v.Filters, v.Syscalls, v.Keys = nf, spareS(v.Syscalls), spareS(v.Keys)
		return func() string {
			if len(v.Filters) != len(of) {
				return "C13: Build changed the caller's rule: Filters changed length"
			}
			for i := range of {
				if v.Filters[i] != of[i] {
					return "C13: Build changed the caller's rule: a filter was rewritten"
				}
			}
			for _, x := range v.Filters[len(v.Filters):cap(v.Filters)] {
				if x != sentF {
					return "C13: Build wrote to the array behind the caller's Filters beyond the slice's length (a longer slice sharing it is corrupted)"
				}
			}
			if m := checkS("Syscalls", v.Syscalls, os_); m != "" {
				return "C13: Build changed the caller's rule: " + m
			}
			if m := checkS("Keys", v.Keys, ok); m != "" {
				return "C13: Build changed the caller's rule: " + m
			}
			return ""
		}
	case *rule.FileWatchRule:
		ok := append([]string{}, v.Keys...)
		v.Keys = spareS(v.Keys)
		return func() string {
			if m := checkS("Keys", v.Keys, ok); m != "" {
				return "C13: Build changed the caller's rule: " + m
			}
			return ""
		}
	}
	return func() string { return "" }
}

func rModelLine(c RCaseR, o rObs) string {
	switch c.Kind {
	case "line":
		hs := make([]string, len(c.Tokens))
		for i, t := range c.Tokens {
			hs[i] = common.HexS(t)
		}
		return "rule pipe " + o.Env.words() + " " + strings.Join(hs, " ")
	case "bytes":
		return "rule cmdline " + hexOrDash(c.Hex)
	default:
		return "rule build " + o.Env.words() + " " + c.Spec
	}
}

// ---- independent decoder of struct audit_rule_data (UAPI layout) ------------------------------------------

type ardView struct {
	flags, action, fieldCount uint32
	mask                      [64]uint32
	fields, values, fflags    [64]uint32
	buflen                    uint32
	buf                       []byte
	total                     int
}

func decodeArd(b []byte) (*ardView, string) {
	if len(b) < 1040 {
		return nil, fmt.Sprintf("only %d bytes, the header alone is 1040", len(b))
	}
	w := func(off int) uint32 { return binary.LittleEndian.Uint32(b[off:]) }
	v := &ardView{flags: w(0), action: w(4), fieldCount: w(8), buflen: w(1036), total: len(b)}
	for i := 0; i < 64; i++ {
		v.mask[i], v.fields[i], v.values[i], v.fflags[i] = w(12+4*i), w(268+4*i), w(524+4*i), w(780+4*i)
	}
	if int(v.buflen) > len(b)-1040 {
		return nil, fmt.Sprintf("buflen %d exceeds the %d bytes after the header", v.buflen, len(b)-1040)
	}
	v.buf = b[1040 : 1040+int(v.buflen)]
	return v, ""
}

var stringFieldNames = map[string]bool{"obj_user": true, "obj_role": true, "obj_type": true, "obj_lev_low": true, "obj_lev_high": true, "path": true, "dir": true,
	"subj_user": true, "subj_role": true, "subj_type": true, "subj_sen": true, "subj_clr": true, "key": true, "exe": true}

// c06Monitor compares the wire bytes with the generator's intent.
func c06Monitor(c RCaseR, o rObs) string {
	if c.Kind != "line" || o.NoTok || c.Occs == nil || c.Note == "perturbed" || o.Panic != "" {
		return ""
	}
	if c.Valid && o.PErr != nil {
		return "C06: a syntactically valid rule was rejected by flags.Parse: " + o.PErr.Error()
	}
	if c.Valid && o.BErr != nil {
		return "C06: a syntactically valid rule was rejected by Build: " + o.BErr.Error()
	}
	if o.PErr != nil || o.BErr != nil {
		return ""
	}
	v, why := decodeArd(o.WF)
	if v == nil {
		return "C06: wire data is not a well-formed audit_rule_data: " + why
	}
	if v.total != (1040+int(v.buflen)+3)/4*4 {
		return fmt.Sprintf("C06: total length %d, expected 1040+buflen(%d) padded to 4", v.total, v.buflen)
	}
	for _, x := range o.WF[1040+int(v.buflen):] {
		if x != 0 {
			return "C06: padding is not zero"
		}
	}
	// what was asked, from the generator's occurrences
	var list, action string
	var filt []Occ
	var keys, syscalls []string
	watch := false
	var wpath, wperm string
	for _, oc := range c.Occs {
		switch oc.Flag {
		case "a", "A":
			for _, p := range strings.Split(oc.Value, ",") {
				p = strings.TrimSpace(p)
				if _, ok := uapiLists[p]; ok {
					list = p
				} else {
					action = p
				}
			}
		case "F", "C":
			filt = append(filt, oc)
		case "S":
			for _, s := range strings.Split(oc.Value, ",") {
				syscalls = append(syscalls, strings.TrimSpace(s))
			}
		case "k":
			for _, s := range strings.Split(oc.Value, ",") {
				keys = append(keys, strings.TrimSpace(s))
			}
		case "w":
			watch, wpath = true, oc.Value
		case "p":
			watch = true
			wperm += oc.Value
		}
	}
	if watch {
		list, action = "exit", "always"
		kind := "path"
		if fi, err := os.Stat(filepath.Clean(wpath)); err == nil && fi.IsDir() {
			kind = "dir"
		}
		if wperm == "" {
			wperm = "rwxa"
		}
		pw := permWord(wperm)
		filt = []Occ{{Flag: "F", LHS: kind, Op: "=", RHS: filepath.Clean(wpath), Str: true}, {Flag: "F", LHS: "perm", Op: "=", RHS: wperm, Word: &pw}}
	}
	if v.flags != uapiLists[list] {
		return fmt.Sprintf("C06: list word %d, UAPI code of %q is %d", v.flags, list, uapiLists[list])
	}
	if v.action != uapiActions[action] {
		return fmt.Sprintf("C06: action word %d, UAPI code of %q is %d", v.action, action, uapiActions[action])
	}
	want := len(filt)
	if len(keys) > 0 {
		want++
	}
	if int(v.fieldCount) != want {
		return fmt.Sprintf("C06: field_count %d, the rule has %d filters (+1 for keys: %v)", v.fieldCount, len(filt), len(keys) > 0)
	}
	off := 0
	for i, f := range filt {
		if f.Flag == "C" {
			if v.fields[i] != uapiFieldCompare {
				return fmt.Sprintf("C06: field %d code %d, expected AUDIT_FIELD_COMPARE", i, v.fields[i])
			}
			if f.Word != nil && v.values[i] != *f.Word {
				return fmt.Sprintf("C06: comparison %s%s%s encoded as %d, UAPI comparison code is %d", f.LHS, f.Op, f.RHS, v.values[i], *f.Word)
			}
		} else {
			if v.fields[i] != uapiFields[f.LHS] {
				return fmt.Sprintf("C06: field %d code %d, UAPI code of %q is %d", i, v.fields[i], f.LHS, uapiFields[f.LHS])
			}
			if f.Str {
				if int(v.values[i]) != len(f.RHS) || off+len(f.RHS) > len(v.buf) || string(v.buf[off:off+len(f.RHS)]) != f.RHS {
					return fmt.Sprintf("C06: string field %q: value word %d, buffer at %d does not hold %q", f.LHS, v.values[i], off, f.RHS)
				}
				off += len(f.RHS)
			} else if f.Word != nil && v.values[i] != *f.Word {
				return fmt.Sprintf("C06: %s%s%s has value word %d, the text denotes %d", f.LHS, f.Op, f.RHS, v.values[i], *f.Word)
			}
		}
		if v.fflags[i] != uapiOps[f.Op] {
			return fmt.Sprintf("C06: field %d operator word %#x, UAPI code of %q is %#x", i, v.fflags[i], f.Op, uapiOps[f.Op])
		}
	}
	if len(keys) > 0 {
		i := len(filt)
		joined := strings.Join(keys, "\x01")
		if v.fields[i] != uapiFields["key"] || v.fflags[i] != uapiOps["="] || int(v.values[i]) != len(joined) || off+len(joined) > len(v.buf) || string(v.buf[off:off+len(joined)]) != joined {
			return fmt.Sprintf("C06: keys %q not encoded as the last field (key = joined by 0x01)", keys)
		}
		off += len(joined)
	}
	if off != int(v.buflen) {
		return fmt.Sprintf("C06: buflen %d, the strings add up to %d", v.buflen, off)
	}
	for i := want; i < 64; i++ {
		if v.fields[i] != 0 || v.values[i] != 0 || v.fflags[i] != 0 {
			return fmt.Sprintf("C06: slot %d beyond field_count is not zero", i)
		}
	}
	// mask
	var wantMask [64]uint32
	all := len(syscalls) == 0
	arch := "x86_64"
	for _, f := range filt {
		if f.LHS == "arch" {
			switch strings.ToLower(f.RHS) {
			case "b64":
				arch = "x86_64"
			case "b32":
				arch = "i386"
			default:
				arch = f.RHS
			}
		}
	}
	for _, s := range syscalls {
		if s == "all" {
			all = true
			continue
		}
		n, err := strconv.Atoi(s)
		if err != nil {
			found := false
			for num, name := range auparse.AuditSyscalls[arch] {
				if name == s {
					n, found = num, true
				}
			}
			if !found {
				return ""
			}
		}
		wantMask[n/32] |= 1 << (uint(n) % 32)
	}
	if all {
		for i := range wantMask {
			wantMask[i] = 0xFFFFFFFF
		}
		wantMask[63] = 0x0000FFFF
	}
	if v.mask != wantMask {
		return fmt.Sprintf("C06: syscall mask does not have exactly the bits of the requested syscalls %v (arch %s)", syscalls, arch)
	}
	return ""
}

func permWord(s string) uint32 {
	var w uint32
	for _, c := range s {
		switch c {
		case 'r':
			w |= 4
		case 'w':
			w |= 2
		case 'x':
			w |= 1
		case 'a':
			w |= 8
		}
	}
	return w
}

// c07Monitor: the listed text re-encodes to byte-identical wire data and is stable.
func c07Monitor(c RCaseR, o rObs) (string, string) {
	if c.Kind != "line" || o.NoTok || o.PErr != nil || o.BErr != nil || o.Panic != "" {
		return "", ""
	}
	// domain: string values without whitespace or quote characters
	for _, oc := range c.Occs {
		if strings.ContainsAny(oc.Value, " \t\n\r\f\v'\"") && (oc.Flag == "F" || oc.Flag == "k" || oc.Flag == "w") {
			return "", ""
		}
		for i := 0; i < len(oc.Value); i++ {
			if oc.Value[i] >= 0x80 {
				return "", "" // unicode white space cannot be told apart bytewise here; keep the domain ASCII
			}
		}
	}
	// the same domain restriction read off the built rule itself (perturbed lines carry no intent):
	// every byte of the string buffer — the string values and keys — is printable ASCII other than
	// a quote character (the key separator 0x01 is allowed)
	if v, _ := decodeArd(o.WF); v != nil {
		for _, b := range v.buf {
			if b != 0x01 && (b <= 0x20 || b >= 0x7f || b == '\'' || b == '"') {
				return "", ""
			}
		}
	}
	if o.CErr != nil {
		return "C07: ToCommandLine failed on a rule that Build accepted: " + o.CErr.Error(), "cmdline-error"
	}
	r2, err := flags.Parse(o.Text)
	if err != nil {
		return fmt.Sprintf("C07: listed text %q is not accepted by flags.Parse: %v", o.Text, err), "reparse"
	}
	wf2, err := rule.Build(r2)
	if err != nil {
		return fmt.Sprintf("C07: listed text %q is not accepted by Build: %v", o.Text, err), "rebuild"
	}
	if string(wf2) != string(o.WF) {
		return fmt.Sprintf("C07: listed text %q re-encodes to different wire data", o.Text), "bytes-differ"
	}
	t2, err := rule.ToCommandLine(wf2, false)
	if err != nil || t2 != o.Text {
		return fmt.Sprintf("C07: text is not stable: %q then %q (err=%v)", o.Text, t2, err), "unstable"
	}
	return "", ""
}

// c13Monitor: no panic, allocation bounded by the input size, ok => structurally valid bytes.
func c13Monitor(c RCaseR, o rObs) string {
	if o.Panic != "" {
		if strings.HasPrefix(o.Panic, "ToCommandLine answers differently") {
			return "C13: " + o.Panic + " (text from beyond the slice it was given, or an error that depends on it)"
		}
		return "C13: panic: " + o.Panic
	}
	size := len(c.Hex)/2 + len(c.Spec)
	for _, t := range c.Tokens {
		size += len(t)
	}
	if o.Alloc > uint64(64*size)+(1<<20) {
		return fmt.Sprintf("C13: %d bytes allocated for an input of %d bytes", o.Alloc, size)
	}
	if c.Kind == "bytes" && o.CErr == nil {
		b, _ := hex.DecodeString(c.Hex)
		v, why := decodeArd(b)
		if v == nil {
			return "C13: ToCommandLine succeeded on bytes that are not a structurally valid rule: " + why
		}
		if v.fieldCount > 64 {
			return fmt.Sprintf("C13: ToCommandLine succeeded with field_count %d", v.fieldCount)
		}
		off := uint64(0)
		for i := 0; i < int(v.fieldCount); i++ {
			for name, code := range uapiFields {
				if code == v.fields[i] && stringFieldNames[name] {
					off += uint64(v.values[i])
				}
			}
		}
		if off > uint64(v.buflen) {
			return fmt.Sprintf("C13: ToCommandLine succeeded although the string lengths (%d) exceed buflen %d", off, v.buflen)
		}
	}
	return ""
}

// c14Monitor: the returned rule reflects every flag occurrence in full.
func c14Monitor(c RCaseR, o rObs) string {
	if c.Kind != "line" || o.NoTok || o.PErr != nil || c.Occs == nil || o.Panic != "" {
		return ""
	}
	var nF, nC int
	var wantS, wantK []string
	var wantP string
	var w []string
	var adds []Occ
	hasD := false
	for _, oc := range c.Occs {
		switch oc.Flag {
		case "":
			return fmt.Sprintf("C14: the line has the stray word %q but flags.Parse returned a rule", oc.Value)
		case "F":
			nF++
		case "C":
			nC++
		case "S":
			for _, s := range strings.Split(oc.Value, ",") {
				wantS = append(wantS, strings.TrimSpace(s))
			}
		case "k":
			for _, s := range strings.Split(oc.Value, ",") {
				wantK = append(wantK, strings.TrimSpace(s))
			}
		case "p":
			wantP += oc.Value
		case "w":
			w = append(w, oc.Value)
		case "a", "A":
			adds = append(adds, oc)
		case "D":
			hasD = true
		}
	}
	if len(w) > 1 || len(adds) > 1 {
		return "C14: a repeated -w/-a/-A was accepted (one of them is ignored)"
	}
	syscallish := nF+nC > 0 || len(wantS) > 0 || len(adds) > 0
	watchish := len(w) > 0 || wantP != ""
	n := 0
	for _, b := range []bool{hasD, syscallish, watchish} {
		if b {
			n++
		}
	}
	if n != 1 {
		return "C14: delete / watch / syscall-rule flags were mixed (or none given) but flags.Parse returned a rule"
	}
	eqList := func(a, b []string) bool {
		if len(a) != len(b) {
			return false
		}
		for i := range a {
			if a[i] != b[i] {
				return false
			}
		}
		return true
	}
	switch v := o.Rule.(type) {
	case *rule.DeleteAllRule:
		if !hasD || !eqList(v.Keys, wantK) {
			return "C14: delete-all rule does not reflect the line"
		}
	case *rule.FileWatchRule:
		if !watchish {
			return "C14: watch rule returned for a line without -w/-p"
		}
		if len(w) == 1 && v.Path != w[0] || len(w) == 0 && v.Path != "" {
			return fmt.Sprintf("C14: watch path %q, the line says %q", v.Path, w)
		}
		ps := ""
		for _, p := range v.Permissions {
			ps += string("?rwxa"[p])
		}
		if ps != wantP {
			return fmt.Sprintf("C14: permissions %q, the line says %q", ps, wantP)
		}
		if !eqList(v.Keys, wantK) {
			return fmt.Sprintf("C14: keys %q, the line says %q", v.Keys, wantK)
		}
	case *rule.SyscallRule:
		if !syscallish || len(adds) != 1 {
			return "C14: syscall rule returned without exactly one of -a/-A"
		}
		if (adds[0].Flag == "A") != (v.Type == rule.PrependSyscallRuleType) {
			return "C14: -a/-A confused"
		}
		parts := strings.Split(adds[0].Value, ",")
		got := map[string]bool{v.List: true, v.Action: true}
		if len(parts) != 2 || !got[strings.TrimSpace(parts[0])] || !got[strings.TrimSpace(parts[1])] {
			return fmt.Sprintf("C14: list/action %q,%q do not reflect %q", v.List, v.Action, adds[0].Value)
		}
		if len(v.Filters) != nF+nC {
			return fmt.Sprintf("C14: %d filters returned for %d -F/-C arguments", len(v.Filters), nF+nC)
		}
		i := 0
		for _, oc := range c.Occs {
			if oc.Flag != "F" && oc.Flag != "C" {
				continue
			}
			f := v.Filters[i]
			i++
			rest := oc.Value
			if !strings.HasPrefix(rest, f.LHS) {
				return fmt.Sprintf("C14: filter field %q is not the text before the operator in %q", f.LHS, oc.Value)
			}
			rest = strings.TrimLeft(rest[len(f.LHS):], " \t\n\f\r")
			if !strings.HasPrefix(rest, f.Comparator) || rest[len(f.Comparator):] != f.RHS || f.LHS == "" || f.RHS == "" {
				return fmt.Sprintf("C14: filter (%q,%q,%q) is not the complete text of %q", f.LHS, f.Comparator, f.RHS, oc.Value)
			}
			if (oc.Flag == "C") != (f.Type == rule.InterFieldFilterType) {
				return "C14: -F/-C confused"
			}
			if oc.Op != "" && (f.LHS != oc.LHS || f.Comparator != oc.Op || f.RHS != oc.RHS) {
				return fmt.Sprintf("C14: filter (%q,%q,%q), written from (%q,%q,%q)", f.LHS, f.Comparator, f.RHS, oc.LHS, oc.Op, oc.RHS)
			}
		}
		if !eqList(v.Syscalls, wantS) {
			return fmt.Sprintf("C14: syscalls %q, the line says %q", v.Syscalls, wantS)
		}
		if !eqList(v.Keys, wantK) {
			return fmt.Sprintf("C14: keys %q, the line says %q", v.Keys, wantK)
		}
	}
	return ""
}

// ---- generators ------------------------------------------------------------------------------------------

var allOps = []string{"=", "!=", "<", ">", "<=", ">=", "&", "&="}
var allFieldNames []string

func init() {
	for n := range uapiFields {
		allFieldNames = append(allFieldNames, n)
	}
	sort.Strings(allFieldNames)
}

// numSpelling gives a spelling of a 32-bit value and the word it denotes.
func numSpelling(rng *rand.Rand) (string, uint32) {
	vals := []uint32{0, 1, 2, 10, 63, 64, 1000, 0x7FFFFFFF, 0x80000000, 0xFFFFFFFF, 0xFFFFFFFE, 65535, 65536}
	v := vals[rng.Intn(len(vals))]
	if rng.Intn(3) == 0 {
		v = rng.Uint32()
	}
	switch rng.Intn(6) {
	case 0:
		return fmt.Sprintf("0x%x", v), v
	case 1:
		return fmt.Sprintf("0%o", v), v
	case 2:
		if int32(v) < 0 {
			return strconv.Itoa(int(int32(v))), v
		}
	case 3:
		return fmt.Sprintf("0X%X", v), v
	}
	return strconv.FormatUint(uint64(v), 10), v
}

func u32(v uint32) *uint32 { return &v }

// genFilter returns a -F occurrence for field name with an operator; ok says whether the
// generator believes the library accepts it on list `list`.
func genFilter(rng *rand.Rand, name, op, list string) (Occ, bool) {
	oc := Occ{Flag: "F", LHS: name, Op: op}
	ok := true
	exitOnly := map[string]bool{"exit": true, "obj_user": true, "obj_role": true, "obj_type": true, "obj_lev_low": true, "obj_lev_high": true, "path": true, "dir": true,
		"perm": true, "filetype": true, "inode": true, "devmajor": true, "devminor": true, "success": true, "ppid": true}
	if exitOnly[name] && list != "exit" {
		ok = false
	}
	if list == "exclude" {
		allowed := map[string]bool{"pid": true, "uid": true, "gid": true, "auid": true, "msgtype": true, "subj_user": true, "subj_role": true, "subj_type": true, "subj_sen": true, "subj_clr": true, "exe": true}
		if !allowed[name] {
			ok = false
		}
	}
	switch name {
	case "uid", "euid", "suid", "fsuid", "auid", "obj_uid":
		switch rng.Intn(8) {
		case 0:
			oc.RHS, oc.Word = "unset", u32(0xFFFFFFFF)
		case 1:
			oc.RHS, oc.Word = "-1", u32(0xFFFFFFFF)
		case 2:
			// a name the OS user database knows (os/user is the oracle for the id)
			n := etcNames("/etc/passwd")
			nm := "root"
			if len(n) > 0 {
				nm = n[rng.Intn(len(n))]
			}
			oc.RHS = nm
			if u, err := user.Lookup(nm); err != nil {
				ok = false
			} else if id, err := strconv.ParseUint(u.Uid, 10, 32); err != nil {
				ok = false
			} else {
				oc.Word = u32(uint32(id))
			}
		case 3:
			// out of range for uint32 (a range error, not a name), or a name nobody has
			oc.RHS = []string{"4294967296", "99999999999999999999", "nosuchuser_zz", "+5", "0x10", "1_0"}[rng.Intn(6)]
			if _, err := user.Lookup(oc.RHS); err != nil || oc.RHS == "4294967296" || oc.RHS == "99999999999999999999" {
				ok = false
			}
		default:
			v := []uint32{0, 1, 1000, 0x7FFFFFFF, 0x80000000, 0xFFFFFFFF, 0xFFFFFFFE, rng.Uint32()}[rng.Intn(8)]
			oc.RHS, oc.Word = strconv.FormatUint(uint64(v), 10), u32(v)
		}
	case "gid", "egid", "sgid", "fsgid", "obj_gid":
		switch rng.Intn(6) {
		case 0:
			n := etcNames("/etc/group")
			nm := "root"
			if len(n) > 0 {
				nm = n[rng.Intn(len(n))]
			}
			oc.RHS = nm
			if g, err := user.LookupGroup(nm); err != nil {
				ok = false
			} else if id, err := strconv.ParseUint(g.Gid, 10, 32); err != nil {
				ok = false
			} else {
				oc.Word = u32(uint32(id))
			}
		case 1:
			oc.RHS = []string{"4294967296", "99999999999999999999", "nosuchgroup_zz", "-1", "unset", "+5", "0x10"}[rng.Intn(7)]
			if _, err := user.LookupGroup(oc.RHS); err != nil || oc.RHS == "4294967296" || oc.RHS == "99999999999999999999" {
				ok = false
			}
		default:
			v := []uint32{0, 1, 1000, 0x7FFFFFFF, 0x80000000, 0xFFFFFFFF, rng.Uint32()}[rng.Intn(7)]
			oc.RHS, oc.Word = strconv.FormatUint(uint64(v), 10), u32(v)
		}
	case "exit":
		switch rng.Intn(4) {
		case 0:
			names := []string{"ENOENT", "EPERM", "EACCES", "EINVAL", "EWOULDBLOCK", "EDEADLOCK", "ERFKILL"}
			n := names[rng.Intn(len(names))]
			num := auparse.AuditErrnoToNum[n]
			if rng.Intn(2) == 0 {
				oc.RHS, oc.Word = "-"+n, u32(uint32(-int32(num)))
			} else {
				oc.RHS, oc.Word = n, u32(uint32(num))
			}
		case 1:
			v := []int32{0, -1, 1, -2147483648, 2147483647, -4095, int32(rng.Uint32())}[rng.Intn(7)]
			oc.RHS, oc.Word = strconv.Itoa(int(v)), u32(uint32(v))
		default:
			v := -int32(1 + rng.Intn(133))
			oc.RHS, oc.Word = strconv.Itoa(int(v)), u32(uint32(v))
		}
	case "msgtype":
		if list != "user" && list != "exclude" {
			ok = false
		}
		switch rng.Intn(4) {
		case 0:
			oc.RHS, oc.Word = "USER_LOGIN", u32(1112)
		case 1:
			n := rng.Intn(65536)
			oc.RHS, oc.Word = fmt.Sprintf("UNKNOWN[%d]", n), u32(uint32(n))
		default:
			v := []uint32{0, 1100, 65535, 65536, 0xFFFFFFFF, uint32(rng.Intn(3000))}[rng.Intn(6)]
			oc.RHS, oc.Word = strconv.FormatUint(uint64(v), 10), u32(v)
		}
	case "arch":
		a := []string{"b64", "b32", "x86_64", "i386", "aarch64", "arm", "ppc64", "s390x", "B64", "ia64"}[rng.Intn(10)]
		code := map[string]uint32{"b64": 0xc000003e, "B64": 0xc000003e, "b32": 0x40000003, "x86_64": 0xc000003e, "i386": 0x40000003, "aarch64": 0xc00000b7, "arm": 0x40000028, "ppc64": 0x80000015, "s390x": 0x80000016, "ia64": 0xc0000032}[a]
		oc.RHS, oc.Word = a, u32(code)
		if op != "=" && op != "!=" {
			ok = false
		}
	case "perm":
		ps := []string{"r", "w", "x", "a", "rw", "wa", "rwxa", "xr", "aa", "rwx"}[rng.Intn(10)]
		oc.RHS, oc.Word = ps, u32(permWord(ps))
		if op != "=" {
			ok = false
		}
	case "filetype":
		ft := []string{"file", "dir", "socket", "symlink", "char", "block", "fifo", "FILE"}[rng.Intn(8)]
		oc.RHS, oc.Word = ft, u32(map[string]uint32{"file": 0o100000, "FILE": 0o100000, "dir": 0o040000, "socket": 0o140000, "symlink": 0o120000, "char": 0o020000, "block": 0o060000, "fifo": 0o010000}[ft])
	case "saddr_fam":
		oc.RHS, oc.Word = []string{"2", "10"}[rng.Intn(2)], nil
		if oc.RHS == "2" {
			oc.Word = u32(2)
		} else {
			oc.Word = u32(10)
		}
	case "inode":
		s, v := numSpelling(rng)
		oc.RHS, oc.Word = s, u32(v)
		if op != "=" && op != "!=" {
			ok = false
		}
	default:
		if stringFieldNames[name] {
			oc.Str = true
			vals := []string{"/etc/passwd", "/tmp/x", "system_u", "s0", "mykey", "a-b_c.d", "/usr/bin/../bin/ls", "x,y", "k\x01k2", "a=b", "back\\slash", "/tmp/with space", "q'uote", strings.Repeat("k", 256), strings.Repeat("p", 300),
				// not ASCII: lengths are counted in bytes, not characters (and need not be valid UTF-8)
				"/tmp/caf\u00e9", "cl\u00e9", "\u65e5\u672c\u8a9e", "/x/\xff\xfe", strings.Repeat("\u00e9", 130), strings.Repeat("\u00e9", 2100)}
			oc.RHS = vals[rng.Intn(len(vals))]
			if name == "key" && len(oc.RHS) > 256 {
				ok = false
			}
			if len(oc.RHS) > 4096 {
				ok = false
			}
		} else {
			s, v := numSpelling(rng)
			oc.RHS, oc.Word = s, u32(v)
		}
	}
	sep := ""
	if rng.Intn(12) == 0 {
		sep = " "
	}
	oc.Value = name + sep + op + oc.RHS
	return oc, ok
}

var compareNames = map[string]string{}

func init() {
	short := map[string]string{"UID": "uid", "EUID": "euid", "SUID": "suid", "FSUID": "fsuid", "AUID": "auid", "OBJ_UID": "obj_uid", "GID": "gid", "EGID": "egid", "SGID": "sgid", "FSGID": "fsgid", "OBJ_GID": "obj_gid"}
	for name := range uapiCompare {
		i := strings.Index(name, "_TO_")
		a, b := short[name[:i]], short[name[i+4:]]
		compareNames[a+"|"+b] = name
		compareNames[b+"|"+a] = name
	}
}

// flagMixCases: see the call site.
func flagMixCases() []RCaseR {
	kinds := []Occ{{Flag: "D"}, {Flag: "w", Value: "/tmp/x"}, {Flag: "p", Value: "wa"}, {Flag: "k", Value: "mk"},
		{Flag: "a", Value: "always,exit"}, {Flag: "A", Value: "never,exit"},
		{Flag: "F", Value: "pid=1", LHS: "pid", Op: "=", RHS: "1"}, {Flag: "C", Value: "auid!=uid", LHS: "auid", Op: "!=", RHS: "uid"},
		{Flag: "S", Value: "open"}}
	mk := func(idx ...int) RCaseR {
		c := RCaseR{Kind: "line", Note: "flag-mix"}
		for _, i := range idx {
			oc := kinds[i]
			c.Occs = append(c.Occs, oc)
			if oc.Flag == "D" {
				c.Tokens = append(c.Tokens, "-D")
			} else {
				c.Tokens = append(c.Tokens, "-"+oc.Flag, oc.Value)
			}
		}
		return c
	}
	var out []RCaseR
	for i := range kinds {
		out = append(out, mk(i))
		for j := range kinds {
			if j == i {
				continue
			}
			out = append(out, mk(i, j))
			for k := range kinds {
				if k == i || k == j {
					continue
				}
				out = append(out, mk(i, j, k))
			}
		}
	}
	return out
}

// operatorEdgeCases: see the call site.
func operatorEdgeCases() []RCaseR {
	var out []RCaseR
	add := func(flag, value, lhs, op, rhs string) {
		for _, av := range [][2]string{{"a", "always,exit"}, {"A", "never,exit"}} {
			oc := Occ{Flag: flag, Value: value, LHS: lhs, Op: op, RHS: rhs}
			out = append(out, RCaseR{Kind: "line", Note: "operator-edge",
				Occs:   []Occ{{Flag: av[0], Value: av[1]}, oc},
				Tokens: []string{"-" + av[0], av[1], "-" + flag, value}})
		}
	}
	ops := []string{"=", "!=", "<", ">", "<=", ">=", "&", "&="}
	for _, name := range []string{"auid", "key", "a0", "x"} {
		// nothing after the name, the operator cut off, nothing after the operator: no intent (Op empty),
		// the library must answer with an error or a rule that still reflects the whole value
		for _, tail := range []string{"", "!", " !", "! ", "!x", "! =1", "<", ">", "&", "=", "!=", "<=", ">=", "&=", " ", " =", " = ", "==", "=!", "!!", "!=!", "<>", "=<"} {
			add("F", name+tail, "", "", "")
			add("C", name+tail, "", "", "")
		}
		for _, op := range ops {
			// blanks and odd bytes right after the operator belong to the value
			for _, v := range []string{" 5", "  padded value", "\t7", "\nx", " ", "=5", "!5", "5 ", "5\n", "\x005"} {
				rhs := v
				o := op
				// "<" / ">" / "&" directly followed by "=" read as the two-character operator
				if (op == "<" || op == ">" || op == "&") && strings.HasPrefix(v, "=") {
					o, rhs = op+"=", v[1:]
				}
				if rhs == "" {
					continue
				}
				add("F", name+op+v, name, o, rhs)
				add("F", name+"  "+op+v, name, o, rhs)
			}
		}
	}
	for _, v := range []string{"auid!=uid ", "auid != uid", "auid!= uid", " auid!=uid", "auid!=uid=1", "auid=!uid", "auid!uid", "auid==uid", "auid=", "=uid", "auid  =uid"} {
		add("C", v, "", "", "")
	}
	return out
}

// degenerateStructCases: see the call site.
func degenerateStructCases() []RCaseR {
	hs := func(s string) string { return common.HexS(s) }
	var out []RCaseR
	names := append([]string{"", " ", "\x00"}, allFieldNames...)
	for _, name := range names {
		for _, op := range []string{"=", "!=", ""} {
			for _, rhs := range []string{"", "-", "+", " ", "0x", "-0x", "\x00", "--1"} {
				for _, la := range [][2]string{{"exit", "always"}, {"user", "never"}} {
					out = append(out, RCaseR{Kind: "struct", Note: "degenerate-struct",
						Spec: fmt.Sprintf("S;3;%s;%s;%s;;", hs(la[0]), hs(la[1]), fmt.Sprintf("2.%s.%s.%s", hs(name), hs(op), hs(rhs)))})
				}
			}
		}
	}
	// inter-field comparisons with empty sides
	for _, l := range []string{"", "uid", "auid"} {
		for _, r := range []string{"", "uid", "gid"} {
			out = append(out, RCaseR{Kind: "struct", Note: "degenerate-struct",
				Spec: fmt.Sprintf("S;3;%s;%s;%s;;", hs("exit"), hs("always"), fmt.Sprintf("1.%s.%s.%s", hs(l), hs("="), hs(r)))})
		}
	}
	return out
}

// ruleLadderCases: see the call site.
func ruleLadderCases() []RCaseR {
	var out []RCaseR
	mk := func(occs ...Occ) RCaseR {
		c := RCaseR{Kind: "line", Note: "size-ladder"}
		for _, oc := range occs {
			c.Occs = append(c.Occs, oc)
			c.Tokens = append(c.Tokens, "-"+oc.Flag, oc.Value)
		}
		return c
	}
	for _, n := range []int{31, 32, 33, 64, 65, 255, 256, 257, 1024, 2040} {
		var nums []string
		for i := 0; i < n; i++ {
			k := i
			if k >= 5 {
				k++ // never the complete set 0..2015 (that class is a recorded finding)
			}
			nums = append(nums, strconv.Itoa(k))
		}
		out = append(out, mk(Occ{Flag: "a", Value: "always,exit"}, Occ{Flag: "S", Value: strings.Join(nums, ",")}))
		c := mk(Occ{Flag: "a", Value: "never,exit"})
		for _, s := range nums {
			c.Occs = append(c.Occs, Occ{Flag: "S", Value: s})
			c.Tokens = append(c.Tokens, "-S", s)
		}
		out = append(out, c)
	}
	for _, n := range []int{2000, 3900, 3964, 4000, 4096} {
		// several multi-kilobyte strings in one rule (the wire form grows past 8 KiB and towards 64 * 4 KiB)
		d, e := "/"+strings.Repeat("d", n-1), "/"+strings.Repeat("e", n-1)
		out = append(out, mk(Occ{Flag: "a", Value: "always,exit"}, Occ{Flag: "F", Value: "dir=" + d, LHS: "dir", Op: "=", RHS: d, Str: true},
			Occ{Flag: "F", Value: "exe=" + e, LHS: "exe", Op: "=", RHS: e, Str: true}, Occ{Flag: "k", Value: "big"}))
		c := mk(Occ{Flag: "a", Value: "never,exit"})
		for i := 0; i < 6; i++ {
			s := "/" + strings.Repeat(string(rune('a'+i)), n-1)
			oc := Occ{Flag: "F", Value: "path=" + s, LHS: "path", Op: "=", RHS: s, Str: true}
			c.Occs = append(c.Occs, oc)
			c.Tokens = append(c.Tokens, "-F", oc.Value)
		}
		out = append(out, c)
	}
	for _, n := range []int{255, 256, 257, 4095, 4096, 4097} {
		s := "/" + strings.Repeat("d", n-1)
		out = append(out, mk(Occ{Flag: "a", Value: "always,exit"}, Occ{Flag: "F", Value: "path=" + s, LHS: "path", Op: "=", RHS: s, Str: true}),
			mk(Occ{Flag: "a", Value: "always,exit"}, Occ{Flag: "F", Value: "exe=" + s, LHS: "exe", Op: "=", RHS: s, Str: true}, Occ{Flag: "k", Value: "lk"}),
			mk(Occ{Flag: "w", Value: s}, Occ{Flag: "p", Value: "wa"}))
		if n <= 257 {
			k := strings.Repeat("k", n)
			out = append(out, mk(Occ{Flag: "a", Value: "always,exit"}, Occ{Flag: "k", Value: k}),
				mk(Occ{Flag: "a", Value: "always,exit"}, Occ{Flag: "F", Value: "key=" + k, LHS: "key", Op: "=", RHS: k, Str: true}),
				// several keys whose joined length (with the separators) is n
				mk(Occ{Flag: "a", Value: "always,exit"}, Occ{Flag: "k", Value: strings.Repeat("a", 100)}, Occ{Flag: "k", Value: strings.Repeat("b", 100)}, Occ{Flag: "k", Value: strings.Repeat("c", n-202)}),
				mk(Occ{Flag: "w", Value: "/tmp/x"}, Occ{Flag: "p", Value: "r"}, Occ{Flag: "k", Value: k}))
		}
	}
	return out
}

// watchShapeCases: see the call site.
func watchShapeCases() []RCaseR {
	var out []RCaseR
	file, dir := filepath.Join(ruleTmp, "file1"), filepath.Join(ruleTmp, "dir1")
	perms := [][]int{{0, 1, 2}, {0, 2, 1}, {1, 0, 2}, {1, 2, 0}, {2, 0, 1}, {2, 1, 0}}
	type spelled struct{ kind, target string }
	var targets []spelled
	for _, kind := range []string{"path", "dir"} {
		base := file
		if kind == "dir" {
			base = dir
		}
		targets = append(targets, spelled{kind, base})
		// spellings that name the same object but are not clean paths
		parent, leaf := filepath.Dir(base), filepath.Base(base)
		targets = append(targets, spelled{kind + "~", parent + "/./" + leaf}, spelled{kind + "~", parent + "/../" + filepath.Base(parent) + "/" + leaf},
			spelled{kind + "~", parent + "//" + leaf}, spelled{kind + "~", base + "/"}, spelled{kind + "~", base + "/."})
	}
	// names with characters that mean something to a shell, to a glob or to a flag parser but not to the kernel or to
	// the splitter the library uses (no white space, quote or backslash among them): existing files and directories
	for _, ch := range []string{"*", "?", "[", "]", "[a]", "{", "}", "~", "$", "$HOME", "!", "#", "=", "==", ",", "%", "%s", "@", ":", ";", "&", "|", "<", ">", "(", ")", "+", "^", "-k", "--"} {
		f, d := filepath.Join(ruleTmp, "f"+ch+"x"), filepath.Join(ruleTmp, "d"+ch+"x")
		if _, err := os.Stat(f); err != nil {
			os.WriteFile(f, nil, 0o600)
		}
		os.Mkdir(d, 0o700)
		targets = append(targets, spelled{"path+", f}, spelled{"dir+", d})
	}
	for _, sp := range targets {
		kind, target := strings.TrimSuffix(strings.TrimSuffix(sp.kind, "~"), "+"), sp.target
		variants := []string{"plain", "S all", "never", "task", "S open", "fourth", "perm-first-only", "no-key", "no-perm", "ne", "two keys"}
		if strings.HasSuffix(sp.kind, "~") || strings.HasSuffix(sp.kind, "+") {
			variants = []string{"plain", "no-key"}
		}
		for _, variant := range variants {
			for pi, pm := range perms {
				if strings.HasSuffix(sp.kind, "+") && pi != 0 && pi != 3 {
					continue
				}
				pw := uint32(permWord("wa"))
				parts := []Occ{
					{Flag: "F", LHS: kind, Op: "=", RHS: target, Value: kind + "=" + target, Str: true},
					{Flag: "F", LHS: "perm", Op: "=", RHS: "wa", Value: "perm=wa", Word: &pw},
					{Flag: "F", LHS: "key", Op: "=", RHS: "wk", Value: "key=wk", Str: true},
				}
				if variant == "ne" {
					parts[0].Op, parts[0].Value = "!=", kind+"!="+target
				}
				c := RCaseR{Kind: "line", Valid: true, Note: "watch-shape " + variant}
				add := func(oc Occ) {
					c.Occs = append(c.Occs, oc)
					c.Tokens = append(c.Tokens, "-"+oc.Flag, oc.Value)
				}
				av := "always,exit"
				switch variant {
				case "never":
					av = "never,exit"
				case "task":
					av = "always,task"
				}
				add(Occ{Flag: "a", Value: av})
				switch variant {
				case "S all":
					add(Occ{Flag: "S", Value: "all"})
				case "S open":
					add(Occ{Flag: "S", Value: "open"})
				}
				for _, i := range pm {
					if variant == "no-key" && i == 2 || variant == "no-perm" && i == 1 || variant == "perm-first-only" && i != 1 {
						continue
					}
					add(parts[i])
				}
				switch variant {
				case "fourth":
					v := uint32(1)
					add(Occ{Flag: "F", LHS: "pid", Op: "=", RHS: "1", Value: "pid=1", Word: &v})
				case "two keys":
					add(Occ{Flag: "k", Value: "k2"})
				}
				if variant == "task" {
					c.Valid = false // path/dir/perm filters belong to the exit list
				}
				out = append(out, c)
			}
		}
	}
	return out
}

// fieldBoundaryCases: see the call site.
func fieldBoundaryCases() []RCaseR {
	var out []RCaseR
	for total := 63; total <= 66; total++ {
		for _, comp := range []string{"F", "C", "mixed"} {
			for _, last := range []string{"F", "C", "k"} {
				c := RCaseR{Kind: "line", Valid: total <= 64, Note: "field-boundary"}
				add := func(oc Occ) {
					c.Occs = append(c.Occs, oc)
					c.Tokens = append(c.Tokens, "-"+oc.Flag, oc.Value)
				}
				add(Occ{Flag: "a", Value: "always,exit"})
				n := total
				if last == "k" {
					n = total - 1
				}
				for i := 0; i < n; i++ {
					kind := comp
					if comp == "mixed" {
						kind = []string{"F", "C"}[i%2]
					}
					if i == n-1 && last != "k" {
						kind = last
					}
					if kind == "C" {
						op := []string{"=", "!="}[i%2]
						add(Occ{Flag: "C", LHS: "auid", Op: op, RHS: "uid", Value: "auid" + op + "uid", Word: u32(uapiCompare[compareNames["auid|uid"]])})
					} else {
						v := uint32(i)
						add(Occ{Flag: "F", LHS: "pid", Op: "=", RHS: strconv.Itoa(i), Value: "pid=" + strconv.Itoa(i), Word: &v})
					}
				}
				if last == "k" {
					add(Occ{Flag: "k", Value: "bk"})
				}
				out = append(out, c)
			}
		}
	}
	return out
}

// genRuleLine builds a rule line (tokens + intent).
// rawLineCases: generated lines with bytes a shell does not split on (CR, FF, VT, NEL, NBSP, line and paragraph
// separators, ideographic space, a byte order mark, a NUL) before the first argument, after the last one, and between two.
// The arguments are what shellquote.Split makes of the text; nothing may be trimmed away or added.
func rawLineCases(rng *rand.Rand, n int) []RCaseR {
	decos := []string{"\r", "\f", "\v", "\u0085", "\u00a0", "\u2028", "\u2029", "\u3000", "\u1680", "\u2003", "\ufeff", "\x00", "\r\n", " \r", "\t\f"}
	var out []RCaseR
	for len(out) < n {
		base := genRuleLine(rng, true)
		line := shellquote.Join(base.Tokens...)
		d := decos[rng.Intn(len(decos))]
		var raw string
		switch rng.Intn(4) {
		case 0:
			raw = line + d
		case 1:
			raw = d + line
		case 2:
			raw = d + line + d
		default:
			i := strings.IndexByte(line, ' ')
			if i < 0 {
				continue
			}
			raw = line[:i] + d + line[i:]
		}
		toks, err := shellquote.Split(raw)
		if err != nil {
			continue
		}
		out = append(out, RCaseR{Kind: "line", Note: "raw-line", Raw: raw, Tokens: toks})
	}
	return out
}

func genRuleLine(rng *rand.Rand, wantValid bool) RCaseR {
	c := RCaseR{Kind: "line", Valid: true}
	add := func(oc Occ) {
		c.Occs = append(c.Occs, oc)
		switch {
		case oc.Flag == "":
			c.Tokens = append(c.Tokens, oc.Value)
		case oc.Flag == "D":
			c.Tokens = append(c.Tokens, "-D")
		case oc.Eq:
			c.Tokens = append(c.Tokens, "-"+oc.Flag+"="+oc.Value)
		default:
			c.Tokens = append(c.Tokens, "-"+oc.Flag, oc.Value)
		}
	}
	eq := func() bool { return rng.Intn(10) == 0 }
	switch x := rng.Intn(10); {
	case x == 0: // file watch
		paths := []string{filepath.Join(ruleTmp, "file1"), filepath.Join(ruleTmp, "dir1"), filepath.Join(ruleTmp, "dir1") + "/", filepath.Join(ruleTmp, "nonexistent"), "/etc/passwd", filepath.Join(ruleTmp, "dir1", "..", "file1"), "relative/path", "/",
			filepath.Join(ruleTmp, "fifo1"), filepath.Join(ruleTmp, "sock1"), filepath.Join(ruleTmp, "ln-file"), filepath.Join(ruleTmp, "ln-dir"), filepath.Join(ruleTmp, "ln-dangling"), "/dev/null", "/dev/tty", "/proc/self/exe", "/proc/self",
			filepath.Join(ruleTmp, "caf\xe9"), filepath.Join(ruleTmp, "caf\xe9", "sub"), filepath.Join(ruleTmp, "caf\xe9", "men\xfc.txt"), filepath.Join(ruleTmp, "f\xff\xfe"),
			// spellings with ".." behind something that is not a directory, is missing, or is a link elsewhere: the rule holds the
			// path tidied as text, and its kind is that of the path it holds
			ruleTmp + "/file1/..", ruleTmp + "/missing/..", ruleTmp + "/dir1/missing/..", ruleTmp + "/ln-file/..", ruleTmp + "/ln-deep/../file1", ruleTmp + "/ln-deep/..", ruleTmp + "/ln-dangling/../file1",
			ruleTmp + "/dir1/../file1", ruleTmp + "/./dir1/.", ruleTmp + "//file1", ruleTmp + "/fifo1/../dir1"}
		p := paths[rng.Intn(len(paths))]
		if rng.Intn(5) == 0 {
			p = filepath.Join(ruleTmp, "flip")
			c.Flip = []string{"dir", "file"}[rng.Intn(2)]
		}
		if !filepath.IsAbs(p) {
			c.Valid = false
		}
		add(Occ{Flag: "w", Value: p, Eq: eq()})
		if rng.Intn(4) > 0 {
			ps := []string{"r", "w", "x", "a", "rw", "wa", "rwxa", "xa", "ar"}[rng.Intn(9)]
			add(Occ{Flag: "p", Value: ps})
			// -p may be given more than once: the permissions accumulate
			for k := rng.Intn(3); k > 0 && rng.Intn(3) == 0; k-- {
				add(Occ{Flag: "p", Value: []string{"r", "w", "x", "a", "wa", "rx"}[rng.Intn(6)]})
			}
		}
		for k := rng.Intn(3); k > 0; k-- {
			add(Occ{Flag: "k", Value: []string{"key1", "k2,k3", "a-b", "root commands", " padded ", "x , y z"}[rng.Intn(6)]})
		}
	case x == 1 && !wantValid: // delete all
		add(Occ{Flag: "D"})
		if rng.Intn(2) == 0 {
			add(Occ{Flag: "k", Value: "dk"})
		}
		c.Valid = false // Build rejects a delete-all rule
	default:
		list := []string{"exit", "exit", "exit", "task", "user", "exclude"}[rng.Intn(6)]
		action := []string{"always", "never"}[rng.Intn(2)]
		fl := "a"
		if rng.Intn(5) == 0 {
			fl = "A"
		}
		av := action + "," + list
		if rng.Intn(2) == 0 {
			av = list + "," + action
		}
		if !wantValid && rng.Intn(25) == 0 {
			// not exactly one list and one action: too many words, too few, a repeated kind, padding
			av = []string{action + "," + list + ",never", "task," + action + "," + list, list + "," + action + "," + list, action, list, "",
				action + "," + action, list + "," + list, action + ", " + list, " " + action + "," + list + " ", action + ",," + list, "," + action + "," + list}[rng.Intn(12)]
			c.Valid = false
		}
		add(Occ{Flag: fl, Value: av, Eq: eq()})
		nf := rng.Intn(5)
		if rng.Intn(30) == 0 {
			nf = 60 + rng.Intn(7)
		}
		bulk := rng.Intn(40) == 0 // field-count boundary: 62..66 filters that are valid on every list, with or without keys
		if bulk {
			nf = 62 + rng.Intn(5)
		}
		archSeen := ""
		bulkC := rng.Intn(3) // 0: filters only, 1: some inter-field comparisons among them, 2: comparisons only
		for i := 0; i < nf; i++ {
			if bulk && (bulkC == 2 || bulkC == 1 && (i%3 == 2 || i == nf-1)) {
				pairs := [][2]string{{"auid", "uid"}, {"uid", "gid"}, {"euid", "fsuid"}, {"gid", "egid"}}
				pr := pairs[rng.Intn(len(pairs))]
				if _, ok := compareNames[pr[0]+"|"+pr[1]]; !ok {
					pr = [2]string{"auid", "uid"}
				}
				op := []string{"=", "!="}[rng.Intn(2)]
				add(Occ{Flag: "C", LHS: pr[0], Op: op, RHS: pr[1], Value: pr[0] + op + pr[1], Word: u32(uapiCompare[compareNames[pr[0]+"|"+pr[1]]])})
				continue
			}
			if bulk {
				v := uint32(i)
				add(Occ{Flag: "F", LHS: "pid", Op: "=", RHS: strconv.Itoa(i), Value: "pid=" + strconv.Itoa(i), Word: &v})
				continue
			}
			if rng.Intn(8) == 0 {
				ids := []string{"uid", "euid", "suid", "fsuid", "auid", "obj_uid", "gid", "egid", "sgid", "fsgid", "obj_gid"}
				l, r := ids[rng.Intn(len(ids))], ids[rng.Intn(len(ids))]
				op := []string{"=", "!="}[rng.Intn(2)]
				oc := Occ{Flag: "C", LHS: l, Op: op, RHS: r, Value: l + op + r}
				if n, ok := compareNames[l+"|"+r]; ok {
					oc.Word = u32(uapiCompare[n])
				} else {
					c.Valid = false
				}
				add(oc)
				continue
			}
			name := allFieldNames[rng.Intn(len(allFieldNames))]
			op := allOps[rng.Intn(len(allOps))]
			if wantValid || rng.Intn(3) > 0 { // steer towards accepted combinations
				if name == "perm" {
					op = "="
				}
				if (name == "arch" || name == "inode") && rng.Intn(2) == 0 {
					op = []string{"=", "!="}[rng.Intn(2)]
				}
			}
			oc, ok := genFilter(rng, name, op, list)
			if name == "arch" {
				archSeen = oc.RHS
			}
			if !ok {
				c.Valid = false
			}
			add(oc)
		}
		if nf > 63 {
			c.Valid = false // may exceed 64 with keys; let the library decide
		}
		if bulk && rng.Intn(2) == 0 {
			add(Occ{Flag: "k", Value: "bk"})
			if list == "exclude" || nf+1 > 64 {
				c.Valid = false
			}
			return c
		}
		// syscalls
		for k := rng.Intn(3); k > 0; k-- {
			var items []string
			for j := 1 + rng.Intn(4); j > 0; j-- {
				switch rng.Intn(8) {
				case 0:
					items = append(items, "all")
				case 1, 2:
					names := []string{"open", "close", "execve", "connect", "read", "write", "openat", "mount"}
					items = append(items, names[rng.Intn(len(names))])
					if archSeen != "" && strings.ToLower(archSeen) != "b64" && strings.ToLower(archSeen) != "b32" && archSeen != "x86_64" && archSeen != "i386" {
						c.Valid = false // name may not exist on that arch / arch without a table
					}
				case 3:
					items = append(items, strconv.Itoa([]int{0, 31, 32, 63, 2015, 2016, 2047}[rng.Intn(7)]))
				case 4:
					if !wantValid {
						items = append(items, []string{"2048", "2079", "2080", "-1", "4294967296", "99999999999999999999", "nosuchcall", ""}[rng.Intn(8)])
						c.Valid = false
					} else {
						items = append(items, strconv.Itoa(rng.Intn(2048)))
					}
				default:
					items = append(items, strconv.Itoa(rng.Intn(500)))
				}
			}
			add(Occ{Flag: "S", Value: strings.Join(items, ","), Eq: eq()})
		}
		for k := rng.Intn(3); k > 0; k-- {
			add(Occ{Flag: "k", Value: []string{"key1", "k2,k3", "a-b", strings.Repeat("z", 100), "cl\u00e9,\u65e5", "root commands", " padded\t", "x , y z", "a\tb"}[rng.Intn(9)]})
			if list == "exclude" {
				c.Valid = false // the library does not allow a key on the exclude list
			}
		}
		if nf == 64 {
			c.Valid = false
		}
	}
	return c
}

// perturb makes an invalid / adversarial line out of a generated one (C14, C13).
func perturbLine(rng *rand.Rand, c RCaseR) RCaseR {
	c.Valid = false
	out := RCaseR{Kind: "line", Note: "perturbed"}
	junk := []string{"extra", "junk!!", "-", "--", "x=y", "-z", "-help", "-F", "-w", "-p", "-D", "-D=false", "-D=maybe", "", " "}
	for i, oc := range c.Occs {
		if rng.Intn(6) == 0 { // stray positional word before this flag
			w := junk[rng.Intn(3)]
			out.Occs = append(out.Occs, Occ{Flag: "", Value: w})
			out.Tokens = append(out.Tokens, w)
		}
		if oc.Flag == "F" && rng.Intn(4) == 0 { // leading / trailing junk or spaces in the value
			switch rng.Intn(5) {
			case 0:
				oc.Value = "junk!! " + oc.Value
			case 1:
				oc.Value = oc.Value + " trailing words"
				oc.RHS += " trailing words"
			case 2:
				oc.Value = " " + oc.Value
			case 3:
				oc.Value = strings.Replace(oc.Value, oc.Op, oc.Op+oc.Op, 1)
				oc.RHS = oc.Op + oc.RHS
			case 4:
				oc.Value = oc.LHS + "-" + oc.Value
				oc.Op = ""
			}
			if rng.Intn(2) == 0 {
				oc.Op = "" // do not insist on the written decomposition, only on completeness
			}
		}
		if oc.Flag == "C" && rng.Intn(3) == 0 {
			oc.Value += []string{"-junk", " x", "=1"}[rng.Intn(3)]
			oc.Op = ""
		}
		out.Occs = append(out.Occs, oc)
		switch {
		case oc.Flag == "D":
			out.Tokens = append(out.Tokens, "-D")
		case oc.Eq:
			out.Tokens = append(out.Tokens, "-"+oc.Flag+"="+oc.Value)
		default:
			out.Tokens = append(out.Tokens, "-"+oc.Flag, oc.Value)
		}
		if (oc.Flag == "w" || oc.Flag == "a" || oc.Flag == "A") && rng.Intn(6) == 0 { // repeated single-valued flag
			out.Occs = append(out.Occs, oc)
			out.Tokens = append(out.Tokens, "-"+oc.Flag, oc.Value)
		}
		_ = i
	}
	switch rng.Intn(6) {
	case 0: // trailing word
		w := junk[rng.Intn(len(junk))]
		if w == "--" || strings.HasPrefix(w, "-") && w != "-" {
			// a flag-looking token: let the library decide, no intent
			out.Tokens = append(out.Tokens, w)
			out.Occs = nil
		} else {
			out.Occs = append(out.Occs, Occ{Flag: "", Value: w})
			out.Tokens = append(out.Tokens, w)
		}
	case 1: // mix in a flag of another rule kind
		oc := []Occ{{Flag: "D"}, {Flag: "w", Value: "/tmp/x"}, {Flag: "p", Value: "r"}, {Flag: "S", Value: "open"}, {Flag: "F", Value: "pid=1", LHS: "pid", Op: "=", RHS: "1"}}[rng.Intn(5)]
		out.Occs = append(out.Occs, oc)
		if oc.Flag == "D" {
			out.Tokens = append(out.Tokens, "-D")
		} else {
			out.Tokens = append(out.Tokens, "-"+oc.Flag, oc.Value)
		}
	}
	return out
}

// hostileBytes: a valid wire rule with one 32-bit header word replaced by a boundary value, or truncated.
func hostileBytes(rng *rand.Rand, wf []byte) RCaseR {
	b := append([]byte{}, wf...)
	buflen := binary.LittleEndian.Uint32(b[1036:])
	switch rng.Intn(8) {
	case 0:
		b = b[:rng.Intn(len(b)+1)]
	case 1:
		b = append(b, make([]byte, rng.Intn(9))...)
	default:
		// layout in 32-bit words: 0 flags, 1 action, 2 field_count, 3..66 mask, 67..130 fields, 131..194 values, 195..258 fieldflags, 259 buflen
		word := rng.Intn(260)
		fc := int(binary.LittleEndian.Uint32(b[8:]))
		if rng.Intn(2) == 0 && fc > 0 && fc <= 64 {
			i := rng.Intn(fc)
			word = []int{2, 259, 67 + i, 131 + i, 131 + i, 195 + i}[rng.Intn(6)]
		}
		vals := []uint32{0, 1, 63, 64, 65, 0x7FFFFFFF, 0x80000000, 0xFFFFFFFF, 0xFFFFFFFE, buflen - 1, buflen + 1, buflen, 0xFFFFFFFF - buflen + 1, 0xFFFFFFFF - buflen, 0xd2, 0x69, 0x6a}
		binary.LittleEndian.PutUint32(b[4*word:], vals[rng.Intn(len(vals))])
		if rng.Intn(3) == 0 {
			w2 := rng.Intn(260)
			binary.LittleEndian.PutUint32(b[4*w2:], vals[rng.Intn(len(vals))])
		}
	}
	return RCaseR{Kind: "bytes", Hex: hex.EncodeToString(b)}
}

func randomStruct(rng *rand.Rand) RCaseR {
	str := func() string {
		return []string{"", "exit", "always", "never", "task", "user", "exclude", "bogus", "uid", "pid", "arch", "b64", "=", "!=", ">=", "~", "0", "-1", "4294967296", "99999999999999999999", "0x10", "1_0", "open", "all", "2048", "2079", "key", "\x00", "\xff\xfe", strings.Repeat("x", 5000)}[rng.Intn(30)]
	}
	hs := func(s string) string { return common.HexS(s) }
	var fs []string
	nf := rng.Intn(4)
	if rng.Intn(10) == 0 {
		nf = 63 + rng.Intn(5)
	}
	for i := 0; i < nf; i++ {
		ft := []int{1, 2, 2, 2, 0, 3}[rng.Intn(6)]
		lhs, op, rhs := str(), str(), str()
		if rng.Intn(2) == 0 {
			lhs, op, rhs = allFieldNames[rng.Intn(len(allFieldNames))], allOps[rng.Intn(8)], []string{"1", "0x7", "-5", "b64", "r", "file", "/x", "unset"}[rng.Intn(8)]
		}
		fs = append(fs, fmt.Sprintf("%d.%s.%s.%s", ft, hs(lhs), hs(op), hs(rhs)))
	}
	var ss, ks []string
	for i := rng.Intn(3); i > 0; i-- {
		ss = append(ss, hs(str()))
	}
	for i := rng.Intn(3); i > 0; i-- {
		ks = append(ks, hs(str()))
	}
	switch rng.Intn(6) {
	case 0:
		return RCaseR{Kind: "struct", Spec: fmt.Sprintf("W;%s;%s;%s", hs([]string{"/tmp/x", "rel", "", "/a/../b", "//x//y/."}[rng.Intn(5)]), []string{"", "1", "1234", "05"}[rng.Intn(4)], strings.Join(ks, ","))}
	case 1:
		return RCaseR{Kind: "struct", Spec: "D;" + strings.Join(ks, ",")}
	}
	list, action := str(), str()
	if rng.Intn(3) > 0 {
		list, action = []string{"exit", "task", "user", "exclude"}[rng.Intn(4)], []string{"always", "never"}[rng.Intn(2)]
	}
	return RCaseR{Kind: "struct", Spec: fmt.Sprintf("S;%d;%s;%s;%s;%s;%s", 3+rng.Intn(2), hs(list), hs(action), strings.Join(fs, ","), strings.Join(ss, ","), strings.Join(ks, ","))}
}

// ---- known findings of C07 ------------------------------------------------------------------------------------

// c07Known classifies a C07 violation by the narrow input classes of the recorded findings.
func c07Known(ctx *Ctx, c RCaseR, o rObs, why string) string {
	var archIdx []int
	nF := 0
	backslash, emptyStr := false, false
	for _, oc := range c.Occs {
		if oc.Flag == "F" || oc.Flag == "C" {
			if oc.LHS == "arch" {
				archIdx = append(archIdx, nF)
			}
			if oc.Str && oc.RHS == "" {
				emptyStr = true
			}
			nF++
		}
		if strings.Contains(oc.Value, "\\") {
			backslash = true
		}
	}
	for _, f := range ctx.Findings {
		if f.Status != "open" {
			continue
		}
		var mt struct {
			Kind string `json:"kind"`
		}
		json.Unmarshal(f.Matcher, &mt)
		switch mt.Kind {
		case "c07_arch_not_first_or_repeated":
			if (len(archIdx) > 1 || len(archIdx) == 1 && archIdx[0] != 0) && (why == "bytes-differ") {
				return f.ID
			}
		case "c07_backslash_unquoted":
			if backslash && (why == "bytes-differ" || why == "reparse" || why == "rebuild") {
				return f.ID
			}
		case "c07_all_syscalls_listed":
			if why == "bytes-differ" && o.Rule != nil {
				if v, ok := o.Rule.(*rule.SyscallRule); ok && coversAllSyscalls(v.Syscalls) {
					return f.ID
				}
			}
		case "c07_empty_string_value":
			if emptyStr {
				return f.ID
			}
		}
	}
	return ""
}

func coversAllSyscalls(ss []string) bool {
	seen := map[int]bool{}
	for _, s := range ss {
		if n, err := strconv.Atoi(s); err == nil {
			seen[n] = true
		}
	}
	for n := 0; n < 2016; n++ {
		if !seen[n] {
			return false
		}
	}
	return true
}

// ---- family ---------------------------------------------------------------------------------------------------------

func ruleFamily(ctx *Ctx) error {
	res := ctx.Res
	setupRuleTmp(ctx.Verif)
	m, err := common.StartModel()
	if err != nil {
		return err
	}
	defer m.Close()
	res.Assumptions = append(res.Assumptions,
		"shellquote.Split is outside the model: tokens are produced with shellquote.Join and checked to split back unchanged",
		"runtime architecture x86_64; os.Stat and os/user results are passed to the model as parameters",
		"fidelity domain: ASCII values for arch/filetype/msgtype filters (Go applies Unicode case mapping)")
	if ctx.Replay == "" {
		ruleFirstUse(res, ctx.Prop)
	}

	if ctx.Replay != "" {
		b, err := os.ReadFile(ctx.Replay)
		if err != nil {
			return err
		}
		var rp struct {
			Input RCaseR `json:"input"`
		}
		if err := json.Unmarshal(b, &rp); err != nil {
			// two consecutive cases (a result of the first looked at again after the second)
			var rp2 struct {
				Input []RCaseR `json:"input"`
			}
			if err2 := json.Unmarshal(b, &rp2); err2 != nil || len(rp2.Input) < 2 {
				return err
			}
			o1 := runRImpl(rp2.Input[0])
			ruleSnap, wfSnap, txSnap := fmt.Sprintf("%#v", o1.Rule), append([]byte(nil), o1.WF...), strings.Clone(o1.Text)
			o2 := runRImpl(rp2.Input[1])
			fmt.Printf("first : %q\nsecond: %q\nafter the second call, of the first: rule unchanged=%v wire data unchanged=%v text unchanged=%v\n", o1.Line, o2.Line,
				fmt.Sprintf("%#v", o1.Rule) == ruleSnap, bytes.Equal(o1.WF, wfSnap), o1.Text == txSnap)
			return nil
		}
		o := runRImpl(rp.Input)
		rep, _ := m.Ask1(rModelLine(rp.Input, o))
		c7, _ := c07Monitor(rp.Input, o)
		fmt.Printf("line : %q\nimpl : %.300s\nmodel: %.300s\ntext : %q\npanic: %s\nC06: %s\nC07: %s\nC13: %s\nC14: %s\n", o.Line, o.Out, rep, o.Text, o.Panic,
			c06Monitor(rp.Input, o), c7, c13Monitor(rp.Input, o), c14Monitor(rp.Input, o))
		return nil
	}

	idx := 0
	unlisted := 0
	knownHit := map[string]bool{}
	type pendR struct {
		c RCaseR
		o rObs
		i int
	}
	var pend []pendR
	flush := func() {
		if len(pend) == 0 {
			return
		}
		lines := make([]string, len(pend))
		for i, p := range pend {
			lines[i] = rModelLine(p.c, p.o)
		}
		reps, err := m.Ask(lines)
		if err != nil {
			res.Note("model driver: %v", err)
		}
		for i, rep := range reps {
			p := pend[i]
			res.ModelLines++
			if strings.HasPrefix(rep, "unmodelled") {
				res.Unmodelled++
			} else if rep != p.o.Out {
				unlisted++
				res.Violate(common.Violation{Kind: "correspondence", Clause: "Model.Rule/Model.Flags disagree with the rule package (" + p.c.Kind + ")", Input: p.c, Impl: trunc(p.o.Out, 3000), Model: trunc(rep, 3000), Case: p.i, Note: p.o.Line})
			}
		}
		pend = pend[:0]
	}
	// what earlier calls returned stays what it was: the rule, the wire bytes and the text of the last few cases are
	// kept together with a rendering made into fresh memory at the time, and looked at again after every later call
	// (a result that lives in a pooled or shared buffer is rewritten by the next call, not by its own)
	type kept struct {
		c            RCaseR
		rule         rule.Rule
		ruleSnap     string
		wf, wfSnap   []byte
		text, txSnap string
	}
	var ring []kept
	retained := func() string {
		for _, k := range ring {
			if k.rule != nil && fmt.Sprintf("%#v", k.rule) != k.ruleSnap {
				return "the rule flags.Parse returned for an earlier line changed after a later call"
			}
			if !bytes.Equal(k.wf, k.wfSnap) {
				return "the wire data rule.Build returned for an earlier rule changed after a later call"
			}
			if k.text != k.txSnap {
				return "the text rule.ToCommandLine returned for an earlier rule changed after a later call"
			}
		}
		return ""
	}
	run := func(c RCaseR, tag string) rObs {
		o := runRImpl(c)
		if o.NoTok {
			res.Hist("skipped:shellquote")
			return o
		}
		if cl := retained(); cl != "" && unlisted < 8 {
			unlisted++
			pfx := map[string]string{"C06": "C06: ", "C07": "C07: ", "C13": "C13: ", "C14": "C14: "}[ctx.Prop]
			res.Violate(common.Violation{Kind: "monitor", Clause: pfx + cl, Input: []RCaseR{ring[len(ring)-1].c, c}, Case: idx, Note: "two consecutive cases: the first one's results are looked at again after the second"})
			ring = nil
		}
		if o.Panic == "" {
			k := kept{c: c, wf: o.WF, wfSnap: append([]byte(nil), o.WF...), text: o.Text, txSnap: strings.Clone(o.Text)}
			if c.Kind == "line" && o.PErr == nil && o.Rule != nil {
				k.rule, k.ruleSnap = o.Rule, fmt.Sprintf("%#v", o.Rule)
			}
			ring = append(ring, k)
			if len(ring) > 6 {
				ring = ring[1:]
			}
		}
		nt := c.Kind != "line" || len(c.Occs) > 1
		res.Count(c.canon(), nt)
		res.Hist(tag)
		switch {
		case o.Panic != "":
			res.Hist("result:panic")
		case c.Kind == "line" && o.PErr != nil:
			res.Hist("result:parse-error")
		case c.Kind != "bytes" && o.BErr != nil:
			res.Hist("result:build-error")
		case c.Kind != "struct" && o.CErr != nil:
			res.Hist("result:cmdline-error")
		default:
			res.Hist("result:ok")
		}
		viol := func(cl string, known string) {
			v := common.Violation{Kind: "monitor", Clause: cl, Input: c, Impl: trunc(o.Out, 400), Case: idx, Known: known, Note: o.Line}
			if known != "" {
				res.Hist("known:" + known)
				if knownHit[known] {
					return
				}
				knownHit[known] = true
			} else {
				unlisted++
			}
			res.Violate(v)
		}
		if cl := c13Monitor(c, o); cl != "" {
			if ctx.Prop == "C13" {
				viol(cl, "")
			} else if o.Panic != "" {
				// a panic is C13's clause; under a sibling property it is a broken correspondence (the model returns a result)
				res.Hist("sibling_clause_failed")
				unlisted++
				res.Violate(common.Violation{Kind: "correspondence", Clause: "the implementation panicked where the model returns a result (" + c.Kind + ")", Input: c, Impl: "panic", Note: "on this input a clause of a sibling property fails: " + cl, Case: idx})
			}
		}
		switch ctx.Prop {
		case "C06":
			if cl := c06Monitor(c, o); cl != "" {
				viol(cl, "")
			}
		case "C07":
			if cl, why := c07Monitor(c, o); cl != "" {
				viol(cl, c07Known(ctx, c, o, why))
			}
		case "C14":
			if cl := c14Monitor(c, o); cl != "" {
				viol(cl, "")
			}
		}
		if o.Panic == "" {
			pend = append(pend, pendR{c, o, idx})
			if len(pend) >= 300 {
				flush()
			}
		}
		idx++
		return o
	}

	// corpus first
	for _, dir := range []string{"rule", ctx.Prop} {
		for _, f := range ctx.CorpusFiles(dir) {
			b, err := os.ReadFile(f)
			if err != nil {
				return err
			}
			var cs []RCaseR
			if err := json.Unmarshal(b, &cs); err != nil {
				return fmt.Errorf("%s: %w", f, err)
			}
			for _, c := range cs {
				run(c, "corpus")
			}
		}
	}

	// the 64-field boundary, systematically: total fields 63..66, made of filters only / comparisons only /
	// mixed, with the field that reaches or crosses the limit being a filter, a comparison or the key
	for _, c := range fieldBoundaryCases() {
		run(c, "field-boundary")
	}
	// sizes a generated rule does not reach by chance: long syscall lists, strings and keys at the length limits
	for _, c := range ruleLadderCases() {
		run(c, "size-ladder")
	}
	// watch-shaped syscall rules, systematically: every order of path|dir, perm and key written as -F
	// filters, and the near misses of the shape (other list/action, a syscall, a fourth filter, another operator)
	for _, c := range watchShapeCases() {
		run(c, "watch-shape")
	}
	// flag kinds mixed, systematically: every ordered pair and triple of flag kinds (delete / watch /
	// syscall-rule flags with and without -a), and -F / -C values around the operator (cut off inside
	// the operator, blanks on either side, nothing before or after it)
	if ctx.Prop == "C13" || ctx.Prop == "C14" {
		for _, c := range flagMixCases() {
			run(c, "flag-mix")
		}
		for _, c := range operatorEdgeCases() {
			run(c, "operator-edge")
		}
		// one flag repeated 2, 3, 255, 256, 257, 512, 513 times (whatever counts occurrences must not wrap)
		for _, n := range []int{2, 3, 255, 256, 257, 512, 513} {
			for _, oc := range []Occ{{Flag: "w", Value: "/tmp/w"}, {Flag: "a", Value: "always,exit"}, {Flag: "A", Value: "never,exit"}, {Flag: "p", Value: "r"},
				{Flag: "k", Value: "rk"}, {Flag: "S", Value: "open"}, {Flag: "D"}} {
				c := RCaseR{Kind: "line", Note: "flag-repeat"}
				lead := Occ{Flag: "a", Value: "always,exit"}
				if oc.Flag == "w" || oc.Flag == "p" {
					lead = Occ{Flag: "w", Value: "/tmp/first"}
				}
				if oc.Flag != "a" && oc.Flag != "A" && oc.Flag != "D" && !(oc.Flag == "w") {
					c.Occs = append(c.Occs, lead)
					c.Tokens = append(c.Tokens, "-"+lead.Flag, lead.Value)
				}
				for i := 0; i < n; i++ {
					o2 := oc
					if oc.Flag == "w" {
						o2.Value = fmt.Sprintf("/tmp/w%d", i)
					}
					c.Occs = append(c.Occs, o2)
					if o2.Flag == "D" {
						c.Tokens = append(c.Tokens, "-D")
					} else {
						c.Tokens = append(c.Tokens, "-"+o2.Flag, o2.Value)
					}
				}
				run(c, "flag-repeat")
			}
		}
		// the flag loop, bounded exhaustive: every sequence of up to 3 (thorough: 4) tokens — flags with and
		// without their values, inline values, values that look like flags, the terminator, stray words (no
		// intent attached: model and library must agree, and nothing may panic)
		toks := []string{"-a", "always,exit", "-A", "-F", "pid=1", "-F=uid=2", "-S", "open", "-k", "x", "-w", "/tmp/x", "-p", "r", "-D", "-D=false", "-C", "auid!=uid", "--", "-", "junk", "-k=", "--k", "-help"}
		maxLen := 3
		if ctx.Thorough() {
			maxLen = 4
		}
		var rec func(prefix []string)
		rec = func(prefix []string) {
			if len(prefix) > 0 {
				run(RCaseR{Kind: "line", Note: "flag-grammar", Tokens: append([]string{}, prefix...)}, "flag-grammar")
			}
			if len(prefix) == maxLen || unlisted >= 8 {
				return
			}
			for _, tk := range toks {
				rec(append(prefix, tk))
			}
		}
		rec(nil)
	}
	// Rule structs with degenerate filter parts, systematically (Build takes any Rule value, not only what
	// flags.Parse produces): every field name with an empty / sign-only / blank value, and empty names and operators
	if ctx.Prop == "C13" {
		for _, c := range degenerateStructCases() {
			run(c, "degenerate-struct")
		}
	}
	if ctx.Prop == "C14" || ctx.Prop == "C13" {
		for _, c := range rawLineCases(ctx.Rng, ctx.N(400, 6000)) {
			run(c, "raw-line")
		}
	}
	n := ctx.N(6000, 150000)
	res.Rule = "rule lines built from flag occurrences (every list x action, every field name x every operator with boundary and random values in decimal/hex/octal/negative/name spellings, 0..66 filters, inter-field comparisons, syscall sets by number and name incl. 'all', keys, file watches on real temp files/dirs) plus perturbed lines (stray words, junk around -F/-C values, repeated and mixed flags), hostile wire bytes (each 32-bit header word replaced by boundary values, truncations) and random Rule structs; each goes through flags.Parse -> Build -> ToCommandLine on the real code and on the model, and through the property monitors. Non-trivial = more than one flag occurrence, or hostile bytes/struct; distinct by canonical case."
	var wires [][]byte
	for i := 0; i < n && unlisted < 8; i++ {
		c := genRuleLine(ctx.Rng, ctx.Prop == "C06" || ctx.Prop == "C07")
		if i < 3 {
			res.Sample(c)
		}
		o := run(c, "generated")
		if o.BErr == nil && o.WF != nil && len(wires) < 400 {
			wires = append(wires, o.WF)
		}
		if ctx.Prop == "C14" || ctx.Prop == "C13" || i%5 == 0 {
			run(perturbLine(ctx.Rng, c), "perturbed")
		}
		if (ctx.Prop == "C13" || i%7 == 0) && len(wires) > 0 {
			run(hostileBytes(ctx.Rng, wires[ctx.Rng.Intn(len(wires))]), "hostile-bytes")
			run(randomStruct(ctx.Rng), "random-struct")
		}
	}
	// table-index sweep (C13, C07): in rules of every field class the value word, the field code and the
	// operator word of the first field are replaced by every small number (codes just past the end of a built-in
	// table are not boundary values of anything else)
	if ctx.Prop == "C13" || ctx.Prop == "C07" {
		bases := []string{"-a always,exit -C auid=uid", "-a always,exit -F perm=wa", "-a always,exit -F filetype=file", "-a always,user -F msgtype=USER_LOGIN",
			"-a always,exit -F arch=b64 -S open", "-a always,exit -F exit=-2", "-a always,exit -F uid=0", "-a always,exit -F key=k", "-a always,exit -F a0=1"}
		for _, line := range bases {
			r, err := flags.Parse(line)
			if err != nil {
				continue
			}
			wf, err := rule.Build(r)
			if err != nil || len(wf) < 1040 {
				continue
			}
			for v := uint32(0); v <= 300; v++ {
				for _, word := range []int{131, 67} { // value word / field code of field 0
					if word == 67 && ctx.Prop != "C13" {
						continue
					}
					b := append([]byte{}, wf...)
					binary.LittleEndian.PutUint32(b[4*word:], v)
					run(RCaseR{Kind: "bytes", Hex: hex.EncodeToString(b), Note: "table-index"}, "table-index-sweep")
				}
			}
			// … and by numbers whose interesting part sits in higher bits (a table indexed by `v >> 12`, by a byte of
			// the word, by the sign bit): every small number shifted to every byte and nibble boundary, and 2^k, 2^k ± 1
			{
				var vs []uint32
				for k := uint32(0); k <= 17; k++ {
					for _, sh := range []uint{4, 8, 12, 16, 20, 24, 28} {
						vs = append(vs, k<<sh, k<<sh|1, k<<sh-1)
					}
				}
				for k := uint(0); k < 32; k++ {
					vs = append(vs, 1<<k, 1<<k-1, 1<<k+1)
				}
				vs = append(vs, 0xffffffff, 0xfffffffe, 0x80000000, 0x7fffffff)
				for _, v := range vs {
					b := append([]byte{}, wf...)
					binary.LittleEndian.PutUint32(b[4*131:], v)
					run(RCaseR{Kind: "bytes", Hex: hex.EncodeToString(b), Note: "table-index"}, "table-index-sweep")
					// the same number written as the value of the filter in a rule given to Build
					if f0 := strings.SplitN(strings.SplitN(line, " -F ", 2)[len(strings.SplitN(line, " -F ", 2))-1], "=", 2); strings.Contains(line, " -F ") && len(f0) == 2 {
						la := strings.Split(strings.Fields(line)[1], ",")
						hs := func(x string) string { return common.HexS(x) }
						run(RCaseR{Kind: "struct", Note: "table-index",
							Spec: fmt.Sprintf("S;3;%s;%s;%s;;", hs(la[1]), hs(la[0]), fmt.Sprintf("2.%s.%s.%s", hs(f0[0]), hs("="), hs(strconv.FormatUint(uint64(v), 10))))}, "table-index-sweep")
					}
				}
			}
			for _, op := range []uint32{0, 0x08000000, 0x10000000, 0x18000000, 0x20000000, 0x28000000, 0x30000000, 0x38000000, 0x40000000, 0x48000000, 0x50000000, 0x58000000, 0x60000000, 0x68000000, 0x70000000, 0x78000000, 0x80000000} {
				b := append([]byte{}, wf...)
				binary.LittleEndian.PutUint32(b[4*195:], op)
				run(RCaseR{Kind: "bytes", Hex: hex.EncodeToString(b), Note: "table-index"}, "table-index-sweep")
			}
		}
	}
	// C13 thorough: every header word of a few rules replaced by every boundary value
	if ctx.Prop == "C13" && len(wires) > 0 {
		k := ctx.N(2, 12)
		// prefer rules with several string fields (offsets into the buffer are then non-zero)
		sort.SliceStable(wires, func(i, j int) bool { return stringFieldCount(wires[i]) > stringFieldCount(wires[j]) })
		for w := 0; w < k && w < len(wires) && unlisted < 8; w++ {
			wf := wires[w]
			buflen := binary.LittleEndian.Uint32(wf[1036:])
			for word := 0; word < 260; word++ {
				for _, v := range []uint32{0, 1, 63, 64, 65, 0x7FFFFFFF, 0x80000000, 0xFFFFFFFF, buflen - 1, buflen + 1, 0xFFFFFFFF - buflen + 1} {
					b := append([]byte{}, wf...)
					binary.LittleEndian.PutUint32(b[4*word:], v)
					run(RCaseR{Kind: "bytes", Hex: hex.EncodeToString(b)}, "hostile-word-sweep")
				}
			}
			for l := 0; l <= len(wf); l += 1 + len(wf)/200 {
				run(RCaseR{Kind: "bytes", Hex: hex.EncodeToString(wf[:l])}, "truncation-sweep")
			}
		}
	}
	flush()
	// open known findings: replay witnesses
	for _, f := range ctx.Findings {
		if f.Status != "open" {
			continue
		}
		still := false
		if f.Witness != "" {
			if b, err := os.ReadFile(filepath.Join(ctx.Verif, f.Witness)); err == nil {
				var cs []RCaseR
				if json.Unmarshal(b, &cs) == nil {
					for _, c := range cs {
						o := runRImpl(c)
						if cl, why := c07Monitor(c, o); cl != "" && c07Known(ctx, c, o, why) == f.ID {
							still = true
						}
					}
				}
			}
		}
		res.Known = append(res.Known, common.KnownStatus{ID: f.ID, What: f.What, StillFails: still})
	}
	return nil
}

func stringFieldCount(wf []byte) int {
	v, _ := decodeArd(wf)
	if v == nil || v.fieldCount > 64 {
		return 0
	}
	n := 0
	for i := 0; i < int(v.fieldCount); i++ {
		for name, code := range uapiFields {
			if code == v.fields[i] && stringFieldNames[name] {
				n++
			}
		}
	}
	return n
}

func trunc(s string, n int) string {
	if len(s) > n {
		return s[:n] + "…"
	}
	return s
}
