package main

// Coalescer family, property C09: every field kept, identity kept, file facts mirror the
// selected PATH record.  (C15 lives in coalesce15.go and shares the helpers.)

import (
	"encoding/json"
	"fmt"
	"os"
	"sort"
	"strconv"
	"strings"
	"sync"
	"time"

	"github.com/elastic/go-libaudit/v2/aucoalesce"
	"github.com/elastic/go-libaudit/v2/auparse"

	"verifharness/internal/coal"
	"verifharness/internal/common"
)

func init() {
	families["C09"] = c09Family
}

// C09Case is one call of CoalesceMessages.
type C09Case struct {
	Recs []coal.Rec `json:"recs"`
	Note string     `json:"note,omitempty"`
}

func (c C09Case) canon() string { b, _ := json.Marshal(c.Recs); return string(b) }

// coRecView is a deep copy of what a message reported before CoalesceMessages ran.
type coRecView struct {
	typ  uint16
	data map[string]string // nil: Data() failed
	ms   int64
	seq  uint32
}

type c09Run struct {
	views    []coRecView
	line     string // request for the model
	ev       *aucoalesce.Event
	perr     error // the primary record's Data() error (newEvent attaches it as is)
	obs      string
	buildErr error
}

func coCopyMap(m map[string]string) map[string]string {
	out := make(map[string]string, len(m))
	for k, v := range m {
		out[k] = v
	}
	return out
}

// c09FineTime: the identity clause for records whose time the caller set through the exported field (a record that came
// by another route than audit text, which has millisecond resolution): the messages are built again, every Timestamp is
// moved by a fraction of a millisecond (and, in turn, given a zone and a monotonic reading), and the event must carry
// exactly the first record's time, sequence and type.
func c09FineTime(c C09Case, variant int) string {
	msgs, err := coal.BuildAll(c.Recs)
	if err != nil || len(msgs) == 0 {
		return ""
	}
	for i, m := range msgs {
		switch variant % 3 {
		case 0:
			m.Timestamp = m.Timestamp.Add(time.Duration(456789 + 1000*i))
		case 1:
			m.Timestamp = m.Timestamp.Add(time.Duration(999999)).In(time.FixedZone("x", 5*3600+1800))
		default:
			m.Timestamp = time.Now().Add(time.Duration(i) * time.Nanosecond) // carries a monotonic reading
		}
	}
	first := msgs[0]
	want := first.Timestamp
	var ev *aucoalesce.Event
	func() {
		defer func() { recover() }()
		ev, err = aucoalesce.CoalesceMessages(msgs)
	}()
	if err != nil || ev == nil {
		return ""
	}
	if !ev.Timestamp.Equal(want) || ev.Timestamp.UnixNano() != want.UnixNano() {
		return fmt.Sprintf("identity — identity: the first record's Timestamp is %s, the event's is %s", want.Format(time.RFC3339Nano), ev.Timestamp.Format(time.RFC3339Nano))
	}
	if ev.Sequence != first.Sequence || ev.Type != first.RecordType {
		return fmt.Sprintf("identity — identity: the first record has sequence %d and type %d, the event %d and %d", first.Sequence, first.RecordType, ev.Sequence, ev.Type)
	}
	return ""
}

func runC09Impl(c C09Case) c09Run {
	guardEnter(c)
	defer guardLeave()
	var r c09Run
	msgs, err := coal.BuildAll(c.Recs)
	if err != nil {
		r.buildErr = err
		return r
	}
	words := make([]string, 0, len(msgs)+2)
	words = append(words, "coal", "run")
	for _, m := range msgs {
		words = append(words, coal.View(m))
		v := coRecView{typ: uint16(m.RecordType), ms: m.Timestamp.UnixMilli(), seq: m.Sequence}
		if d, err := m.Data(); err == nil {
			v.data = coCopyMap(d)
		}
		r.views = append(r.views, v)
	}
	r.line = strings.Join(words, " ")
	r.ev, r.obs = coal.RunCoalesce(msgs)
	if r.ev != nil {
		r.perr = coal.PrimaryErr(msgs)
	}
	return r
}

// ---- the property monitor -----------------------------------------------------------------

var coProcessKeys = map[string]func(*aucoalesce.Event) string{
	"pid":       func(e *aucoalesce.Event) string { return e.Process.PID },
	"ppid":      func(e *aucoalesce.Event) string { return e.Process.PPID },
	"proctitle": func(e *aucoalesce.Event) string { return e.Process.Title },
	"comm":      func(e *aucoalesce.Event) string { return e.Process.Name },
	"exe":       func(e *aucoalesce.Event) string { return e.Process.Exe },
	"cwd":       func(e *aucoalesce.Event) string { return e.Process.CWD },
}

func coHasKV(m map[string]string, k, v string) bool {
	x, ok := m[k]
	return ok && x == v
}

// coLocated: the pair is present somewhere in the event (the property's list of places).
func coLocated(ev *aucoalesce.Event, k, v string) bool {
	if coHasKV(ev.Data, k, v) || coHasKV(ev.User.IDs, k, v) || coHasKV(ev.Data, "socket_"+k, v) {
		return true
	}
	if strings.HasPrefix(k, "subj_") && coHasKV(ev.User.SELinux, k[5:], v) {
		return true
	}
	if (k == "result" && ev.Result == v) || (k == "ses" && ev.Session == v) {
		return true
	}
	if f, ok := coProcessKeys[k]; ok && f(ev) == v {
		return true
	}
	if ev.Source != nil && ev.Source.IP == v {
		return true
	}
	for _, p := range ev.Paths {
		if coHasKV(p, k, v) {
			return true
		}
	}
	if len(k) > 1 && k[0] == 'a' {
		if i, err := strconv.Atoi(k[1:]); err == nil && i >= 0 && strconv.Itoa(i) == k[1:] && i < len(ev.Process.Args) && ev.Process.Args[i] == v {
			return true
		}
	}
	return false
}

// coWarned: a warning naming the record type and key (or the record as a whole) is attached.
func coWarned(classes map[string]bool, typ uint16, k string) bool {
	t := strconv.Itoa(int(typ))
	if classes["dup:"+coal.Hx(k)+":"+t] || classes["dup:"+coal.Hx("socket_"+k)+":"+t] {
		return true
	}
	switch typ {
	case coTSOCKADDR:
		return classes["sockaddr-nosyscall"]
	case tEXECVE:
		if classes["noargc"] || classes["badargc"] {
			return true
		}
		for c := range classes {
			if strings.HasPrefix(c, "noarg:") {
				return true
			}
		}
	}
	return false
}

func coIsOtherKind(typ uint16) bool {
	return typ != tSYSCALL && typ != tPATH && typ != coTSOCKADDR && typ != tEXECVE
}

// wellFormedC09 mirrors LA.Coalesce.WellFormed (Props/C09.lean): the groups the conservation
// clause is claimed for.
func wellFormedC09(recs []coRecView) bool {
	if len(recs) <= 1 {
		return true
	}
	nSys, nExec := 0, 0
	var sys *coRecView
	for i := range recs {
		switch recs[i].typ {
		case tSYSCALL:
			nSys++
			if sys == nil {
				sys = &recs[i]
			}
		case tEXECVE:
			nExec++
		}
	}
	if nSys != 1 || nExec > 1 {
		return false
	}
	_, sysHasItems := sys.data["items"]
	for i := range recs {
		r := &recs[i]
		if r.data == nil {
			continue
		}
		if coIsOtherKind(r.typ) && !sysHasItems {
			if _, ok := r.data["items"]; ok {
				return false
			}
		}
		if r.typ == tEXECVE {
			argc, ok := r.data["argc"]
			if !ok {
				continue
			}
			n, err := strconv.ParseUint(argc, 10, 32)
			if err != nil {
				continue
			}
			for k := range r.data {
				if k == "argc" {
					continue
				}
				good := false
				if len(k) > 1 && k[0] == 'a' {
					if i, err := strconv.ParseUint(k[1:], 10, 64); err == nil && strconv.FormatUint(i, 10) == k[1:] && i < n {
						good = true
					}
				}
				if !good {
					return false
				}
			}
		}
	}
	return true
}

var coModeTypeNames = map[uint64]string{0o100000: "file", 0o040000: "directory", 0o020000: "character-device",
	0o060000: "block-device", 0o010000: "named-pipe", 0o120000: "symlink", 0o140000: "socket"}

func coMapsEqual(a, b map[string]string) bool {
	if len(a) != len(b) {
		return false
	}
	for k, v := range a {
		if x, ok := b[k]; !ok || x != v {
			return false
		}
	}
	return true
}

// c09Verdict is what the monitor found.
type c09Verdict struct {
	Failing  []string // clause ids, empty = property holds on this case
	Detail   string
	SelModes []uint64 // parsed modes of the PATH records the file summary mirrors
}

func (v c09Verdict) ok() bool { return len(v.Failing) == 0 }

func monitorC09(views []coRecView, ev *aucoalesce.Event, obs string) c09Verdict {
	var vd c09Verdict
	fail := func(clause, detail string) {
		for _, f := range vd.Failing {
			if f == clause {
				return
			}
		}
		vd.Failing = append(vd.Failing, clause)
		if vd.Detail == "" {
			vd.Detail = clause + ": " + detail
		}
	}
	if obs == "panic" {
		fail("panic", "CoalesceMessages panicked")
		return vd
	}
	recs := views
	if n := len(recs); n > 0 && recs[n-1].typ == tEOE {
		recs = recs[:n-1]
	}
	// errors instead of partial events
	nSys := 0
	for _, r := range recs {
		if r.typ == tSYSCALL {
			nSys++
		}
	}
	switch {
	case len(recs) == 0:
		if obs != "err:empty" {
			fail("errors", "no records must give an error and no event, got "+obs)
		}
		return vd
	case len(recs) >= 2 && nSys == 0:
		if obs != "err:nosyscall" {
			fail("errors", "a group without SYSCALL must give an error and no event, got "+obs)
		}
		return vd
	}
	if ev == nil {
		fail("errors", "well-formed input must give an event, got "+obs)
		return vd
	}
	// identity
	first := recs[0]
	if ev.Timestamp.UnixMilli() != first.ms || ev.Sequence != first.seq || uint16(ev.Type) != first.typ {
		fail("identity", fmt.Sprintf("event has ts=%d seq=%d type=%d, first record ts=%d seq=%d type=%d",
			ev.Timestamp.UnixMilli(), ev.Sequence, ev.Type, first.ms, first.seq, first.typ))
	}
	if ev.Category != aucoalesce.GetAuditEventType(auparse.AuditMessageType(first.typ)) {
		fail("identity", "category is not that of the first record's type")
	}
	classes := map[string]bool{}
	for _, w := range ev.Warnings {
		classes[coal.ClassifyWarning(w, nil)] = true
	}
	compound := len(recs) > 1
	// PATH records are kept whole and in order
	if compound {
		var want []map[string]string
		for _, r := range recs {
			if r.typ == tPATH && r.data != nil {
				want = append(want, r.data)
			}
		}
		same := len(want) == len(ev.Paths)
		for i := 0; same && i < len(want); i++ {
			same = coMapsEqual(want[i], ev.Paths[i])
		}
		if !same {
			fail("paths", fmt.Sprintf("event.Paths has %d entries, the group has %d parsable PATH records (or their contents differ)", len(ev.Paths), len(want)))
		}
	}
	// conservation
	if wellFormedC09(recs) {
		for i, r := range recs {
			if r.data == nil {
				continue
			}
			for _, k := range common.SortedKeys(r.data) {
				v := r.data[k]
				if coLocated(ev, k, v) || coWarned(classes, r.typ, k) {
					continue
				}
				if compound && r.typ == tSYSCALL && k == "items" {
					continue
				}
				fail("conservation", fmt.Sprintf("record %d (type %d): %q=%q is nowhere in the event and no warning names it", i, r.typ, k, v))
			}
		}
	}
	// file facts
	if ev.File != nil {
		f := ev.File
		type cand struct {
			mode   uint64
			parsed bool
		}
		var cands []cand
		for _, p := range ev.Paths {
			if f.Path != p["name"] || f.Inode != p["inode"] || f.Device != p["rdev"] {
				continue
			}
			c := cand{}
			mv, hasMode := p["mode"]
			var perr error
			if hasMode {
				c.mode, perr = strconv.ParseUint(mv, 8, 64)
				c.parsed = perr == nil
			}
			if hasMode && perr != nil {
				if f.Mode != "" || f.UID != "" || f.GID != "" || len(f.SELinux) != 0 || !classes["fileobj"] {
					continue
				}
			} else {
				wantMode := ""
				if hasMode {
					wantMode = fmt.Sprintf("%04o", c.mode&0o7777)
				}
				labels := map[string]string{}
				for k, v := range p {
					if strings.HasPrefix(k, "obj_") {
						labels[k[4:]] = v
					}
				}
				if f.Mode != wantMode || f.UID != p["ouid"] || f.GID != p["ogid"] || !coMapsEqual(labels, f.SELinux) {
					continue
				}
			}
			cands = append(cands, c)
		}
		if len(cands) == 0 {
			fail("file", fmt.Sprintf("file summary %+v mirrors none of the %d PATH records (name, inode, rdev, mode&07777 as %%04o, ouid, ogid, obj_ labels)", *f, len(ev.Paths)))
		} else {
			okType := false
			for _, c := range cands {
				if !c.parsed {
					okType = true
					continue
				}
				vd.SelModes = append(vd.SelModes, c.mode)
				want, known := coModeTypeNames[c.mode&0o170000]
				if c.mode >= 1<<16 { // not an st_mode value: the property does not say what its type is
					known = false
				}
				if !known || ev.Summary.Object.Type == want {
					okType = true
				}
			}
			if !okType {
				c := cands[0]
				fail("objtype", fmt.Sprintf("summary.object.type=%q but the selected PATH record has mode %#o (%s)", ev.Summary.Object.Type, c.mode, coModeTypeNames[c.mode&0o170000]))
			}
		}
	}
	sort.Strings(vd.Failing)
	return vd
}

// knownC09 applies the matchers of the open findings: KF-C09-objtype explains a violation only
// if the object-type clause is the only one failing and every PATH record the summary mirrors
// has file-type bits other than S_IFREG.
func knownC09(ctx *Ctx, vd c09Verdict) string {
	for _, f := range ctx.Findings {
		if f.Status != "open" {
			continue
		}
		var m struct {
			Kind string `json:"kind"`
		}
		json.Unmarshal(f.Matcher, &m)
		if m.Kind != "c09_objtype_only" {
			continue
		}
		if len(vd.Failing) != 1 || vd.Failing[0] != "objtype" || len(vd.SelModes) == 0 {
			continue
		}
		all := true
		for _, mode := range vd.SelModes {
			if mode&0o170000 == 0o100000 {
				all = false
			}
		}
		if all {
			return f.ID
		}
	}
	return ""
}

// ---- one case -----------------------------------------------------------------------------

func c09Tags(c C09Case, r c09Run) (bool, []string) {
	var tags []string
	recs := r.views
	if n := len(recs); n > 0 && recs[n-1].typ == tEOE {
		recs = recs[:n-1]
		tags = append(tags, "trailing_eoe")
	}
	tags = append(tags, fmt.Sprintf("records=%d", len(recs)))
	nontrivial := false
	for _, v := range recs {
		if v.data == nil {
			tags = append(tags, "data_failed")
			nontrivial = true
		}
	}
	if len(recs) > 0 && recs[0].typ != tSYSCALL && len(recs) > 1 {
		tags = append(tags, "syscall_not_first")
		nontrivial = true
	}
	if !wellFormedC09(recs) {
		tags = append(tags, "not_wellformed")
	}
	for _, rec := range c.Recs {
		if len(rec.Edits) > 0 {
			tags = append(tags, "edited_cache")
			break
		}
	}
	if r.ev != nil {
		seen := map[string]bool{}
		for _, w := range r.ev.Warnings {
			cl := coal.ClassifyWarning(w, r.perr)
			if strings.HasPrefix(cl, "unknown:") {
				cl = "unknown:" + coFirstWords(w.Error(), 4)
			} else if i := strings.IndexByte(cl, ':'); i > 0 && !strings.HasPrefix(cl, "parse:") {
				cl = cl[:i]
			}
			if !seen[cl] {
				seen[cl] = true
				tags = append(tags, "warn_"+cl)
				if cl != "nonorm" {
					nontrivial = true
				}
			}
		}
		if r.ev.File != nil {
			tags = append(tags, "file_object")
			nontrivial = true
		}
		if len(r.ev.Paths) > 1 || r.ev.Source != nil || r.ev.Dest != nil || len(r.ev.Process.Args) > 0 {
			nontrivial = true
		}
		if len(recs) > 2 {
			nontrivial = true
		}
	} else {
		tags = append(tags, "obs_"+strings.SplitN(r.obs, ":", 3)[0])
	}
	return nontrivial, tags
}

// evalC09 runs monitor (and, given the model's reply, the correspondence) on one executed case.
func evalC09(ctx *Ctx, c C09Case, r c09Run, reply string, idx int) *common.Violation {
	if r.buildErr != nil {
		return &common.Violation{Kind: "monitor", Clause: "harness: record does not parse: " + r.buildErr.Error(), Input: c, Case: idx}
	}
	vd := monitorC09(r.views, r.ev, r.obs)
	if !vd.ok() {
		v := &common.Violation{Kind: "monitor", Clause: strings.Join(vd.Failing, ",") + " — " + vd.Detail, Input: c, Impl: r.obs, Model: reply, Case: idx}
		v.Known = knownC09(ctx, vd)
		if v.Known == "" || reply == r.obs {
			return v
		}
		// explained by a known finding, but model and code must still agree
	}
	if reply != r.obs {
		return &common.Violation{Kind: "correspondence", Clause: "Model.Coalesce.coalesce disagrees with CoalesceMessages: " + coFirstDiff(r.obs, reply),
			Input: c, Impl: r.obs, Model: reply, Case: idx}
	}
	return nil
}

func coFirstWords(s string, n int) string {
	f := strings.Fields(s)
	if len(f) > n {
		f = f[:n]
	}
	return strings.Join(f, "_")
}

// coFirstDiff names the first field of the flattened event that differs.
func coFirstDiff(a, b string) string {
	fa, fb := strings.Split(a, ";"), strings.Split(b, ";")
	for i := 0; i < len(fa) && i < len(fb); i++ {
		if fa[i] != fb[i] {
			return "impl " + fa[i] + " / model " + fb[i]
		}
	}
	return "impl " + a + " / model " + b
}

func runC09One(ctx *Ctx, m *common.Model, c C09Case, idx int) *common.Violation {
	r := runC09Impl(c)
	reply := ""
	if r.buildErr == nil {
		rep, err := m.Ask1(r.line)
		if err != nil {
			return &common.Violation{Kind: "correspondence", Clause: "model driver failed: " + err.Error(), Input: c, Case: idx}
		}
		reply = rep
	}
	return evalC09(ctx, c, r, reply, idx)
}

// shrinkC09 drops records, edits and body tokens while the case keeps failing the same way.
func shrinkC09(ctx *Ctx, m *common.Model, c C09Case, v *common.Violation) C09Case {
	sig := func(x *common.Violation) string {
		if x == nil {
			return ""
		}
		s := x.Kind + "|" + x.Known
		if x.Kind == "monitor" {
			s += "|" + strings.SplitN(x.Clause, " — ", 2)[0]
		}
		return s
	}
	want := sig(v)
	quiet := &Ctx{Prop: ctx.Prop, Findings: ctx.Findings, Res: common.NewResult(ctx.Prop, ctx.Tier, ctx.Seed)}
	fails := func(x C09Case) bool { return sig(runC09One(quiet, m, x, 0)) == want }
	clone := func(x C09Case) C09Case {
		y := C09Case{Note: x.Note, Recs: append([]coal.Rec{}, x.Recs...)}
		for i := range y.Recs {
			y.Recs[i].Edits = append([]coal.Edit{}, y.Recs[i].Edits...)
		}
		return y
	}
	for changed, rounds := true, 0; changed && rounds < 6; rounds++ {
		changed = false
		for i := 0; i < len(c.Recs); i++ {
			x := clone(c)
			x.Recs = append(x.Recs[:i], x.Recs[i+1:]...)
			if fails(x) {
				c, changed = x, true
				i--
			}
		}
		for i := range c.Recs {
			for j := 0; j < len(c.Recs[i].Edits); j++ {
				x := clone(c)
				x.Recs[i].Edits = append(x.Recs[i].Edits[:j], x.Recs[i].Edits[j+1:]...)
				if fails(x) {
					c, changed = x, true
					j--
				}
			}
			toks := strings.Fields(c.Recs[i].Body)
			for j := 0; j < len(toks); j++ {
				x := clone(c)
				nt := append(append([]string{}, toks[:j]...), toks[j+1:]...)
				x.Recs[i].Body = strings.Join(nt, " ")
				if fails(x) {
					c, changed = x, true
					toks = nt
					j--
				}
			}
		}
	}
	return c
}

// coalStartModel starts the Lean driver of this verif tree (check passes VERIF_DRIVER on normal
// runs; on --replay it does not, and the default path is the main copy's).
func coalStartModel(ctx *Ctx) (*common.Model, error) {
	if os.Getenv("VERIF_DRIVER") == "" {
		common.DriverPath = ctx.Verif + "/lean/.lake/build/bin/driver"
	}
	return common.StartModel()
}

// ---- the family ---------------------------------------------------------------------------

func c09Family(ctx *Ctx) error {
	res := ctx.Res
	res.Rule = "each case is one CoalesceMessages call on messages built by the real parser (optionally with edited cached Data() maps); the messages' Data()/Tags() results are fed to Model.Coalesce.coalesce over the regenerated tables and the flattened events compared (every exported field, maps sorted, warnings as a sorted multiset of classes); the property monitor (identity, errors, PATH records whole and in order, conservation on well-formed groups, file facts incl. mode&07777 and object type) runs on the real event. Non-trivial = a record's Data() failed, SYSCALL not first, any warning other than 'no normalization', a file object, >1 PATH, addresses, args or >2 records; distinct by hash of the records."
	res.Assumptions = append(res.Assumptions,
		"input to the model is what the real Data()/Tags() return, so the parser is outside this model",
		"edited cached maps stand for Data() results the parser does not produce itself (arbitrary key bytes, missing argc); they are marked edited_cache in the histogram")

	nw := 4
	if ctx.Thorough() {
		nw = 8
	}
	models := make([]*common.Model, nw)
	for i := range models {
		m, err := coalStartModel(ctx)
		if err != nil {
			return err
		}
		defer m.Close()
		models[i] = m
	}
	m0 := models[0]

	if ctx.Replay != "" {
		b, err := os.ReadFile(ctx.Replay)
		if err != nil {
			return err
		}
		var rp struct {
			Input C09Case `json:"input"`
		}
		if err := json.Unmarshal(b, &rp); err != nil {
			return err
		}
		if rp.Input.Recs == nil { // a corpus file is the bare case
			json.Unmarshal(b, &rp.Input)
		}
		r := runC09Impl(rp.Input)
		reply, _ := m0.Ask1(r.line)
		vd := monitorC09(r.views, r.ev, r.obs)
		fmt.Println("request:", r.line)
		fmt.Println("impl:   ", r.obs)
		fmt.Println("model:  ", reply)
		fmt.Printf("monitor: failing=%v %s known=%q\n", vd.Failing, vd.Detail, knownC09(ctx, vd))
		return nil
	}

	// open known findings: replay the stored witness
	for _, f := range ctx.Findings {
		if f.Status != "open" || f.Witness == "" {
			continue
		}
		b, err := os.ReadFile(ctx.Verif + "/" + f.Witness)
		if err != nil {
			return fmt.Errorf("known finding %s: %w", f.ID, err)
		}
		var c C09Case
		if err := json.Unmarshal(b, &c); err != nil {
			return fmt.Errorf("known finding %s: %w", f.ID, err)
		}
		r := runC09Impl(c)
		vd := monitorC09(r.views, r.ev, r.obs)
		res.Known = append(res.Known, common.KnownStatus{ID: f.ID, What: f.What, StillFails: !vd.ok() && knownC09(ctx, vd) == f.ID})
	}

	var mu sync.Mutex
	knownHits := 0
	report := func(v *common.Violation, c C09Case, m *common.Model) {
		if v == nil {
			return
		}
		if v.Known != "" {
			mu.Lock()
			knownHits++
			first := knownHits == 1
			mu.Unlock()
			res.Hist("known:" + v.Known)
			if !first {
				return
			}
		} else if res.NumViolations() >= 8 {
			return
		}
		sc := shrinkC09(ctx, m, c, v)
		if v2 := runC09One(&Ctx{Prop: ctx.Prop, Findings: ctx.Findings, Res: common.NewResult(ctx.Prop, ctx.Tier, ctx.Seed)}, m, sc, v.Case); v2 != nil && v2.Kind == v.Kind {
			v2.Case = v.Case
			v = v2
		}
		res.Violate(*v)
	}

	// batch runner: executes cases on the workers, model requests batched per worker
	idx := 0
	runBatch := func(cases []C09Case) {
		base := idx
		idx += len(cases)
		var wg sync.WaitGroup
		chunk := (len(cases) + nw - 1) / nw
		for w := 0; w < nw; w++ {
			lo, hi := w*chunk, (w+1)*chunk
			if lo >= len(cases) {
				break
			}
			if hi > len(cases) {
				hi = len(cases)
			}
			wg.Add(1)
			go func(w, lo, hi int) {
				defer wg.Done()
				m := models[w]
				runs := make([]c09Run, hi-lo)
				var lines []string
				for i := lo; i < hi; i++ {
					runs[i-lo] = runC09Impl(cases[i])
					if runs[i-lo].buildErr == nil {
						lines = append(lines, runs[i-lo].line)
					}
				}
				// events are the caller's: every event of the chunk is read again now that all later ones have been made
				// (on this goroutine and, at the same time, on the other workers)
				for i := lo; i < hi; i++ {
					r := runs[i-lo]
					if r.ev == nil || r.buildErr != nil || !strings.HasPrefix(r.obs, "ts=") {
						continue
					}
					if now := coal.Flatten(r.ev, r.perr); now != r.obs {
						v := common.Violation{Kind: "correspondence", Clause: "an event read differently after later events had been made; the model's values are immutable", Input: cases[i], Impl: now, Model: r.obs, Case: base + i,
							Note: "on this input a clause of a sibling property fails: C15: a previously returned event changed"}
						res.Hist("sibling_clause_failed")
						res.Violate(v)
						break
					}
				}
				replies, err := m.Ask(lines)
				if err != nil {
					res.Violate(common.Violation{Kind: "correspondence", Clause: "model driver failed: " + err.Error(), Case: base + lo})
					return
				}
				j := 0
				for i := lo; i < hi; i++ {
					r := runs[i-lo]
					reply := ""
					if r.buildErr == nil {
						reply = replies[j]
						j++
					}
					nt, tags := c09Tags(cases[i], r)
					res.Count(cases[i].canon(), nt)
					for _, t := range tags {
						res.Hist(t)
					}
					if r.buildErr == nil {
						mu.Lock()
						res.ModelLines++
						mu.Unlock()
					}
					report(evalC09(ctx, cases[i], r, reply, base+i), cases[i], m)
					if (base+i)%16 == 0 && r.buildErr == nil {
						if cl := c09FineTime(cases[i], (base+i)/16); cl != "" {
							res.Violate(common.Violation{Kind: "monitor", Clause: cl, Input: cases[i], Case: base + i, Note: "with the records' Timestamp fields moved by a fraction of a millisecond after parsing"})
						}
					}
				}
			}(w, lo, hi)
		}
		wg.Wait()
	}

	// 1. corpus
	var batch []C09Case
	for _, f := range ctx.CorpusFiles("C09") {
		b, err := os.ReadFile(f)
		if err != nil {
			return err
		}
		var c C09Case
		if err := json.Unmarshal(b, &c); err != nil {
			return fmt.Errorf("%s: %w", f, err)
		}
		res.Hist("corpus")
		batch = append(batch, c)
	}
	runBatch(batch)

	rng := ctx.Rng
	flush := func(force bool) {
		if len(batch) >= 512 || (force && len(batch) > 0) {
			runBatch(batch)
			batch = batch[:0]
		}
	}
	batch = batch[:0]
	add := func(c C09Case, stream string) {
		res.Hist("stream_" + stream)
		if len(res.Samples) < 5 && rng.Intn(50) == 0 {
			res.Sample(c)
		}
		batch = append(batch, c)
		flush(false)
	}
	stop := func() bool { return res.NumViolations() >= 5 }

	// 2. every st_mode on the selected PATH record (exhaustive in both tiers)
	modeReached := 0
	{
		var cases []C09Case
		for m := uint32(0); m < 65536; m++ {
			cases = append(cases, coGenModeCase(rng, m))
		}
		// count the cases in which mode m did reach the file summary (harness self-check)
		for lo := 0; lo < len(cases) && !stop(); lo += 4096 {
			hi := lo + 4096
			for _, c := range cases[lo:hi] {
				r := runC09Impl(c)
				if r.ev != nil && r.ev.File != nil && strings.HasPrefix(r.ev.File.Path, "/d/f") {
					modeReached++
				}
			}
			runBatch(cases[lo:hi])
			res.HistN("stream_all_modes", hi-lo)
		}
		res.Note("all 65536 st_mode values placed on the selected PATH record; %d reached the file summary", modeReached)
		if modeReached != 65536 && !stop() {
			return fmt.Errorf("mode sweep: only %d of 65536 cases reached the file summary (generator out of date with the normalisations?)", modeReached)
		}
	}

	// 3. every subset of companions, random orders
	for rep := 0; rep < ctx.N(3, 40) && !stop(); rep++ {
		for mask := 0; mask < 64; mask++ {
			kinds := coSubsetKinds(rng, mask)
			if rep > 0 {
				kinds = coPermKinds(rng, kinds)
			}
			add(coGenGroup(rng, kinds, 0.25, 0.06), "subsets")
		}
	}
	// 4. key collisions between every pair of record kinds
	for a := 0; a < coNKinds && !stop(); a++ {
		for b := 0; b < coNKinds; b++ {
			if a == coKSyscall && b == coKSyscall {
				continue
			}
			keys := coHotKeys
			if !ctx.Thorough() {
				keys = nil
				for i := 0; i < 8; i++ {
					keys = append(keys, coPick(rng, coHotKeys))
				}
			}
			for _, k := range keys {
				add(coGenCollision(rng, a, b, k), "collisions")
			}
		}
	}
	// 5. single records of every type
	for rep := 0; rep < ctx.N(1, 10) && !stop(); rep++ {
		for _, t := range append(append([]uint16{}, coOtherTypes...), tSYSCALL, tPATH, tEXECVE, coTSOCKADDR) {
			add(coGenSingle(rng, t), "singles")
		}
	}
	// 5b. every named record type as the FIRST record of a compound group (it names the event and its
	// own normalisation applies), with an incoming / outgoing socket syscall or a file syscall and the
	// companions those bring: fields the first record's normalisation moves (addr, hostname, terminal,
	// acct, exe ...) meet what SOCKADDR / PATH records set
	for rep := 0; rep < ctx.N(1, 6) && !stop(); rep++ {
		for _, t := range coOtherTypes {
			for _, sc := range []string{"43", "42", "45", "2"} {
				add(coGenFirstOther(rng, t, sc), "first_other")
			}
		}
	}
	// 5d. every named record type first in a multi-record group WITHOUT a SYSCALL record (must be an error, not a
	// partial event), and as an auxiliary record behind the SYSCALL record
	for _, t := range coOtherTypes {
		for shape := 0; shape < 3 && !stop(); shape++ {
			seq := rng.Uint32()
			ms := int64(1500000000)*1000 + int64(rng.Intn(1000))
			_, body := coGenBody(rng, coKOther, 1)
			body += " items=2"
			var c C09Case
			first := coal.Rec{Typ: t, Seq: seq, Ms: ms, Body: body}
			_, cwd := coGenBody(rng, coKCwd, 0)
			_, path := coGenBody(rng, coKPath, 0)
			switch shape {
			case 0:
				c.Recs = []coal.Rec{first, {Typ: tCWD, Seq: seq, Ms: ms, Body: cwd}, {Typ: tPATH, Seq: seq, Ms: ms, Body: path}, {Typ: tEOE, Seq: seq, Ms: ms}}
			case 1:
				c.Recs = []coal.Rec{first, {Typ: tPATH, Seq: seq, Ms: ms, Body: path}}
			default:
				_, sb := coGenBody(rng, coKSyscall, 0)
				c.Recs = []coal.Rec{{Typ: tSYSCALL, Seq: seq, Ms: ms, Body: sb}, first, {Typ: tPATH, Seq: seq, Ms: ms, Body: path}}
			}
			add(c, "named_type_group")
		}
	}
	// 5c. sizes a generated group does not reach by chance: hundreds of PATH records, EXECVE with hundreds of
	// arguments, values of several thousand bytes, groups of hundreds of records
	for _, n := range []int{64, 255, 256, 257, 1025} {
		for shape := 0; shape < 4 && !stop(); shape++ {
			add(coGenLarge(rng, n, shape), "large")
		}
	}
	// 6. random groups, edited caches, malformed groups
	for i := 0; i < ctx.N(6000, 1200000) && !stop(); i++ {
		switch {
		case i%10 < 5:
			add(coGenGroup(rng, coPermKinds(rng, coSubsetKinds(rng, rng.Intn(64))), 0.35, 0.08), "random_groups")
		case i%10 < 8:
			c := coGenGroup(rng, coPermKinds(rng, coSubsetKinds(rng, rng.Intn(64))), 0.3, 0.05)
			if rng.Intn(4) == 0 {
				c = coGenSingle(rng, coOtherTypes[rng.Intn(len(coOtherTypes))])
			}
			coAddEdits(rng, &c)
			add(c, "edited")
		default:
			c := coGenMalformed(rng)
			if rng.Intn(3) == 0 {
				coAddEdits(rng, &c)
			}
			add(c, "malformed")
		}
	}
	flush(true)
	if knownHits > 0 {
		res.Note("%d cases fail only the object-type clause and are explained by an open known finding", knownHits)
	}
	return nil
}
