package main

// C20 — name/number tables. Correspondence: the Lean lookups over the regenerated
// tables (LA/Gen) against the runtime maps and conversion functions of the
// library. Monitor: the property evaluated natively and exhaustively on the
// runtime tables (this is also the search for a failing entry when a regenerated
// proof obligation breaks).

import (
	"encoding/binary"
	"encoding/json"
	"fmt"
	"os"
	"path/filepath"
	"sort"
	"strconv"
	"strings"

	"github.com/elastic/go-libaudit/v2/aucoalesce"
	"github.com/elastic/go-libaudit/v2/auparse"
	"github.com/elastic/go-libaudit/v2/rule"
	"github.com/elastic/go-libaudit/v2/rule/flags"

	"verifharness/internal/common"
)

func init() { families["C20"] = tablesFamily }

// TCase is one table entry / query (the replay input).
type TCase struct {
	Table string `json:"table"`
	Key   string `json:"key"`
	Note  string `json:"note,omitempty"`
}

func repoDir() string {
	if r := os.Getenv("VERIF_REPO"); r != "" {
		return r
	}
	return "/repo"
}

func optN(n int, ok bool) string {
	if !ok {
		return "none"
	}
	return strconv.Itoa(n)
}

func optS(s string, ok bool) string {
	if !ok {
		return "none"
	}
	return "some:" + common.HexS(s)
}

func isASCII(s string) bool {
	for i := 0; i < len(s); i++ {
		if s[i] >= 0x80 {
			return false
		}
	}
	return true
}

func tablesFamily(ctx *Ctx) error {
	res := ctx.Res
	res.Rule = "exhaustive over the runtime tables: all 65536 record type codes (String, MarshalText, GetAuditMessageType, UnmarshalText, GetAuditEventType), every errno/arch/syscall entry plus neighbouring and mutated keys, every rule field/operator/comparison through Build+ToCommandLine, every entry of the embedded normalizations.yaml; each query is also answered by the Lean lookups over the regenerated tables and compared. Non-trivial = a table hit, an UNKNOWN[n] form or a mutated name (not a plain miss); distinct by query."
	res.Exhaustive = true
	m, err := common.StartModel()
	if err != nil {
		return err
	}
	defer m.Close()
	if ctx.Replay == "" {
		ruleFirstUse(res, ctx.Prop)
	}

	type q struct {
		line string
		impl string
		c    TCase
		nt   bool
	}
	var qs []q
	add := func(line, impl string, c TCase, nt bool) { qs = append(qs, q{line, impl, c, nt}) }
	monitor := func(clause string, c TCase, impl string) {
		v := common.Violation{Kind: "monitor", Clause: clause, Input: c, Impl: impl}
		c20Known(ctx, &v)
		res.Violate(v)
	}

	// ---- categorisation is a function of the code: asked in descending order first (this process
	// has not called it yet), then in random order, and below in ascending order; every answer for
	// a code must be the same
	var catFirst [65536]aucoalesce.AuditEventType
	for t := 65535; t >= 0; t-- {
		catFirst[t] = aucoalesce.GetAuditEventType(auparse.AuditMessageType(t))
	}
	catDiff := 0
	for i := 0; i < 200000 && catDiff < 3; i++ {
		t := ctx.Rng.Intn(65536)
		if i%2 == 1 {
			t = (t & 0x0fff) | ctx.Rng.Intn(16)<<12 // codes that share their low bits
		}
		if c := aucoalesce.GetAuditEventType(auparse.AuditMessageType(t)); c != catFirst[t] {
			catDiff++
			monitor(fmt.Sprintf("C20: record type %d was categorised as %d and, asked again after other codes, as %d", t, catFirst[t], c), TCase{Table: "msgtype", Key: strconv.Itoa(t)}, "")
		}
	}

	// ---- record types ---------------------------------------------------------------
	names := map[string]bool{}
	for t := 0; t < 65536; t++ {
		typ := auparse.AuditMessageType(t)
		name := typ.String()
		names[name] = true
		c := TCase{Table: "msgtype", Key: strconv.Itoa(t)}
		known := !strings.HasPrefix(name, "UNKNOWN[")
		add("tab typename "+strconv.Itoa(t), common.HexS(name), c, known || t%97 == 0)
		back, err := auparse.GetAuditMessageType(name)
		if err != nil || int(back) != t {
			monitor(fmt.Sprintf("C20: record type %d converts to name %q which converts back to %d (err=%v)", t, name, back, err), c, name)
		}
		txt, _ := typ.MarshalText()
		var un auparse.AuditMessageType
		if err := un.UnmarshalText(txt); err != nil || int(un) != t {
			monitor(fmt.Sprintf("C20: record type %d marshals to %q which unmarshals to %d (err=%v)", t, txt, un, err), c, string(txt))
		}
		if known || t%16 == 0 {
			add("tab marshal "+strconv.Itoa(t), common.HexS(string(txt)), c, known)
		}
		// the bytes MarshalText hands out are the caller's: a caller that edits them in place (upper-cases them, say)
		// must not change what the type marshals to the next time
		if known || t%16 == 0 {
			was := string(txt)
			for i := range txt {
				txt[i] = 'X'
			}
			if len(txt) < cap(txt) {
				ext := txt[:cap(txt)]
				for i := len(txt); i < len(ext); i++ {
					ext[i] = 'X'
				}
			}
			again, _ := typ.MarshalText()
			js, _ := json.Marshal(typ)
			if string(again) != was || typ.String() != name || string(js) != strconv.Quote(was) {
				monitor(fmt.Sprintf("C20: record type %d marshalled to %q; after the caller overwrote the bytes it was given, the type marshals to %q (JSON %s, String %q)", t, was, again, js, typ.String()), c, string(again))
			}
		}
		// categorisation: same on every call, and as the model's first-match reading of the switch
		c1, c2 := aucoalesce.GetAuditEventType(typ), aucoalesce.GetAuditEventType(typ)
		if c1 != c2 || c1 != catFirst[t] {
			if catDiff < 3 {
				catDiff++
				monitor(fmt.Sprintf("C20: record type %d categorised as %d, then %d and %d on later calls", t, catFirst[t], c1, c2), c, "")
			}
		}
		add("tab category "+strconv.Itoa(t), strconv.Itoa(int(c1)), c, c1 != 0)
	}
	// name -> type queries: table names in several spellings, UNKNOWN forms, junk
	var nameList []string
	for n := range names {
		if !strings.HasPrefix(n, "UNKNOWN[") {
			nameList = append(nameList, n)
		}
	}
	sort.Strings(nameList)
	var probes []string
	for _, n := range nameList {
		probes = append(probes, n, strings.ToLower(n), n+"X", "X"+n, n[:len(n)-1], strings.Title(strings.ToLower(n)))
	}
	for _, n := range []string{"", "[", "]", "[]", "UNKNOWN", "UNKNOWN[", "UNKNOWN[]", "UNKNOWN[1329]", "unknown[1329]", "UNKNOWN[01329]", "UNKNOWN[65535]", "UNKNOWN[65536]",
		"UNKNOWN[99999999999999999999]", "UNKNOWN[-1]", "UNKNOWN[+1]", "UNKNOWN[1_0]", "UNKNOWN[0x10]", "UNKNOWN[12", "UNKNOWN12]", "X[12]Y[13]", "[12]", "a[12]b", "UNKNOWN[12]]", "UNKNOWN[[12]", "UNKNOWN[1 2]", "SYSCALL[12]", "\xffSYSCALL", "SYSCALL\x00",
		"UNKNOWN]1329[", "][", "]1[", "]12[", "SYSCALL] [1300]", "]UNKNOWN[1]", "UNKNOWN]", "]"} {
		probes = append(probes, n)
	}
	for i := 0; i < ctx.N(2000, 20000); i++ {
		b := []byte(nameList[ctx.Rng.Intn(len(nameList))])
		switch ctx.Rng.Intn(4) {
		case 0:
			b[ctx.Rng.Intn(len(b))] = byte(ctx.Rng.Intn(128))
		case 1:
			b = append(b[:ctx.Rng.Intn(len(b))], b[ctx.Rng.Intn(len(b)):]...)
		case 2:
			b = []byte(fmt.Sprintf("UNKNOWN[%d]", ctx.Rng.Intn(70000)))
		case 3:
			b = []byte(fmt.Sprintf("%s[%d]%s", string(b[:ctx.Rng.Intn(len(b))]), ctx.Rng.Intn(70000), "]"[:ctx.Rng.Intn(2)]))
		}
		probes = append(probes, string(b))
	}
	for _, n := range probes {
		var t auparse.AuditMessageType
		var err error
		panicked := ""
		func() {
			defer func() {
				if r := recover(); r != nil {
					panicked = fmt.Sprint(r)
				}
			}()
			t, err = auparse.GetAuditMessageType(n)
		}()
		if panicked != "" {
			monitor(fmt.Sprintf("C20: GetAuditMessageType(%q) panicked instead of resolving the name or returning an error: %s", n, panicked), TCase{Table: "msgname", Key: n}, "panic")
			continue
		}
		impl := optN(int(t), err == nil)
		if !isASCII(n) {
			res.Unmodelled++
			continue
		}
		add("tab gettype "+common.HexS(n), impl, TCase{Table: "msgname", Key: n}, err == nil || strings.Contains(n, "["))
	}

	// ---- errno --------------------------------------------------------------------------
	for n := -2; n < 600; n++ {
		name, ok := auparse.AuditErrnoToName[n]
		c := TCase{Table: "errno", Key: strconv.Itoa(n)}
		if n >= 0 {
			add("tab errnoname "+strconv.Itoa(n), optS(name, ok), c, ok)
		}
		if ok {
			if back, ok2 := auparse.AuditErrnoToNum[name]; !ok2 || back != n {
				monitor(fmt.Sprintf("C20: errno %d maps to name %q which maps back to %d (found=%v)", n, name, back, ok2), c, name)
			}
		}
	}
	for name, n := range auparse.AuditErrnoToNum {
		c := TCase{Table: "errnoname", Key: name}
		nm, ok := auparse.AuditErrnoToName[n]
		if !ok {
			monitor(fmt.Sprintf("C20: errno name %q maps to %d which has no name", name, n), c, "")
		} else if back := auparse.AuditErrnoToNum[nm]; back != n {
			monitor(fmt.Sprintf("C20: errno alias %q -> %d -> %q -> %d", name, n, nm, back), c, "")
		}
		for _, k := range []string{name, strings.ToLower(name), name + "X", name[1:]} {
			v, ok := auparse.AuditErrnoToNum[k]
			add("tab errnonum "+common.HexS(k), optN(v, ok), TCase{Table: "errnoname", Key: k}, ok)
		}
	}

	// ---- arch -----------------------------------------------------------------------------
	archByName := map[string][]auparse.AuditArch{}
	for code, name := range auparse.AuditArchNames {
		archByName[name] = append(archByName[name], code)
		for _, k := range []uint32{uint32(code), uint32(code) + 1, uint32(code) ^ 0x40000000} {
			nm, ok := auparse.AuditArchNames[auparse.AuditArch(k)]
			add("tab archname "+strconv.FormatUint(uint64(k), 10), optS(nm, ok), TCase{Table: "arch", Key: strconv.FormatUint(uint64(k), 10)}, ok)
		}
	}
	for name, codes := range archByName {
		c := TCase{Table: "archname", Key: name}
		if len(codes) != 1 {
			monitor(fmt.Sprintf("C20: architecture name %q resolves to %d codes %v", name, len(codes), codes), c, "")
			continue
		}
		add("tab archcode "+common.HexS(name), strconv.FormatUint(uint64(codes[0]), 10), c, true)
		add("tab archcode "+common.HexS(name+"_"), "none", TCase{Table: "archname", Key: name + "_"}, false)
	}

	// ---- syscalls ----------------------------------------------------------------------------
	var arches []string
	for a := range auparse.AuditSyscalls {
		arches = append(arches, a)
	}
	sort.Strings(arches)
	anyArch := map[string]bool{}
	for _, a := range append(arches, "nosucharch") {
		tbl := auparse.AuditSyscalls[a]
		byName := map[string][]int{}
		maxN := 0
		for n, nm := range tbl {
			byName[nm] = append(byName[nm], n)
			anyArch[nm] = true
			if n > maxN {
				maxN = n
			}
		}
		for n := 0; n <= maxN+3; n++ {
			nm, ok := tbl[n]
			add(fmt.Sprintf("tab sysname %s %d", common.HexS(a), n), optS(nm, ok), TCase{Table: "syscall/" + a, Key: strconv.Itoa(n)}, ok)
		}
		for nm, nums := range byName {
			c := TCase{Table: "syscallname/" + a, Key: nm}
			if len(nums) != 1 {
				sort.Ints(nums)
				monitor(fmt.Sprintf("C20: in the %s syscall table the name %q maps to %d numbers %v", a, nm, len(nums), nums), c, "")
				continue
			}
			add(fmt.Sprintf("tab sysnum %s %s", common.HexS(a), common.HexS(nm)), strconv.Itoa(nums[0]), c, true)
		}
		add(fmt.Sprintf("tab sysnum %s %s", common.HexS(a), common.HexS("no_such_syscall")), "none", TCase{Table: "syscallname/" + a, Key: "no_such_syscall"}, false)
	}

	// ---- rule tables through behaviour ------------------------------------------------------------
	c20RuleTables(ctx, monitor)

	// ---- normalisation table ------------------------------------------------------------------------
	data, err := os.ReadFile(filepath.Join(repoDir(), "aucoalesce", "normalizations.yaml"))
	if err != nil {
		return err
	}
	// what a caller loads is the caller's: a program that loads the stock document, edits what it got (empties the maps,
	// blanks the entries) and goes on coalescing must find the built-in tables as they were
	{
		probe := func() string {
			var parts []string
			for _, line := range []string{
				"type=SYSCALL msg=audit(1.000:1): arch=c000003e syscall=2 success=yes exit=3 a0=1 items=1 ppid=1 pid=2 auid=0 uid=0 gid=0 euid=0 tty=pts0 ses=1 comm=\"cat\" exe=\"/bin/cat\" key=(null)",
				"type=USER_LOGIN msg=audit(1.000:2): pid=1 uid=0 auid=0 ses=1 msg='op=login acct=\"root\" exe=\"/usr/sbin/sshd\" hostname=h addr=10.0.0.1 terminal=ssh res=success'",
				"type=SYSCALL msg=audit(1.000:3): arch=c000003e syscall=59 success=yes exit=0 a0=1 items=2 ppid=1 pid=2 auid=0 uid=0 gid=0 euid=0 tty=pts0 ses=1 comm=\"ls\" exe=\"/bin/ls\" key=(null)",
				"type=USER_AUTH msg=audit(1.000:4): pid=1 uid=0 auid=0 ses=1 msg='op=PAM:authentication acct=\"root\" exe=\"/usr/sbin/sshd\" hostname=h addr=10.0.0.1 terminal=ssh res=failed'"} {
				m, err := auparse.ParseLogLine(line)
				if err != nil {
					parts = append(parts, "parse:"+err.Error())
					continue
				}
				ev, err := aucoalesce.CoalesceMessages([]*auparse.AuditMessage{m})
				if err != nil {
					parts = append(parts, "err:"+err.Error())
					continue
				}
				js, _ := json.Marshal(ev)
				parts = append(parts, string(js))
			}
			return strings.Join(parts, "\n")
		}
		before := probe()
		for round := 0; round < 2; round++ {
			s1, r1, err := aucoalesce.LoadNormalizationConfig(append([]byte(nil), data...))
			if err != nil {
				break
			}
			for k, n := range s1 {
				if n != nil {
					*n = aucoalesce.Normalization{}
				}
				delete(s1, k)
			}
			s1["frobnicate"] = &aucoalesce.Normalization{}
			for k, ns := range r1 {
				for _, n := range ns {
					if n != nil {
						*n = aucoalesce.Normalization{}
					}
				}
				delete(r1, k)
			}
		}
		if after := probe(); after != before {
			monitor("C20: after a caller loaded the stock normalizations document with LoadNormalizationConfig and edited the maps it was given, CoalesceMessages normalises the same records differently: the caller was handed the built-in tables", TCase{Table: "norms", Key: "LoadNormalizationConfig"}, after)
		}
	}
	sysNorms, rtNorms, err := aucoalesce.LoadNormalizationConfig(data)
	if err != nil {
		monitor("C20: the embedded normalizations.yaml does not load: "+err.Error(), TCase{Table: "norms"}, "")
	}
	// the built-in tables under use: they equal a fresh load of the embedded document before the coalescer is used, and
	// still do after it has normalised a record for every entry of every list, in list order and in reverse (read
	// through the verif-tagged accessor aucoalesce.VerifTables; nothing else can see them)
	if err == nil {
		diff := func() string {
			bs, br := aucoalesce.VerifTables()
			var ks []string
			for k := range rtNorms {
				ks = append(ks, k)
			}
			for k := range br {
				if _, ok := rtNorms[k]; !ok {
					ks = append(ks, k)
				}
			}
			sort.Strings(ks)
			for _, k := range ks {
				if normsFull(br[k]) != normsFull(rtNorms[k]) {
					return fmt.Sprintf("record type %q: built-in %s, fresh load %s", k, normsBrief(br[k]), normsBrief(rtNorms[k]))
				}
			}
			var sk []string
			for k := range sysNorms {
				sk = append(sk, k)
			}
			for k := range bs {
				if _, ok := sysNorms[k]; !ok {
					sk = append(sk, k)
				}
			}
			sort.Strings(sk)
			for _, k := range sk {
				if normsFull([]*aucoalesce.Normalization{bs[k]}) != normsFull([]*aucoalesce.Normalization{sysNorms[k]}) {
					return fmt.Sprintf("syscall %q: built-in %s, fresh load %s", k, normsBrief([]*aucoalesce.Normalization{bs[k]}), normsBrief([]*aucoalesce.Normalization{sysNorms[k]}))
				}
			}
			return ""
		}
		if d := diff(); d != "" {
			res.Note("built-in normalisation tables differ from a fresh load before use (%s): the under-use clause is not judged", d)
		} else {
			var recs []string
			var rts []string
			for rt := range rtNorms {
				rts = append(rts, rt)
			}
			sort.Strings(rts)
			n := 0
			for _, rt := range rts {
				for _, nm := range rtNorms[rt] {
					n++
					body := "pid=1 uid=0 auid=0 ses=1"
					for _, f := range nm.HasFields.Values {
						body += " " + f + "=x"
					}
					recs = append(recs, fmt.Sprintf("type=%s msg=audit(1.000:%d): %s", rt, 5000+n, body))
				}
			}
			for _, num := range []int{0, 1, 2, 3, 41, 42, 43, 49, 59, 62, 87, 90, 105, 165, 175, 313} {
				n++
				recs = append(recs, fmt.Sprintf("type=SYSCALL msg=audit(1.000:%d): arch=c000003e syscall=%d success=yes exit=0 a0=1 items=0 ppid=1 pid=2 auid=0 uid=0 gid=0 euid=0 tty=pts0 ses=1 comm=\"x\" exe=\"/bin/x\" key=(null)", 5000+n, num))
			}
			use := func(line string) {
				m, err := auparse.ParseLogLine(line)
				if err != nil {
					return
				}
				if ev, err := aucoalesce.CoalesceMessages([]*auparse.AuditMessage{m}); err == nil {
					aucoalesce.ResolveIDs(ev)
				}
			}
			for pass := 0; pass < 2; pass++ {
				for i := range recs {
					if pass == 0 {
						use(recs[i])
					} else {
						use(recs[len(recs)-1-i])
					}
				}
			}
			res.HistN("built-in tables under use: records normalised", 2*len(recs))
			if d := diff(); d != "" {
				monitor("C20: after CoalesceMessages had normalised a record for every entry of the record-type table (in list order, then in reverse) the built-in tables differ from a fresh load of the embedded document: "+d, TCase{Table: "norms", Key: "under-use"}, d)
			}
		}
	}
	for rt, norms := range rtNorms {
		c := TCase{Table: "norm.record_types", Key: rt}
		res.Count("norm.record_types/"+rt, true)
		if !names[rt] || strings.HasPrefix(rt, "UNKNOWN[") {
			monitor(fmt.Sprintf("C20: normalizations.yaml names record type %q, which no record type code renders as", rt), c, "")
		}
		for i, n := range norms {
			if i < len(norms)-1 && len(n.HasFields.Values) == 0 {
				monitor(fmt.Sprintf("C20: record type %q has %d normalisations and number %d has no has_fields qualifier", rt, len(norms), i), c, "")
			}
		}
	}
	for sc := range sysNorms {
		c := TCase{Table: "norm.syscalls", Key: sc}
		res.Count("norm.syscalls/"+sc, true)
		if sc != "*" && !anyArch[sc] {
			monitor(fmt.Sprintf("C20: normalizations.yaml names syscall %q, which is in no architecture's syscall table", sc), c, "")
		}
	}

	// ---- run the model queries -----------------------------------------------------------------------
	lines := make([]string, len(qs))
	for i := range qs {
		lines[i] = qs[i].line
	}
	const batch = 5000
	for off := 0; off < len(lines); off += batch {
		end := off + batch
		if end > len(lines) {
			end = len(lines)
		}
		rep, err := m.Ask(lines[off:end])
		if err != nil {
			return err
		}
		for i, r := range rep {
			x := qs[off+i]
			res.Count(x.line, x.nt)
			res.ModelLines++
			if strings.HasPrefix(r, "unmodelled") {
				res.Unmodelled++
				continue
			}
			if r != x.impl {
				res.Violate(common.Violation{Kind: "correspondence", Clause: "regenerated table lookup (LA/Gen via `" + strings.Fields(x.line)[1] + "`) disagrees with the runtime table",
					Input: x.c, Impl: x.impl, Model: r, Note: x.line})
			}
		}
	}
	res.Hist("queries")
	res.HistN("msgtype_names", len(nameList))
	res.HistN("syscall_tables", len(arches))
	res.HistN("norm_record_types", len(rtNorms))
	res.HistN("norm_syscalls", len(sysNorms))
	res.Sample(TCase{Table: "msgtype", Key: "1300", Note: "SYSCALL <-> 1300"})
	res.Sample(TCase{Table: "msgname", Key: "unknown[01329]"})
	res.Sample(TCase{Table: "syscall/x86_64", Key: "59", Note: "execve"})

	// open known findings: replay their witnesses
	for _, f := range ctx.Findings {
		if f.Status != "open" {
			continue
		}
		var mt struct {
			Kind  string   `json:"kind"`
			Names []string `json:"names"`
		}
		json.Unmarshal(f.Matcher, &mt)
		still := false
		if mt.Kind == "c20_norm_syscall_missing" {
			for _, n := range mt.Names {
				if _, listed := sysNorms[n]; listed && !anyArch[n] {
					still = true
				}
			}
		}
		res.Known = append(res.Known, common.KnownStatus{ID: f.ID, What: f.What, StillFails: still})
	}
	return nil
}

// c20Known marks a violation that an open known finding accounts for.
func c20Known(ctx *Ctx, v *common.Violation) {
	c, ok := v.Input.(TCase)
	if !ok {
		return
	}
	for _, f := range ctx.Findings {
		if f.Status != "open" {
			continue
		}
		var mt struct {
			Kind  string   `json:"kind"`
			Names []string `json:"names"`
		}
		json.Unmarshal(f.Matcher, &mt)
		if mt.Kind == "c20_norm_syscall_missing" && c.Table == "norm.syscalls" {
			for _, n := range mt.Names {
				if n == c.Key {
					v.Known = f.ID
				}
			}
		}
	}
}

// c20RuleTables exercises every field name, operator and inter-field comparison of the
// rule tables through Build and ToCommandLine: names must map to one code and back.
func c20RuleTables(ctx *Ctx, monitor func(string, TCase, string)) {
	res := ctx.Res
	fields := []string{"auid", "arch", "a0", "a1", "a2", "a3", "devmajor", "devminor", "dir", "egid", "euid", "exe", "exit", "fsgid", "fsuid", "filetype", "gid", "inode", "key", "msgtype",
		"obj_gid", "obj_lev_high", "obj_lev_low", "obj_role", "obj_type", "obj_uid", "obj_user", "path", "pid", "ppid", "perm", "pers", "saddr_fam", "sgid", "suid", "subj_clr", "subj_role", "subj_sen", "subj_type", "subj_user", "success", "uid"}
	val := func(f string) string {
		switch f {
		case "arch":
			if strconv.IntSize == 32 {
				return "b32" // this program is a 32-bit one (the second pass): b64 names nothing here
			}
			return "b64"
		case "dir", "path", "exe":
			return "/x"
		case "filetype":
			return "file"
		case "perm":
			return "r"
		case "saddr_fam":
			return "2"
		case "msgtype":
			return "1300"
		case "key", "obj_lev_high", "obj_lev_low", "obj_role", "obj_type", "obj_user", "subj_clr", "subj_role", "subj_sen", "subj_type", "subj_user":
			return "v"
		}
		return "1"
	}
	codes := map[uint32]string{}
	for _, f := range fields {
		list := "exit"
		if f == "msgtype" {
			list = "user"
		}
		line := fmt.Sprintf("-a always,%s -F %s=%s", list, f, val(f))
		c := TCase{Table: "rule.fields", Key: f}
		res.Count("rule.fields/"+f, true)
		r, err := flags.Parse(line)
		if err != nil {
			monitor("C20: field name rejected by flags.Parse: "+err.Error(), c, line)
			continue
		}
		wf, err := rule.Build(r)
		if err != nil {
			monitor("C20: field name rejected by Build: "+err.Error(), c, line)
			continue
		}
		code := uint32(wf[268]) | uint32(wf[269])<<8 | uint32(wf[270])<<16 | uint32(wf[271])<<24
		if other, dup := codes[code]; dup {
			monitor(fmt.Sprintf("C20: field names %q and %q map to the same code %d", other, f, code), c, line)
		}
		codes[code] = f
		txt, err := rule.ToCommandLine(wf, false)
		if err != nil || !strings.Contains(txt, "-F "+f+"=") && !(f == "arch") {
			if !(strings.HasPrefix(txt, "-w ")) {
				monitor(fmt.Sprintf("C20: field %q (code %d) is listed as %q (err=%v)", f, code, txt, err), c, line)
			}
		}
	}
	for _, op := range []string{"=", "!=", "<", ">", "<=", ">=", "&", "&="} {
		line := "-a always,exit -F pid" + op + "1"
		c := TCase{Table: "rule.operators", Key: op}
		res.Count("rule.operators/"+op, true)
		r, err := flags.Parse(line)
		if err != nil {
			monitor("C20: operator rejected: "+err.Error(), c, line)
			continue
		}
		wf, err := rule.Build(r)
		if err != nil {
			monitor("C20: operator rejected: "+err.Error(), c, line)
			continue
		}
		txt, err := rule.ToCommandLine(wf, false)
		if err != nil || !strings.HasSuffix(txt, "-F pid"+op+"1") {
			monitor(fmt.Sprintf("C20: operator %q is listed as %q (err=%v)", op, txt, err), c, line)
		}
	}
	// errno names through the rule builder: every name of the errno table (aliases included) used as an exit
	// code resolves to the table's number, with and without the minus sign
	for name, n := range auparse.AuditErrnoToNum {
		for _, neg := range []bool{false, true} {
			txt, want := name, uint32(n)
			if neg {
				txt, want = "-"+name, uint32(-int32(n))
			}
			line := "-a always,exit -F exit=" + txt
			c := TCase{Table: "rule.errno", Key: txt}
			res.Count("rule.errno", true)
			r, err := flags.Parse(line)
			if err != nil {
				monitor("C20: errno name rejected by flags.Parse: "+err.Error(), c, line)
				continue
			}
			wf, err := rule.Build(r)
			if err != nil {
				monitor(fmt.Sprintf("C20: errno name %q (%d in the errno table) is not resolved by the rule builder: %v", name, n, err), c, line)
				continue
			}
			if len(wf) < 4*132 || binary.LittleEndian.Uint32(wf[4*131:]) != want {
				monitor(fmt.Sprintf("C20: errno name %q resolves to %d in a rule, the errno table says %d", txt, int32(binary.LittleEndian.Uint32(wf[4*131:])), int32(want)), c, line)
			}
		}
	}
	// inter-field comparisons: every ordered pair of the id fields
	ids := []string{"uid", "euid", "suid", "fsuid", "auid", "obj_uid", "gid", "egid", "sgid", "fsgid", "obj_gid"}
	for _, l := range ids {
		for _, r := range ids {
			line := fmt.Sprintf("-a always,exit -C %s=%s", l, r)
			c := TCase{Table: "rule.comparisons", Key: l + "=" + r}
			ru, err := flags.Parse(line)
			if err != nil {
				continue
			}
			wf, err := rule.Build(ru)
			if err != nil {
				continue // not a valid pair
			}
			res.Count("rule.comparisons/"+l+"="+r, true)
			// the reverse spelling must give the same code (symmetry)
			ru2, _ := flags.Parse(fmt.Sprintf("-a always,exit -C %s=%s", r, l))
			wf2, err2 := rule.Build(ru2)
			if err2 != nil || string(wf) != string(wf2) {
				monitor(fmt.Sprintf("C20: comparison %s=%s and its reverse spelling encode differently (err=%v)", l, r, err2), c, line)
				continue
			}
			txt, err := rule.ToCommandLine(wf, false)
			if err != nil {
				monitor(fmt.Sprintf("C20: comparison %s=%s cannot be listed: %v", l, r, err), c, line)
				continue
			}
			ru3, err := flags.Parse(txt)
			if err != nil {
				monitor(fmt.Sprintf("C20: comparison %s=%s is listed as %q which does not parse", l, r, txt), c, line)
				continue
			}
			wf3, err := rule.Build(ru3)
			if err != nil || string(wf3) != string(wf) {
				monitor(fmt.Sprintf("C20: comparison %s=%s is listed as %q which denotes a different field pair", l, r, txt), c, line)
			}
		}
	}
}

func normsBrief(ns []*aucoalesce.Normalization) string {
	var parts []string
	for _, n := range ns {
		if n == nil {
			parts = append(parts, "nil")
			continue
		}
		parts = append(parts, fmt.Sprintf("{action=%q has_fields=%v}", n.Action, n.HasFields.Values))

	}
	return "[" + strings.Join(parts, " ") + "]"
}

// normsFull renders a list of normalisations completely (reflect.DeepEqual cannot be used: the ECS mappings hold
// function values; the same static function prints as the same address on both sides).
func normsFull(ns []*aucoalesce.Normalization) string {
	var parts []string
	for _, n := range ns {
		if n == nil {
			parts = append(parts, "nil")
			continue
		}
		parts = append(parts, fmt.Sprintf("%#v", *n))
	}
	return strings.Join(parts, " | ")
}
