package main

// Generators of the coalescer family (C09, C15): audit record texts for the real parser.

import (
	"encoding/hex"
	"fmt"
	"math/rand"
	"strings"

	"github.com/elastic/go-libaudit/v2/auparse"

	"verifharness/internal/coal"
)

const (
	coTSOCKADDR = 1306
	coTAVC      = 1400
)

// record kinds the generators speak of
const (
	coKSyscall = iota
	coKCwd
	coKPath
	coKExecve
	coKSockaddr
	coKProctitle
	coKAvc
	coKOther
	coNKinds
)

var coKindNames = []string{"SYSCALL", "CWD", "PATH", "EXECVE", "SOCKADDR", "PROCTITLE", "AVC", "OTHER"}

type coKvp struct{ k, v string }

// hot keys: consumed, moved or looked up somewhere in the coalescer, hence the ones where a
// collision between records matters.
var coHotKeys = []string{"pid", "ppid", "comm", "exe", "cwd", "proctitle", "uid", "auid", "gid", "euid", "ses",
	"items", "argc", "a0", "a1", "a2", "addr", "port", "path", "name", "mode", "syscall", "arch",
	"socket_addr", "socket_port", "socket_path", "socket_family", "socket_saddr", "nametype", "inode", "rdev",
	"ouid", "ogid", "subj_user", "subj_role", "obj_user", "obj_level", "result", "family", "hostname", "terminal",
	"acct", "id", "op", "tty", "exit", "dev", "saddr", "cmd", "data", "sig", "seresult", "apparmor",
	"scontext", "tcontext", "tclass", "operation", "new-fs", "old-uid", "xgid", "socket_uid", "key"}

// addresses as daemons write them: the library copies the text, whatever the spelling
var coAddrVals = []string{"10.1.1.1", "?", "::1", "::ffff:203.0.113.7", "2001:DB8::A1", "0:0:0:0:0:0:0:1", "2001:0db8:0000:0000:0000:0000:0000:00a1", "::10.1.1.1", "010.001.001.001", "fe80::1%eth0", "FE80::1",
	"localhost", "10.1.1.1 ", "0x0a.1.1.1", "[::1]", "::FFFF:0A01:0101", "1.2.3", "0", ""}

var coIdVals = []string{"0", "0", "1000", "1001", "48", "4294967295", "-1", "unset", "root", "alice", "65534", "007", "1e3", "1", "01", "+1", "daemon", "2", "bin", "lp", "001"}
var coPathVals = []string{"/tmp/x", "/etc/passwd", "/usr/bin/python3", "/usr/bin/bash", "/usr/bin/sh", "/usr/bin/perl5", "/usr/bin/cat",
	"/var/log/audit/", "/", "relative/p", "/tmp/with space", "/usr/bin/pythonic",
	// as the kernel annotates them: a removed file or directory, an unreachable or unknown one, an anonymous object
	"/tmp/x (deleted)", "/usr/bin/cat (deleted)", " (deleted)", "(deleted)", "/tmp/x (deleted) ", "/tmp/x(deleted)", "(null)", "(unreachable)/x", "/memfd:x (deleted)", "socket:[123]", "pipe:[7]", "anon_inode:[eventpoll]", "/tmp/x/", "/tmp//x", "/tmp/./x", "//"}
var coTokVals = []string{"x", "yes", "no", "1", "42", "pts0", "ssh", "10.0.0.1", "::1", "host.example", "NORMAL", "PARENT", "UNKNOWN",
	"CREATE", "DELETE", "success", "failed", "fail", "unknown", "open", "connect", "recvfrom", "sendto", "accept", "bind", "*", "-", "a=b", "0x1f", "(none)"}

func coPick(rng *rand.Rand, l []string) string { return l[rng.Intn(len(l))] }

func coRandValue(rng *rand.Rand, key string) string {
	switch {
	case strings.HasSuffix(key, "uid") || strings.HasSuffix(key, "gid") || key == "ses" || key == "id" || key == "acct":
		return coPick(rng, coIdVals)
	case key == "exe" || key == "cwd" || key == "name" || key == "path" || key == "comm" || key == "proctitle" || key == "cmd":
		return coPick(rng, coPathVals)
	case key == "mode":
		return coRandModeText(rng)
	case key == "argc" || key == "items" || key == "pid" || key == "ppid" || key == "port" || key == "inode" || key == "exit":
		return coPick(rng, []string{"0", "1", "2", "3", "17", "4294967295", "4294967296", "-1", "+2", "02", "x", "99999999999999999999"})
	case key == "syscall":
		return coPick(rng, []string{"2", "42", "43", "59", "83", "82", "165", "9999", "x", "open", "connect", "recvfrom"})
	case key == "arch":
		return coPick(rng, []string{"c000003e", "40000003", "zz", "c00000b7"})
	case key == "nametype":
		return coPick(rng, []string{"NORMAL", "PARENT", "UNKNOWN", "CREATE", "DELETE", "parent"})
	}
	return coPick(rng, coTokVals)
}

func coRandModeText(rng *rand.Rand) string {
	switch rng.Intn(10) {
	case 0:
		return coPick(rng, []string{"8", "0o755", "0x1ff", "-1", "+755", "7_7", "1777777777777777777777", "2000000000000000000000", "777777777777777777777777", "٣"})
	case 1:
		return fmt.Sprintf("%o", rng.Uint32()) // beyond 16 bits: os.FileMode bits get set
	case 2:
		return fmt.Sprintf("%o", rng.Uint64())
	default:
		return coModeText(uint32(rng.Intn(65536)))
	}
}

// coModeText prints an st_mode the way the kernel does (%#ho).
func coModeText(m uint32) string {
	if m == 0 {
		return "0"
	}
	return fmt.Sprintf("0%o", m)
}

func coQuoteVal(v string) string {
	if v == "" {
		return `""`
	}
	if strings.ContainsAny(v, " \t") {
		return `"` + v + `"`
	}
	return v
}

func coRenderBody(kvs []coKvp) string {
	parts := make([]string, len(kvs))
	for i, p := range kvs {
		parts[i] = p.k + "=" + coQuoteVal(p.v)
	}
	return strings.Join(parts, " ")
}

func coUpHex(s string) string { return strings.ToUpper(hex.EncodeToString([]byte(s))) }

var coSyscallNums = []string{"2", "2", "257", "83", "258", "82", "264", "316", "165", "90", "87", "42", "43", "288", "44", "45", "46", "47", "49", "50", "59", "16", "62", "9999", "0", "1", "105", "113", "175"}

// coExtras adds n random hot keys.
func coExtras(rng *rand.Rand, n int) []coKvp {
	var out []coKvp
	for i := 0; i < n; i++ {
		k := coPick(rng, coHotKeys)
		out = append(out, coKvp{k, coRandValue(rng, k)})
	}
	return out
}

func coMaybeDrop(rng *rand.Rand, kvs []coKvp, p float64) []coKvp {
	out := kvs[:0:0]
	for _, x := range kvs {
		if rng.Float64() >= p {
			out = append(out, x)
		}
	}
	return out
}

func coShuffleKV(rng *rand.Rand, kvs []coKvp) {
	rng.Shuffle(len(kvs), func(i, j int) { kvs[i], kvs[j] = kvs[j], kvs[i] })
}

// coGenBody renders the text of one record of the given kind.  nExtra hot keys are mixed in.
func coGenBody(rng *rand.Rand, kind int, nExtra int) (typ uint16, body string) {
	var kvs []coKvp
	switch kind {
	case coKSyscall:
		typ = tSYSCALL
		kvs = []coKvp{{"arch", "c000003e"}, {"syscall", coPick(rng, coSyscallNums)}, {"success", coPick(rng, []string{"yes", "no"})},
			{"exit", coPick(rng, []string{"0", "3", "-13", "-2"})}, {"a0", "7ffd"}, {"a1", "0"}, {"items", fmt.Sprint(rng.Intn(4))},
			{"ppid", fmt.Sprint(rng.Intn(5))}, {"pid", fmt.Sprint(100 + rng.Intn(5))}, {"auid", coPick(rng, coIdVals)}, {"uid", coPick(rng, coIdVals)},
			{"gid", coPick(rng, coIdVals)}, {"euid", coPick(rng, coIdVals)}, {"suid", "0"}, {"fsuid", "0"}, {"egid", coPick(rng, coIdVals)}, {"sgid", "0"}, {"fsgid", "0"},
			{"tty", "pts0"}, {"ses", coPick(rng, coIdVals)}, {"comm", coPick(rng, []string{"cat", "python3", "sshd", "ip"})}, {"exe", coPick(rng, coPathVals)},
			{"subj", coPick(rng, []string{"unconfined_u:unconfined_r:unconfined_t:s0-s0:c0.c1023", "system_u:system_r:init_t:s0", "u:r", "x"})},
			{"key", coPick(rng, []string{"(null)", "mykey", "k1", coUpHex("a\x01b"), coUpHex("exec\x01exec\x0164bit"), coUpHex("k\x01k"), coUpHex("x\x01x\x01x\x01y\x01y")})}}
		kvs = coMaybeDrop(rng, kvs, 0.04)
	case coKCwd:
		typ = tCWD
		kvs = []coKvp{{"cwd", coPick(rng, append(coPathVals, coUpHex("/tmp/a b"), coUpHex("/x\xff"), coUpHex("/tmp/a b (deleted)")))}}
	case coKPath:
		typ = tPATH
		kvs = []coKvp{{"item", fmt.Sprint(rng.Intn(3))}, {"name", coPick(rng, append(coPathVals, coUpHex("/tmp/sp ace"), "(null)"))}, {"inode", fmt.Sprint(rng.Intn(100000))},
			{"dev", "fd:00"}, {"mode", coRandModeText(rng)}, {"ouid", coPick(rng, coIdVals)}, {"ogid", coPick(rng, coIdVals)}, {"rdev", coPick(rng, []string{"00:00", "88:01"})},
			{"obj", coPick(rng, []string{"system_u:object_r:tmp_t:s0", "u:r:t:s0:c1,c2", "weird"})},
			{"nametype", coPick(rng, []string{"NORMAL", "NORMAL", "PARENT", "UNKNOWN", "CREATE", "DELETE"})}}
		kvs = coMaybeDrop(rng, kvs, 0.08)
	case coKExecve:
		typ = tEXECVE
		n := rng.Intn(4)
		kvs = []coKvp{{"argc", fmt.Sprint(n)}}
		for i := 0; i < n; i++ {
			kvs = append(kvs, coKvp{fmt.Sprintf("a%d", i), coPick(rng, []string{"ls", "-l", coUpHex("two words"), "/bin/sh", coUpHex("x\x00y")})})
		}
	case coKSockaddr:
		typ = coTSOCKADDR
		kvs = []coKvp{{"saddr", coPick(rng, []string{
			"02000050C0A80001" + "0000000000000000",                              // ipv4 192.168.0.1:80
			"0200303901020304" + "0000000000000000",                              // ipv4 1.2.3.4:12345
			"0A00005000000000" + "00000000000000000000000000000001" + "00000000", // ipv6 ::1 port 80
			"01002F72756E2F782E736F636B00",                                       // unix /run/x.sock
			"0100",                                                               // unix, empty path
			"100000000000000000000000",                                           // netlink
			"0200",                                                               // too short for ipv4 -> Data() fails
			"zz",                                                                 // not hex -> Data() fails
			"2B00112233",                                                         // unknown family
			// truncations at and between the field boundaries (Data() must fail cleanly, never panic)
			"0A00005000000000" + "000000000000000000000000",
			"0A00005000000000" + "0000000000000000000000000000",
			"0A00005000000000" + "000000000000000000000000000000",
			"0A0000500000", "0A00", "020000500102", "02000050", "010000", "0100002F746D702F78", "01", "0", "",
			"0200005001020304" + "00000000000000" + "0",
		})}}
	case coKProctitle:
		typ = tPROCTITLE
		kvs = []coKvp{{"proctitle", coPick(rng, []string{coUpHex("cat\x00/etc/passwd"), "bash", coUpHex("python3\x00-c\x00print(1)"), "(null)"})}}
	case coKAvc:
		typ = coTAVC
		body := coPick(rng, []string{
			`avc:  denied  { read write } for  pid=%d comm="httpd" name="x" dev="dm-0" ino=%d scontext=system_u:system_r:httpd_t:s0 tcontext=system_u:object_r:tmp_t:s0 tclass=file permissive=0`,
			`apparmor="DENIED" operation="open" profile="/usr/sbin/x" name="/etc/y" pid=%d comm="x" requested_mask="r" denied_mask="r" fsuid=%d ouid=0`,
			`avc:  granted  { getattr } for  pid=%d comm="ls" path="/root" ino=%d scontext=u:r:t:s0 tcontext=u:o:t:s0 tclass=dir`,
		})
		s := fmt.Sprintf(body, rng.Intn(300), rng.Intn(3000))
		if nExtra > 0 {
			s += " " + coRenderBody(coExtras(rng, nExtra))
		}
		return typ, s
	default:
		typ = coOtherTypes[rng.Intn(len(coOtherTypes))]
		inner := []coKvp{{"op", coPick(rng, []string{"login", "PAM:authentication", "start"})}, {"acct", coPick(rng, coIdVals)}, {"exe", coPick(rng, coPathVals)},
			{"hostname", coPick(rng, []string{"h1", "?", "10.1.1.1"})}, {"addr", coPick(rng, coAddrVals)}, {"terminal", coPick(rng, []string{"ssh", "/dev/pts/0"})},
			{"res", coPick(rng, []string{"success", "failed"})}}
		inner = coMaybeDrop(rng, inner, 0.15)
		kvs = []coKvp{{"pid", fmt.Sprint(rng.Intn(9))}, {"uid", coPick(rng, coIdVals)}, {"auid", coPick(rng, coIdVals)}, {"ses", coPick(rng, coIdVals)},
			{"subj", "system_u:system_r:sshd_t:s0-s0:c0.c1023"}}
		kvs = coMaybeDrop(rng, kvs, 0.15)
		ex := coExtras(rng, nExtra)
		coShuffleKV(rng, kvs)
		// the msg='…' wrapper is flattened by the parser
		return typ, coRenderBody(append(kvs, ex...)) + " msg='" + coRenderBody(inner) + "'"
	}
	kvs = append(kvs, coExtras(rng, nExtra)...)
	if kind != coKExecve || nExtra > 0 {
		if rng.Intn(3) == 0 {
			coShuffleKV(rng, kvs)
		}
	}
	return typ, coRenderBody(kvs)
}

// every record type the library has a name for, plus a few it has not
var coOtherTypes = func() []uint16 {
	var out []uint16
	for t := 1000; t < 3000; t++ {
		switch t {
		case tSYSCALL, tPATH, coTSOCKADDR, tEXECVE, tEOE:
			continue
		}
		if !strings.HasPrefix(auparse.AuditMessageType(t).String(), "UNKNOWN") {
			out = append(out, uint16(t))
		}
	}
	return append(out, 0, 999, 1399, 2999, 65535)
}()

// coFailData turns the record into one whose Data() fails.
func coFailData(rng *rand.Rand, r *coal.Rec) {
	switch {
	case r.Typ == tSYSCALL && rng.Intn(2) == 0:
		r.Body = strings.Replace(r.Body, "arch=", "arhc=", 1)
	case r.Typ == tEXECVE && rng.Intn(2) == 0:
		r.Body = "argc=3 a0=x"
	case r.Typ == coTSOCKADDR && rng.Intn(2) == 0:
		r.Body = "saddr=0200"
	default:
		r.NoBody = true
	}
}

// coGenGroup: a SYSCALL group with the given companions (kinds) in the given order.
func coGenGroup(rng *rand.Rand, kinds []int, pExtra, pFail float64) C09Case {
	seq := rng.Uint32()
	if rng.Intn(4) == 0 {
		seq = []uint32{0, 1, 4294967295, 2147483648}[rng.Intn(4)]
	}
	ms := int64(rng.Intn(2000000000))*1000 + int64(rng.Intn(1000))
	var c C09Case
	for _, k := range kinds {
		ne := 0
		for rng.Float64() < pExtra && ne < 4 {
			ne++
		}
		typ, body := coGenBody(rng, k, ne)
		r := coal.Rec{Typ: typ, Seq: seq, Ms: ms, Body: body}
		if rng.Float64() < pFail {
			coFailData(rng, &r)
		}
		c.Recs = append(c.Recs, r)
	}
	// identity must come from the first record even if the others disagree
	if len(c.Recs) > 1 && rng.Intn(6) == 0 {
		i := 1 + rng.Intn(len(c.Recs)-1)
		c.Recs[i].Seq++
		c.Recs[i].Ms += 1234
	}
	if rng.Intn(3) == 0 {
		c.Recs = append(c.Recs, coal.Rec{Typ: tEOE, Seq: seq, Ms: ms, Body: ""})
	}
	return c
}

func coPermKinds(rng *rand.Rand, kinds []int) []int {
	out := append([]int{}, kinds...)
	rng.Shuffle(len(out), func(i, j int) { out[i], out[j] = out[j], out[i] })
	return out
}

// coSubsetKinds: companions selected by the bits of mask, PATH 0..3 times.
func coSubsetKinds(rng *rand.Rand, mask int) []int {
	kinds := []int{coKSyscall}
	if mask&1 != 0 {
		kinds = append(kinds, coKCwd)
	}
	if mask&2 != 0 {
		for i := 1 + rng.Intn(3); i > 0; i-- {
			kinds = append(kinds, coKPath)
		}
	}
	if mask&4 != 0 {
		kinds = append(kinds, coKExecve)
	}
	if mask&8 != 0 {
		kinds = append(kinds, coKSockaddr)
	}
	if mask&16 != 0 {
		kinds = append(kinds, coKProctitle)
	}
	if mask&32 != 0 {
		kinds = append(kinds, []int{coKAvc, coKOther}[rng.Intn(2)])
	}
	return kinds
}

// coGenCollision: records of kinds a and b both carry key k (different values), inside a SYSCALL
// group; order and the position of the SYSCALL record vary.
func coGenCollision(rng *rand.Rand, a, b int, key string) C09Case {
	kinds := []int{a, b}
	if a != coKSyscall && b != coKSyscall {
		kinds = append(kinds, coKSyscall)
	}
	if rng.Intn(2) == 0 {
		kinds = append(kinds, []int{coKCwd, coKPath, coKProctitle}[rng.Intn(3)])
	}
	kinds = coPermKinds(rng, kinds)
	c := coGenGroup(rng, kinds, 0, 0)
	n := 0
	for i := range c.Recs {
		r := &c.Recs[i]
		if r.Typ == tEOE {
			continue
		}
		if n < 2 && (kinds[i] == a || kinds[i] == b) {
			v := coRandValue(rng, key)
			if n == 1 {
				v += "2"
			}
			extra := key + "=" + coQuoteVal(v)
			if kinds[i] == coKOther {
				r.Body = extra + " " + r.Body
			} else {
				r.Body += " " + extra
			}
			n++
		}
	}
	c.Note = fmt.Sprintf("collision %s/%s on %s", coKindNames[a], coKindNames[b], key)
	return c
}

// coGenSingle: one record of the given type.
func coGenSingle(rng *rand.Rand, typ uint16) C09Case {
	var body string
	switch typ {
	case tSYSCALL:
		_, body = coGenBody(rng, coKSyscall, rng.Intn(2))
	case tPATH:
		_, body = coGenBody(rng, coKPath, rng.Intn(2))
	case tEXECVE:
		_, body = coGenBody(rng, coKExecve, 0)
	case coTSOCKADDR:
		_, body = coGenBody(rng, coKSockaddr, 0)
	case tCWD:
		_, body = coGenBody(rng, coKCwd, rng.Intn(2))
	case tPROCTITLE:
		_, body = coGenBody(rng, coKProctitle, 0)
	case coTAVC:
		_, body = coGenBody(rng, coKAvc, rng.Intn(2))
	default:
		_, body = coGenBody(rng, coKOther, rng.Intn(3))
	}
	c := C09Case{Recs: []coal.Rec{{Typ: typ, Seq: rng.Uint32(), Ms: rng.Int63n(1 << 40), Body: body}}}
	if rng.Intn(12) == 0 {
		coFailData(rng, &c.Recs[0])
	}
	if rng.Intn(5) == 0 {
		c.Recs = append(c.Recs, coal.Rec{Typ: tEOE, Seq: c.Recs[0].Seq, Ms: c.Recs[0].Ms})
	}
	return c
}

var coFileSyscalls = []string{"2", "257", "83", "258", "82", "264", "316", "165", "90", "87", "263", "84", "133", "76", "188", "21"}

// coGenFirstOther: [record of type typ, SYSCALL with the given syscall number, SOCKADDR and/or PATH ...].
func coGenFirstOther(rng *rand.Rand, typ uint16, syscallNum string) C09Case {
	seq := rng.Uint32()
	ms := int64(rng.Intn(2000000000))*1000 + int64(rng.Intn(1000))
	var c C09Case
	_, body := coGenBody(rng, coKOther, rng.Intn(2))
	c.Recs = append(c.Recs, coal.Rec{Typ: typ, Seq: seq, Ms: ms, Body: body})
	_, sbody := coGenBody(rng, coKSyscall, 0)
	// pin the syscall number (the generated body has exactly one syscall= field)
	if i := strings.Index(sbody, "syscall="); i >= 0 {
		j := i + len("syscall=")
		k := j
		for k < len(sbody) && sbody[k] != ' ' {
			k++
		}
		sbody = sbody[:j] + syscallNum + sbody[k:]
	}
	c.Recs = append(c.Recs, coal.Rec{Typ: tSYSCALL, Seq: seq, Ms: ms, Body: sbody})
	comp := [][]int{{coKSockaddr}, {coKSockaddr, coKPath}, {coKPath, coKCwd}, {coKSockaddr, coKProctitle}, {}}[rng.Intn(5)]
	if syscallNum != "2" && rng.Intn(4) > 0 {
		comp = [][]int{{coKSockaddr}, {coKSockaddr, coKProctitle}}[rng.Intn(2)]
	}
	for _, k := range comp {
		typ2, b := coGenBody(rng, k, 0)
		if k == coKSockaddr && rng.Intn(4) > 0 {
			b = "saddr=" + []string{"02000050C0A800010000000000000000", "0A0000500000000000000000000000000000000000000001" + "00000000", "01002F72756E2F782E736F636B00"}[rng.Intn(3)]
		}
		c.Recs = append(c.Recs, coal.Rec{Typ: typ2, Seq: seq, Ms: ms, Body: b})
	}
	if rng.Intn(3) == 0 {
		// the SYSCALL record need not be second
		n := len(c.Recs)
		if n > 2 {
			c.Recs[1], c.Recs[n-1] = c.Recs[n-1], c.Recs[1]
		}
	}
	return c
}

// coGenLarge: shape 0 = n PATH records, 1 = EXECVE with n arguments, 2 = values of 16*n bytes, 3 = n records of mixed kinds.
func coGenLarge(rng *rand.Rand, n int, shape int) C09Case {
	seq := rng.Uint32()
	ms := int64(1500000000)*1000 + int64(rng.Intn(1000))
	var c C09Case
	addRec := func(typ uint16, body string) {
		c.Recs = append(c.Recs, coal.Rec{Typ: typ, Seq: seq, Ms: ms, Body: body})
	}
	_, sbody := coGenBody(rng, coKSyscall, 0)
	addRec(tSYSCALL, sbody)
	switch shape {
	case 0:
		addRec(tCWD, "cwd=\"/work\"")
		for i := 0; i < n; i++ {
			addRec(tPATH, fmt.Sprintf("item=%d name=\"/d/f%d\" inode=%d dev=fd:00 mode=0100644 ouid=%d ogid=0 rdev=00:00 obj=u:r:t:s0 nametype=%s",
				i, i, 1000+i, i%7, []string{"NORMAL", "PARENT", "CREATE", "UNKNOWN", "DELETE"}[i%5]))
		}
	case 1:
		var b strings.Builder
		fmt.Fprintf(&b, "argc=%d", n)
		for i := 0; i < n; i++ {
			if i%4 == 0 {
				fmt.Fprintf(&b, " a%d=%s", i, coUpHex(fmt.Sprintf("arg %d", i)))
			} else {
				fmt.Fprintf(&b, " a%d=\"v%d\"", i, i)
			}
		}
		addRec(tEXECVE, b.String())
	case 2:
		long := strings.Repeat("0123456789abcdef", n)
		addRec(tCWD, "cwd="+coUpHex("/sp ace/"+long))
		addRec(tPATH, "item=0 name=\"/"+long+"\" inode=7 dev=fd:00 mode=0100600 ouid=0 ogid=0 rdev=00:00 nametype=NORMAL")
		addRec(tPROCTITLE, "proctitle="+coUpHex("cmd\x00"+long))
	default:
		for i := 0; i < n; i++ {
			k := []int{coKPath, coKCwd, coKProctitle, coKSockaddr, coKOther, coKAvc, coKExecve}[i%7]
			typ, body := coGenBody(rng, k, i%2)
			addRec(typ, body)
		}
	}
	if rng.Intn(2) == 0 {
		addRec(tEOE, "")
	}
	return c
}

// coGenModeCase: a group whose selected PATH record has st_mode m.  The surrounding records vary
// with m so that the 65 536 cases also sweep path-index hints and PARENT/UNKNOWN skipping.
func coGenModeCase(rng *rand.Rand, m uint32) C09Case {
	seq := uint32(1000 + m)
	ms := int64(1500000000000) + int64(m)
	sc := coFileSyscalls[int(m)%len(coFileSyscalls)]
	mk := func(typ uint16, body string) coal.Rec { return coal.Rec{Typ: typ, Seq: seq, Ms: ms, Body: body} }
	c := C09Case{Recs: []coal.Rec{mk(tSYSCALL, fmt.Sprintf("arch=c000003e syscall=%s success=yes exit=0 items=2 ppid=1 pid=%d auid=1000 uid=0 gid=0 ses=1 comm=\"t\" exe=\"/bin/t\"", sc, 2+m%7))}}
	target := fmt.Sprintf("item=1 name=\"/d/f%d\" inode=%d dev=fd:00 mode=%s ouid=%d ogid=%d rdev=00:00 obj=u:object_r:t:s0 nametype=%s",
		m, 10+m, coModeText(m), m%3, m%5, []string{"NORMAL", "CREATE", "DELETE"}[m%3])
	parent := func(i uint32) string {
		return fmt.Sprintf("item=0 name=\"/d%d/\" inode=%d dev=fd:00 mode=040755 ouid=0 ogid=0 rdev=00:00 nametype=%s", i, 7+i, []string{"PARENT", "UNKNOWN"}[i%2])
	}
	switch (m / 16) % 4 {
	case 0:
		c.Recs = append(c.Recs, mk(tPATH, target))
	case 1:
		c.Recs = append(c.Recs, mk(tCWD, "cwd=\"/\""), mk(tPATH, parent(m)), mk(tPATH, target))
	case 2:
		c.Recs = append(c.Recs, mk(tPATH, parent(m)), mk(tPATH, parent(m+1)), mk(tPATH, target), mk(tPROCTITLE, "proctitle=74"))
	default:
		c.Recs = append(c.Recs, mk(tEXECVE, "argc=1 a0=t"), mk(tPATH, parent(m)), mk(tPATH, parent(m+1)), mk(tPATH, parent(m+2)), mk(tPATH, target))
	}
	return c
}

// coAddEdits edits cached Data() maps: arbitrary keys/values, removal of keys the coalescer expects.
func coAddEdits(rng *rand.Rand, c *C09Case) {
	if len(c.Recs) == 0 {
		return
	}
	randBytes := func() string {
		switch rng.Intn(6) {
		case 0:
			return ""
		case 1:
			b := make([]byte, 1+rng.Intn(6))
			rng.Read(b)
			return string(b)
		case 2:
			return coPick(rng, []string{"subj_", "obj_", "uid", "gid", "socket_", "a", "a00", "a1 ", "Auid", "xuid", "subj_uid", "obj_gid", "ses", "result"})
		default:
			return coPick(rng, coHotKeys)
		}
	}
	n := 1 + rng.Intn(4)
	for i := 0; i < n; i++ {
		r := &c.Recs[rng.Intn(len(c.Recs))]
		var e coal.Edit
		switch rng.Intn(4) {
		case 0:
			e = coal.Edit{K: coal.Hx(coPick(rng, []string{"argc", "a0", "a1", "syscall", "items", "name", "mode", "nametype", "result", "ses", "exe", "comm"})), Del: true}
		case 1:
			k := coPick(rng, []string{"mode", "argc", "syscall", "nametype"})
			e = coal.Edit{K: coal.Hx(k), V: coal.Hx(coRandValue(rng, k))}
		default:
			v := randBytes()
			if rng.Intn(2) == 0 {
				v = coRandValue(rng, coPick(rng, coHotKeys))
			}
			e = coal.Edit{K: coal.Hx(randBytes()), V: coal.Hx(v)}
		}
		r.Edits = append(r.Edits, e)
	}
}

// coGenMalformed: groups outside the property's quantifier (no SYSCALL, several SYSCALLs, EOE in
// odd places, empty) — errors/identity/no-panic clauses and the correspondence still apply.
func coGenMalformed(rng *rand.Rand) C09Case {
	switch rng.Intn(6) {
	case 0:
		return C09Case{}
	case 1:
		return C09Case{Recs: []coal.Rec{{Typ: tEOE, Seq: 5, Ms: 1}}}
	case 2:
		n := 2 + rng.Intn(3)
		var kinds []int
		for i := 0; i < n; i++ {
			kinds = append(kinds, 1+rng.Intn(coNKinds-1))
		}
		return coGenGroup(rng, kinds, 0.2, 0.1)
	case 3:
		return coGenGroup(rng, coPermKinds(rng, []int{coKSyscall, coKSyscall, coKPath, coKOther}), 0.3, 0.1)
	case 4:
		c := coGenGroup(rng, coPermKinds(rng, []int{coKSyscall, coKExecve, coKExecve, coKCwd}), 0.3, 0.1)
		return c
	default:
		c := coGenGroup(rng, coPermKinds(rng, coSubsetKinds(rng, rng.Intn(64))), 0.3, 0.1)
		i := rng.Intn(len(c.Recs) + 1)
		eoe := coal.Rec{Typ: tEOE, Seq: 1, Ms: 1}
		c.Recs = append(c.Recs[:i:i], append([]coal.Rec{eoe}, c.Recs[i:]...)...)
		return c
	}
}
