package main

// Coalescer family, property C15: repeatable, inputs intact, events isolated, no data races.

import (
	"bytes"
	"encoding/json"
	"fmt"
	"math/rand"
	"os"
	"os/exec"
	"os/user"
	"path/filepath"
	"sort"
	"strconv"
	"strings"
	"time"

	"github.com/elastic/go-libaudit/v2/aucoalesce"
	"github.com/elastic/go-libaudit/v2/auparse"

	"verifharness/internal/coal"
	"verifharness/internal/common"
)

func init() {
	families["C15"] = c15Family
	// deterministic entries in the package-level caches (ResolveIDs); everything else is
	// answered by the host's user database, which the oracle below consults the same way
	aucoalesce.HardcodeUsers(user.User{Uid: "1000", Username: "alice"}, user.User{Uid: "1001", Username: "bob"}, user.User{Uid: "48", Username: "apache"})
	aucoalesce.HardcodeGroups(user.Group{Gid: "1000", Name: "staff"}, user.Group{Gid: "48", Name: "apache"})
}

var c15HardUsers = map[string]string{"0": "root", "1000": "alice", "1001": "bob", "48": "apache"}
var c15HardUserNames = map[string]string{"root": "0", "alice": "1000", "bob": "1001", "apache": "48"}
var c15HardGroups = map[string]string{"0": "root", "1000": "staff", "48": "apache"}
var c15HardGroupNames = map[string]string{"root": "0", "staff": "1000", "apache": "48"}

// C15Op is one step of a history over a pool of message groups.
type C15Op struct {
	K string `json:"k"` // co (CoalesceMessages on group G) | res (ResolveIDs on held event E) | resown (ResolveIDsFromCaches, caller-made caches)
	G int    `json:"g,omitempty"`
	E int    `json:"e,omitempty"`
}

// C15Case is a pool of groups and a history; Conc marks the concurrent soak.
type C15Case struct {
	Groups [][]coal.Rec `json:"groups"`
	Ops    []C15Op      `json:"ops,omitempty"`
	Conc   bool         `json:"concurrent,omitempty"`
	Note   string       `json:"note,omitempty"`
	// real time that passes before operation PauseAt (the id caches keep what they looked up for a minute; entries that
	// were put in by hand, and root, are kept for good): the model has no clock, the outcome does not depend on the pause
	PauseAt int `json:"pause_at,omitempty"`
	PauseMs int `json:"pause_ms,omitempty"`
}

func (c C15Case) canon() string { b, _ := json.Marshal(c); return string(b) }

// coMsgSnapshot renders everything a message reports: Data(), Tags(), ToMapStr().
func coMsgSnapshot(m *auparse.AuditMessage) string {
	var b strings.Builder
	b.WriteString(coal.View(m))
	ms := m.ToMapStr()
	keys := make([]string, 0, len(ms))
	for k := range ms {
		keys = append(keys, k)
	}
	sort.Strings(keys)
	for _, k := range keys {
		fmt.Fprintf(&b, "|%s=%v", coal.Hx(k), ms[k])
	}
	return b.String()
}

type coHeldEvent struct {
	ev   *aucoalesce.Event
	perr error
	flat string // as it read when it was returned / last resolved
	js   string // encoding/json rendering at that time (covers any field the flattening might miss)
}

func coEvJSON(ev *aucoalesce.Event) string {
	b, err := json.Marshal(ev)
	if err != nil {
		return "json-error:" + err.Error()
	}
	return string(b)
}

// lookups the model needs to replay ResolveIDs on the event: id→name and name→id for every
// string of the event that can reach a cache.
func c15Lookups(ev *aucoalesce.Event, own bool) string {
	cands := map[string]bool{ev.Summary.Actor.Primary: true, ev.Summary.Actor.Secondary: true}
	for _, v := range ev.User.IDs {
		cands[v] = true
	}
	if ev.File != nil {
		cands[ev.File.UID] = true
		cands[ev.File.GID] = true
	}
	for _, e := range []aucoalesce.ECSEntityData{ev.ECS.User.ECSEntityData, ev.ECS.User.Effective, ev.ECS.User.Target, ev.ECS.User.Changes, ev.ECS.Group} {
		cands[e.ID] = true
		cands[e.Name] = true
	}
	hu, hun, hg, hgn := c15HardUsers, c15HardUserNames, c15HardGroups, c15HardGroupNames
	if own {
		hu, hun = map[string]string{"0": "root"}, map[string]string{"root": "0"}
		hg, hgn = hu, hun
	}
	table := func(hard map[string]string, f func(string) string) string {
		var parts []string
		keys := make([]string, 0, len(cands))
		for k := range cands {
			keys = append(keys, k)
		}
		sort.Strings(keys)
		for _, k := range keys {
			if k == "" || k == "unset" {
				continue
			}
			v, ok := hard[k]
			if !ok {
				v = f(k)
			}
			if v != "" {
				parts = append(parts, coal.Hx(k)+":"+coal.Hx(v))
			}
		}
		if len(parts) == 0 {
			return "_"
		}
		return strings.Join(parts, ",")
	}
	u := table(hu, func(s string) string {
		if x, err := user.LookupId(s); err == nil {
			return x.Username
		}
		return ""
	})
	g := table(hg, func(s string) string {
		if x, err := user.LookupGroupId(s); err == nil {
			return x.Name
		}
		return ""
	})
	un := table(hun, func(s string) string {
		if x, err := user.Lookup(s); err == nil {
			return x.Uid
		}
		return ""
	})
	gn := table(hgn, func(s string) string {
		if x, err := user.LookupGroup(s); err == nil {
			return x.Gid
		}
		return ""
	})
	return u + "/" + g + "/" + un + "/" + gn
}

// coWasNow names the first field of a flattened event that changed.
func coWasNow(was, now string) string {
	a, b := strings.Split(was, ";"), strings.Split(now, ";")
	for i := 0; i < len(a) && i < len(b); i++ {
		if a[i] != b[i] {
			return "was " + a[i] + ", now " + b[i]
		}
	}
	return "was " + was + ", now " + now
}

type c15Result struct {
	clause string // monitor clause that failed ("" = none)
	impl   string
	model  string
	corr   string // correspondence disagreement ("" = none)
	tags   []string
	lines  int
}

// runC15History executes one history on the real library and on the model.
func runC15History(m *common.Model, c C15Case) (r c15Result) {
	guardEnter(c)
	defer guardLeave()
	defer func() {
		if p := recover(); p != nil {
			r.clause = fmt.Sprintf("panic outside CoalesceMessages: %v", p)
		}
	}()
	// message objects the library works on, and twins nobody else touches as the reference
	var msgs, twins [][]*auparse.AuditMessage
	var ids [][]int
	lines := []string{"coal reset"}
	next := 0
	for _, g := range c.Groups {
		a, err := coal.BuildAll(g)
		if err != nil {
			r.clause = "harness: record does not parse: " + err.Error()
			return
		}
		b, _ := coal.BuildAll(g)
		msgs = append(msgs, a)
		twins = append(twins, b)
		var gi []int
		for i, t := range b {
			lines = append(lines, "coal msg "+coal.View(t))
			if len(g[i].Edits) > 0 {
				lines = append(lines, fmt.Sprintf("coal touch %d", next))
			}
			gi = append(gi, next)
			next++
		}
		ids = append(ids, gi)
	}
	ref := make([][]string, len(twins))
	for g := range twins {
		for _, t := range twins[g] {
			ref[g] = append(ref[g], coMsgSnapshot(t))
		}
	}
	var held []*coHeldEvent
	first := map[int]string{}
	used := map[int]bool{}
	ownUsers, ownGroups := aucoalesce.NewUserCache(time.Minute), aucoalesce.NewGroupCache(time.Minute)
	type expect struct {
		line int    // index of the reply to compare
		want string // what the implementation showed
		what string
	}
	var exps []expect
	ask := func(l string) int { lines = append(lines, l); return len(lines) - 1 }

	checkIsolation := func(except int, what string) bool {
		for j, h := range held {
			if j == except {
				continue
			}
			if now := coal.Flatten(h.ev, h.perr); now != h.flat {
				r.clause = fmt.Sprintf("isolation: event %d, returned earlier, reads differently after %s: %s", j, what, coWasNow(h.flat, now))
				r.impl = now
				return false
			}
			if now := coEvJSON(h.ev); now != h.js {
				r.clause = fmt.Sprintf("isolation: event %d, returned earlier, marshals differently after %s", j, what)
				r.impl = now
				return false
			}
		}
		for g := range msgs {
			if !used[g] {
				continue
			}
			for i, mm := range msgs[g] {
				if now := coMsgSnapshot(mm); now != ref[g][i] {
					r.clause = fmt.Sprintf("inputs intact: message %d of group %d reports something else after %s: %s / %s", i, g, what, now, ref[g][i])
					r.impl = now
					return false
				}
			}
		}
		return true
	}

	for oi, op := range c.Ops {
		if c.PauseMs > 0 && oi == c.PauseAt {
			time.Sleep(time.Duration(c.PauseMs) * time.Millisecond)
		}
		switch op.K {
		case "co":
			if op.G < 0 || op.G >= len(msgs) {
				continue
			}
			ev, obs := coal.RunCoalesce(msgs[op.G])
			what := fmt.Sprintf("op %d (CoalesceMessages on group %d)", oi, op.G)
			strs := make([]string, len(ids[op.G]))
			for i, id := range ids[op.G] {
				strs[i] = strconv.Itoa(id)
			}
			arg := strings.Join(strs, ",")
			if arg == "" {
				arg = "_"
			}
			li := ask("coal coalesce " + arg)
			if obs == "panic" {
				r.clause = "no panic: CoalesceMessages panicked at " + what
				r.impl = obs
				return
			}
			used[op.G] = true
			if f, ok := first[op.G]; ok {
				if f != obs {
					r.clause = fmt.Sprintf("repeatable: %s yields a different event than the first time: %s", what, coWasNow(f, obs))
					r.impl = obs
					return
				}
				r.tags = append(r.tags, "repeated_coalesce")
			} else {
				first[op.G] = obs
			}
			want := obs
			if ev != nil {
				want = fmt.Sprintf("%d %s", len(held), obs)
			}
			exps = append(exps, expect{li, want, what})
			if !checkIsolation(-1, what) {
				return
			}
			// the messages of this group are now touched in the model too (the snapshot called Data())
			for _, id := range ids[op.G] {
				ask(fmt.Sprintf("coal touch %d", id))
			}
			if ev != nil {
				held = append(held, &coHeldEvent{ev: ev, perr: coal.PrimaryErr(msgs[op.G]), flat: obs, js: coEvJSON(ev)})
			}
		case "res", "resown":
			if len(held) == 0 {
				continue
			}
			e := op.E % len(held)
			h := held[e]
			own := op.K == "resown"
			lk := c15Lookups(h.ev, own)
			func() {
				defer func() {
					if p := recover(); p != nil {
						r.clause = fmt.Sprintf("no panic: ResolveIDs panicked at op %d: %v", oi, p)
					}
				}()
				if own {
					aucoalesce.ResolveIDsFromCaches(h.ev, ownUsers, ownGroups)
				} else {
					aucoalesce.ResolveIDs(h.ev)
				}
			}()
			if r.clause != "" {
				return
			}
			what := fmt.Sprintf("op %d (ResolveIDs on event %d)", oi, e)
			h.flat = coal.Flatten(h.ev, h.perr)
			h.js = coEvJSON(h.ev)
			li := ask(fmt.Sprintf("coal resolve %d %s", e, lk))
			exps = append(exps, expect{li, h.flat, what})
			if !checkIsolation(e, what) {
				return
			}
			r.tags = append(r.tags, "resolve")
		}
		// the whole pool as both sides read it now
		li := ask("coal obs")
		flats := make([]string, len(held))
		for j, h := range held {
			flats[j] = coal.Flatten(h.ev, h.perr)
		}
		exps = append(exps, expect{li, strings.Join(flats, "|"), fmt.Sprintf("pool after op %d", oi)})
	}
	replies, err := m.Ask(lines)
	if err != nil {
		r.corr = "model driver failed: " + err.Error()
		return
	}
	r.lines = len(exps)
	for _, e := range exps {
		if replies[e.line] != e.want {
			r.corr = fmt.Sprintf("Model.CoalesceHeap disagrees at %s: %s", e.what, coFirstDiff(e.want, replies[e.line]))
			r.impl, r.model = e.want, replies[e.line]
			return
		}
	}
	if len(held) > 1 {
		r.tags = append(r.tags, "several_events_held")
	}
	return
}

// ---- generators -------------------------------------------------------------------------------

// syscalls whose normalisations differ in ECS category and type (x86_64 numbers)
var c15Syscalls = []string{"16", "46", "2", "87", "90", "42", "105", "175", "59", "85", "9999", "62"}

// twinGroups: two groups with the same first record type and different syscalls — the events
// share one record-type normalisation and append different syscall categories to it.
func c15TwinGroups(rng *rand.Rand, typ uint16) [][]coal.Rec {
	var out [][]coal.Rec
	perm := rng.Perm(len(c15Syscalls))
	for i := 0; i < 2+rng.Intn(2); i++ {
		seq := uint32(100 + i)
		ms := int64(1600000000000) + int64(i)
		_, body := coGenBody(rng, coKOther, 0)
		if typ == coTAVC {
			_, body = coGenBody(rng, coKAvc, 0)
		}
		g := []coal.Rec{
			{Typ: typ, Seq: seq, Ms: ms, Body: body},
			{Typ: tSYSCALL, Seq: seq, Ms: ms, Body: fmt.Sprintf("arch=c000003e syscall=%s success=%s exit=0 items=0 ppid=1 pid=%d auid=%s uid=%s gid=%s ses=2 comm=\"x\" exe=\"/bin/x\"",
				c15Syscalls[perm[i]], coPick(rng, []string{"yes", "no"}), 7+i, coPick(rng, coIdVals), coPick(rng, coIdVals), coPick(rng, coIdVals))},
		}
		if rng.Intn(3) == 0 {
			g = append(g, coal.Rec{Typ: tPROCTITLE, Seq: seq, Ms: ms, Body: "proctitle=78"})
		}
		out = append(out, g)
	}
	return out
}

func c15RandomOps(rng *rand.Rand, nGroups, n int) []C15Op {
	var ops []C15Op
	for i := 0; i < n; i++ {
		switch x := rng.Intn(10); {
		case x < 6 || i == 0:
			ops = append(ops, C15Op{K: "co", G: rng.Intn(nGroups)})
		case x < 8:
			ops = append(ops, C15Op{K: "res", E: rng.Intn(8)})
		default:
			ops = append(ops, C15Op{K: "resown", E: rng.Intn(8)})
		}
	}
	return ops
}

func genC15Case(rng *rand.Rand) C15Case {
	var c C15Case
	n := 1 + rng.Intn(4)
	for i := 0; i < n; i++ {
		var g C09Case
		switch rng.Intn(8) {
		case 0:
			g = coGenSingle(rng, coOtherTypes[rng.Intn(len(coOtherTypes))])
		case 1:
			g = coGenMalformed(rng)
		case 2:
			g = coGenCollision(rng, rng.Intn(coNKinds), 1+rng.Intn(coNKinds-1), coPick(rng, coHotKeys))
		default:
			g = coGenGroup(rng, coPermKinds(rng, coSubsetKinds(rng, rng.Intn(64))), 0.3, 0.08)
		}
		if rng.Intn(40) == 0 {
			// sizes a generated group does not reach by chance (hundreds of PATH records / arguments / records)
			g = coGenLarge(rng, []int{129, 255, 256, 257, 300}[rng.Intn(5)], rng.Intn(4))
		}
		if rng.Intn(6) == 0 {
			coAddEdits(rng, &g)
		}
		if g.Recs == nil {
			g.Recs = []coal.Rec{}
		}
		c.Groups = append(c.Groups, g.Recs)
	}
	if rng.Intn(3) == 0 {
		c.Groups = append(c.Groups, c15TwinGroups(rng, coOtherTypes[rng.Intn(len(coOtherTypes))])...)
	}
	c.Ops = c15RandomOps(rng, len(c.Groups), 4+rng.Intn(9))
	return c
}

// ---- a user database with two names for one id (child processes in a private mount namespace) -----------------

// c15AliasDB: the sandbox's user database maps ids and names one to one, and on such a database a cache that learns the
// wrong direction still answers right. A child process is therefore run in a private mount namespace (unshare -m) in
// which /etc/passwd and /etc/group are copies with alias accounts added (two names for uid 61001, for gid 61002, and a
// second name for root). The event with the numeric id is resolved alone in one child, and after events that mention
// the aliases by name in another; the two answers must be the same. Returns a clause, or a note when the namespace
// cannot be made.
func c15AliasDB(ctx *Ctx) (clause, note string, pair [2]string) {
	h := filepath.Join(ctx.Verif, "harness")
	bin := filepath.Join(ctx.Verif, ".work", "bin", "c15alias")
	args := []string{"build"}
	if repo := os.Getenv("VERIF_REPO"); repo != "" && repo != "/repo" {
		args = append(args, "-modfile="+filepath.Join(ctx.Verif, ".work", "alt.mod"))
	}
	args = append(args, "-tags", "verif", "-o", bin, "./cmd/c15alias")
	cmd := exec.Command("go", args...)
	cmd.Dir = h
	if out, err := cmd.CombinedOutput(); err != nil {
		return "", fmt.Sprintf("alias-database child cannot be built: %v: %s", err, lastLine(string(out))), pair
	}
	dir := filepath.Join(ctx.Verif, ".work", "aliasdb")
	os.MkdirAll(dir, 0o755)
	pw, _ := os.ReadFile("/etc/passwd")
	gr, _ := os.ReadFile("/etc/group")
	pw = append(append([]byte{}, pw...), []byte("deploy:x:61001:61002::/:/bin/sh\ndeploy-admin:x:61001:61002::/:/bin/sh\ntoor:x:0:0::/root:/bin/sh\n")...)
	gr = append(append([]byte{}, gr...), []byte("ops:x:61002:\nops-oncall:x:61002:\n")...)
	os.WriteFile(filepath.Join(dir, "passwd"), pw, 0o644)
	os.WriteFile(filepath.Join(dir, "group"), gr, 0o644)
	target := "type=SYSCALL msg=audit(1500000000.100:9): arch=c000003e syscall=2 success=yes exit=3 a0=1 items=0 ppid=1 pid=2 auid=61001 uid=61001 gid=61002 euid=0 suid=0 fsuid=0 egid=61002 sgid=0 fsgid=0 tty=pts0 ses=1 comm=\"cat\" exe=\"/bin/cat\" key=(null)"
	before := []string{
		"type=USER_AUTH msg=audit(1500000000.001:1): pid=1 uid=0 auid=0 ses=1 msg='op=PAM:authentication acct=\"deploy-admin\" exe=\"/usr/sbin/sshd\" hostname=h addr=10.0.0.1 terminal=ssh res=success'",
		"type=USER_CHAUTHTOK msg=audit(1500000000.002:2): pid=1 uid=0 auid=0 ses=1 msg='op=changing-password acct=\"toor\" exe=\"/usr/bin/passwd\" hostname=h addr=? terminal=pts/0 res=success'",
		"type=GRP_MGMT msg=audit(1500000000.003:3): pid=1 uid=0 auid=0 ses=1 msg='op=modify-group grp=\"ops-oncall\" acct=\"deploy-admin\" exe=\"/usr/sbin/usermod\" hostname=h addr=? terminal=pts/0 res=success'",
		"type=SYSCALL msg=audit(1500000000.004:4): arch=c000003e syscall=2 success=yes exit=3 a0=1 items=0 ppid=1 pid=2 auid=0 uid=0 gid=0 euid=0 suid=0 fsuid=0 egid=0 sgid=0 fsgid=0 tty=pts0 ses=1 comm=\"cat\" exe=\"/bin/cat\" key=(null)",
	}
	run := func(lines []string) (string, error) {
		script := fmt.Sprintf("mount --bind %s /etc/passwd && mount --bind %s /etc/group && exec \"$0\" \"$@\"", filepath.Join(dir, "passwd"), filepath.Join(dir, "group"))
		c := exec.Command("unshare", append([]string{"-m", "sh", "-c", script, bin}, lines...)...)
		out, err := c.CombinedOutput()
		return strings.TrimSpace(string(out)), err
	}
	alone, err := run([]string{target})
	if err != nil {
		return "", "alias-database child cannot run in a private mount namespace (" + err.Error() + "): " + lastLine(alone), pair
	}
	if !strings.Contains(alone, "deploy") {
		return "", "alias-database child does not see the alias accounts (the resolver reads another database): " + lastLine(alone), pair
	}
	after, err := run(append(append([]string{}, before...), target))
	if err != nil {
		return "", "alias-database child failed on the second run: " + lastLine(after), pair
	}
	pair = [2]string{alone, after}
	if alone != after {
		return "isolation: with a user database that has two names for one id, an event resolves differently after other events (which name the aliases) have been resolved than it does alone", "", pair
	}
	return "", "", pair
}

// ---- the concurrent soak (child process, race detector when available) ------------------------

func c15RaceBinary(ctx *Ctx) (path string, race bool, err error) {
	h := filepath.Join(ctx.Verif, "harness")
	bin := filepath.Join(ctx.Verif, ".work", "bin", "c15race")
	args := []string{"build"}
	repo := os.Getenv("VERIF_REPO")
	if repo != "" && repo != "/repo" {
		args = append(args, "-modfile="+filepath.Join(ctx.Verif, ".work", "alt.mod"))
	}
	try := func(extra ...string) error {
		a := append(append([]string{}, args...), extra...)
		a = append(a, "-tags", "verif", "-o", bin, "./cmd/c15race")
		cmd := exec.Command("go", a...)
		cmd.Dir = h
		out, err := cmd.CombinedOutput()
		if err != nil {
			return fmt.Errorf("%v: %s", err, out)
		}
		return nil
	}
	if e := try("-race"); e == nil {
		return bin, true, nil
	} else if e2 := try(); e2 == nil {
		return bin, false, fmt.Errorf("race build failed (%v); using a plain build", e)
	} else {
		return "", false, e2
	}
}

func c15ConcPool(rng *rand.Rand) [][]coal.Rec {
	var pool [][]coal.Rec
	// many distinct ids: every resolution through a cold cache is a miss
	for i := 0; i < 48; i++ {
		pool = append(pool, []coal.Rec{{Typ: tSYSCALL, Seq: uint32(i), Ms: int64(1700000000000) + int64(i),
			Body: fmt.Sprintf("arch=c000003e syscall=%s success=yes exit=0 items=0 ppid=1 pid=2 auid=%d uid=%d gid=%d euid=%d ses=1 comm=\"c\" exe=\"/bin/c\"",
				c15Syscalls[i%len(c15Syscalls)], 30000+i, 40000+i, 50000+i, 60000+i)}})
	}
	// record-type events with different syscalls, for every record type that has a normalisation
	for _, t := range coOtherTypes {
		pool = append(pool, c15TwinGroups(rng, t)[:2]...)
	}
	for i := 0; i < 24; i++ {
		pool = append(pool, coGenGroup(rng, coPermKinds(rng, coSubsetKinds(rng, rng.Intn(64))), 0.2, 0.05).Recs)
	}
	return pool
}

// runC15Conc runs the soak in a child; returns the failed clause ("" = ok) and the evidence.
func runC15Conc(ctx *Ctx, bin string, c C15Case, goroutines, rounds int) (clause, impl string) {
	in, _ := json.Marshal(map[string]interface{}{"groups": c.Groups, "goroutines": goroutines, "rounds": rounds})
	cmd := exec.Command(bin)
	cmd.Stdin = bytes.NewReader(in)
	var stdout, stderr bytes.Buffer
	cmd.Stdout, cmd.Stderr = &stdout, &stderr
	cmd.Env = append(os.Environ(), "GORACE=halt_on_error=1 exitcode=66")
	done := make(chan error, 1)
	if err := cmd.Start(); err != nil {
		return "harness: cannot start " + bin + ": " + err.Error(), ""
	}
	go func() { done <- cmd.Wait() }()
	var err error
	select {
	case err = <-done:
	case <-time.After(10 * time.Minute):
		cmd.Process.Kill()
		return "concurrent coalescing did not finish within 10 minutes (deadlock?)", ""
	}
	se := stderr.String()
	excerpt := se
	if len(excerpt) > 3000 {
		excerpt = excerpt[:3000]
	}
	switch {
	case strings.Contains(se, "DATA RACE"):
		return "data race: the race detector reports a race while different events are coalesced / resolved concurrently", excerpt
	case strings.Contains(se, "fatal error: concurrent map"):
		return "data race: the Go runtime aborted with a concurrent map access while different events are resolved concurrently", excerpt
	case err != nil:
		return "no panic: the process running concurrent CoalesceMessages/ResolveIDs died: " + err.Error(), excerpt
	}
	var out struct {
		Runs       int      `json:"runs"`
		Mismatches []string `json:"mismatches"`
	}
	if e := json.Unmarshal(stdout.Bytes(), &out); e != nil {
		return "harness: bad output of c15race: " + e.Error(), stdout.String()
	}
	ctx.Res.HistN("concurrent_coalesce_runs", out.Runs)
	if len(out.Mismatches) > 0 {
		return "isolation under concurrency: " + out.Mismatches[0], strings.Join(out.Mismatches, "\n")
	}
	return "", ""
}

// ---- the family -------------------------------------------------------------------------------

func c15Family(ctx *Ctx) error {
	res := ctx.Res
	res.Rule = "each case is a history over a pool of message groups: CoalesceMessages / ResolveIDs (package caches with hard-coded users, and caller-made caches) in any order, groups coalesced repeatedly, all returned events held; after every step the monitor compares every held event (flattened and as JSON) with how it read when returned, every used message's Data()/Tags()/ToMapStr() with an untouched twin parsed from the same text, and a repeated coalesce with the first result; the same steps run on Model.CoalesceHeap (message cache cells, table slices with the regenerated len/cap) and the whole pool is compared after every step. Plus one concurrent soak per run in a child process built with -race, and one pair of children in a private mount namespace whose user database has two names for one id (an event resolved alone and after events that name the aliases). Non-trivial = the history holds several events, repeats a coalesce or resolves IDs; distinct by hash of pool and history."
	res.Assumptions = append(res.Assumptions,
		"user/group names outside the hard-coded entries come from the host's user database; the oracle asks os/user the same questions the library's lookupFn asks",
		"data-race freedom is observed (race detector, runtime map checks) on the generated concurrent workload, not proved")
	m, err := coalStartModel(ctx)
	if err != nil {
		return err
	}
	defer m.Close()

	bin, race, berr := c15RaceBinary(ctx)
	if berr != nil && bin == "" {
		return fmt.Errorf("cannot build the concurrent child: %v", berr)
	}
	if berr != nil {
		res.Note("%v", berr)
	}

	evalCase := func(c C15Case, idx int) *common.Violation {
		if c.Conc {
			clause, impl := runC15Conc(ctx, bin, c, 8, 2)
			if clause != "" {
				return &common.Violation{Kind: "monitor", Clause: clause, Input: c, Impl: impl, Case: idx}
			}
			return nil
		}
		r := runC15History(m, c)
		if r.clause != "" {
			return &common.Violation{Kind: "monitor", Clause: r.clause, Input: c, Impl: r.impl, Model: r.model, Case: idx}
		}
		if r.corr != "" {
			return &common.Violation{Kind: "correspondence", Clause: r.corr, Input: c, Impl: r.impl, Model: r.model, Case: idx}
		}
		return nil
	}

	if ctx.Replay != "" {
		b, err := os.ReadFile(ctx.Replay)
		if err != nil {
			return err
		}
		var rpp struct {
			Input map[string]interface{} `json:"input"`
		}
		if json.Unmarshal(b, &rpp) == nil && rpp.Input["kind"] == "many-other-ids" {
			n, _ := rpp.Input["others"].(float64)
			fmt.Printf("replay: %d events with other ids in between: %q (empty = the watched event reads the same)\n", int(n), c15ManyOtherIDs(int(n)))
			return nil
		}
		var rp struct {
			Input C15Case `json:"input"`
		}
		if err := json.Unmarshal(b, &rp); err != nil {
			return err
		}
		if rp.Input.Groups == nil {
			json.Unmarshal(b, &rp.Input)
		}
		v := evalCase(rp.Input, 0)
		if v == nil {
			fmt.Println("replay: no violation")
		} else {
			fmt.Printf("replay: %s: %s\nimpl:  %s\nmodel: %s\n", v.Kind, v.Clause, v.Impl, v.Model)
		}
		return nil
	}

	shrink := func(c C15Case, v *common.Violation) C15Case {
		if c.Conc || c.PauseMs > 5000 {
			return c
		}
		sig := func(x *common.Violation) string {
			if x == nil {
				return ""
			}
			return x.Kind + "|" + strings.SplitN(x.Clause, ":", 2)[0]
		}
		want := sig(v)
		fails := func(x C15Case) bool { return sig(evalCase(x, 0)) == want }
		for changed, rounds := true, 0; changed && rounds < 5; rounds++ {
			changed = false
			for i := 0; i < len(c.Ops); i++ {
				x := c
				x.Ops = append(append([]C15Op{}, c.Ops[:i]...), c.Ops[i+1:]...)
				if fails(x) {
					c, changed = x, true
					i--
				}
			}
			// drop unused groups (renumbering the ops), then records inside groups
			for g := len(c.Groups) - 1; g >= 0; g-- {
				usedG := false
				for _, op := range c.Ops {
					if op.K == "co" && op.G == g {
						usedG = true
					}
				}
				if usedG || len(c.Groups) == 1 {
					continue
				}
				x := c
				x.Groups = append(append([][]coal.Rec{}, c.Groups[:g]...), c.Groups[g+1:]...)
				x.Ops = append([]C15Op{}, c.Ops...)
				for i := range x.Ops {
					if x.Ops[i].K == "co" && x.Ops[i].G > g {
						x.Ops[i].G--
					}
				}
				if fails(x) {
					c, changed = x, true
				}
			}
			for g := range c.Groups {
				for i := 0; i < len(c.Groups[g]); i++ {
					x := c
					x.Groups = append([][]coal.Rec{}, c.Groups...)
					x.Groups[g] = append(append([]coal.Rec{}, c.Groups[g][:i]...), c.Groups[g][i+1:]...)
					if fails(x) {
						c, changed = x, true
						i--
					}
				}
			}
		}
		return c
	}

	idx := 0
	run := func(c C15Case, stream string) {
		res.Hist("stream_" + stream)
		var v *common.Violation
		if c.Conc {
			res.Count(c.canon(), true)
			v = evalCase(c, idx)
		} else {
			r := runC15History(m, c)
			nt := false
			for _, t := range r.tags {
				res.Hist(t)
				nt = true
			}
			res.Count(c.canon(), nt)
			res.HistN("ops", len(c.Ops))
			res.ModelLines += r.lines
			if r.clause != "" {
				v = &common.Violation{Kind: "monitor", Clause: r.clause, Input: c, Impl: r.impl, Model: r.model, Case: idx}
			} else if r.corr != "" {
				v = &common.Violation{Kind: "correspondence", Clause: r.corr, Input: c, Impl: r.impl, Model: r.model, Case: idx}
			}
		}
		idx++
		if v != nil && res.NumViolations() < 8 {
			sc := shrink(c, v)
			if v2 := evalCase(sc, v.Case); v2 != nil && v2.Kind == v.Kind {
				v = v2
			}
			res.Violate(*v)
		}
	}
	stop := func() bool { return res.NumViolations() >= 5 }

	// 1. corpus
	for _, f := range ctx.CorpusFiles("C15") {
		b, err := os.ReadFile(f)
		if err != nil {
			return err
		}
		var c C15Case
		if err := json.Unmarshal(b, &c); err != nil {
			return fmt.Errorf("%s: %w", f, err)
		}
		run(c, "corpus")
	}
	rng := ctx.Rng
	// 2. for every record type: events of that type with different syscalls, held together
	for rep := 0; rep < ctx.N(1, 6) && !stop(); rep++ {
		for _, t := range coOtherTypes {
			if stop() {
				break
			}
			g := c15TwinGroups(rng, t)
			c := C15Case{Groups: g}
			for i := range g {
				c.Ops = append(c.Ops, C15Op{K: "co", G: i})
			}
			c.Ops = append(c.Ops, C15Op{K: "res", E: 0}, C15Op{K: "co", G: 0}, C15Op{K: "resown", E: 1}, C15Op{K: "co", G: 1})
			if idx < 3 {
				res.Sample(c)
			}
			run(c, "same_type_different_syscalls")
		}
	}
	// 2b. long values in falling sizes: events whose arguments, titles, paths and keys decode from hex to 8 KiB down
	// to half a KiB, all held while the later ones are made (and, the second time, in rising sizes)
	for _, sizes := range [][]int{{8192, 4096, 3000, 2048, 1500, 1100, 1024, 1023, 600, 512}, {512, 1024, 2048, 4096, 2048, 1024, 512}, {1024, 1024, 1024, 1024}} {
		if stop() {
			break
		}
		var c C15Case
		for i, n := range sizes {
			seq := uint32(7000 + i)
			ms := int64(1500000000000) + int64(i)
			fill := func(tag string) string {
				s := fmt.Sprintf("%s %d:", tag, i)
				for len(s) < n {
					s += fmt.Sprintf(" %s%d-%d", tag, i, len(s))
				}
				return s[:n]
			}
			_, sbody := coGenBody(rng, coKSyscall, 0)
			g := []coal.Rec{{Typ: tSYSCALL, Seq: seq, Ms: ms, Body: sbody + " key=" + coUpHex(fill("k")[:n/4]+"\x01x")},
				{Typ: tEXECVE, Seq: seq, Ms: ms, Body: "argc=3 a0=\"sh\" a1=" + coUpHex(fill("arg")) + " a2=" + coUpHex(fill("second"))},
				{Typ: tCWD, Seq: seq, Ms: ms, Body: "cwd=" + coUpHex(fill("/w d"))},
				{Typ: tPATH, Seq: seq, Ms: ms, Body: "item=0 name=" + coUpHex(fill("/p ath")) + " inode=7 dev=fd:00 mode=0100600 ouid=0 ogid=0 rdev=00:00 nametype=NORMAL"},
				{Typ: tPROCTITLE, Seq: seq, Ms: ms, Body: "proctitle=" + coUpHex(fill("title\x00x"))}}
			c.Groups = append(c.Groups, g)
			c.Ops = append(c.Ops, C15Op{K: "co", G: i})
		}
		c.Ops = append(c.Ops, C15Op{K: "res", E: 0}, C15Op{K: "co", G: 0})
		run(c, "long_values_held")
	}
	// 2c. the id caches across real time: two events with ids that were put into the package caches by hand (and root's),
	// resolved, a pause (quick: 1.5 s; thorough: 65 s, longer than the caches keep what they looked up), then two more
	// events with the same ids, resolved
	if !stop() {
		pause := 1500
		if ctx.Thorough() {
			pause = 65000
		}
		mk := func(seq uint32, uid string) []coal.Rec {
			return []coal.Rec{{Typ: 1112, Seq: seq, Ms: 1500000000000 + int64(seq), Body: fmt.Sprintf("pid=1 uid=%s auid=%s ses=1 msg='op=login acct=\"alice\" exe=\"/usr/sbin/sshd\" hostname=h addr=10.0.0.1 terminal=ssh res=success'", uid, uid)}}
		}
		c := C15Case{Groups: [][]coal.Rec{mk(9001, "1000"), mk(9002, "0"), mk(9003, "1000"), mk(9004, "0"), mk(9005, "48")},
			Ops:     []C15Op{{K: "co", G: 0}, {K: "res", E: 0}, {K: "co", G: 1}, {K: "res", E: 1}, {K: "co", G: 2}, {K: "res", E: 2}, {K: "co", G: 3}, {K: "res", E: 3}, {K: "co", G: 4}, {K: "res", E: 4}},
			PauseAt: 4, PauseMs: pause}
		run(c, "id_caches_across_a_pause")
	}
	// 2d. a user database with alias accounts
	if !stop() {
		cl, note, pair := c15AliasDB(ctx)
		if note != "" {
			res.Note("alias-database block NOT explored: %s", note)
		} else {
			res.Hist("alias_database")
		}
		if cl != "" {
			res.Violate(common.Violation{Kind: "monitor", Clause: cl, Input: map[string]interface{}{"kind": "alias-database", "note": "re-run ./check C15 quick: the block is deterministic"}, Impl: pair[1], Model: pair[0]})
		}
	}
	// 2e. very many other ids in between: an event whose ids were put into the package caches by hand (and root's) is
	// resolved, then events with ids nobody else uses (quick: 2^15, thorough: 2^18), then the first event again from
	// fresh messages: it reads the same (whatever the caches do to stay small, they do not forget what they were told)
	if !stop() {
		n := 1 << 15
		if ctx.Thorough() {
			n = 1 << 18
		}
		in := map[string]interface{}{"kind": "many-other-ids", "others": n}
		guardEnter(in)
		cl := c15ManyOtherIDs(n)
		guardLeave()
		res.Hist("many_other_ids_in_between")
		if cl != "" {
			res.Violate(common.Violation{Kind: "monitor", Clause: cl, Input: in})
		}
	}
	// 3. random histories
	for i := 0; i < ctx.N(1500, 60000) && !stop(); i++ {
		c := genC15Case(rng)
		if i < 2 {
			res.Sample(c)
		}
		run(c, "random_histories")
	}
	// 4. the concurrent soak
	if !stop() {
		c := C15Case{Groups: c15ConcPool(rng), Conc: true, Note: "8 goroutines, own messages per goroutine, shared tables and caches"}
		t0 := time.Now()
		reps := ctx.N(1, 4)
		for i := 0; i < reps && !stop(); i++ {
			run(c, "concurrent_soak")
		}
		if race {
			res.Note("concurrent soak under the race detector: %d run(s) of 8 goroutines x 2 rounds x %d groups, %.1fs", reps, len(c.Groups), time.Since(t0).Seconds())
		} else {
			res.Note("concurrent soak WITHOUT the race detector (plain build): %d run(s), %.1fs", reps, time.Since(t0).Seconds())
		}
	}
	return nil
}

// c15ManyOtherIDs: see block 2e of the C15 driver.
func c15ManyOtherIDs(others int) string {
	resolve := func(lines ...string) (string, error) {
		var msgs []*auparse.AuditMessage
		for _, l := range lines {
			m, err := auparse.ParseLogLine(l)
			if err != nil {
				return "", err
			}
			msgs = append(msgs, m)
		}
		ev, err := aucoalesce.CoalesceMessages(msgs)
		if err != nil {
			return "", err
		}
		aucoalesce.ResolveIDs(ev)
		b, err := json.Marshal(ev)
		return string(b), err
	}
	watched := []string{
		`type=SYSCALL msg=audit(1492752520.441:8832): arch=c000003e syscall=2 success=yes exit=3 a0=7ffd0dc80040 a1=0 a2=1b6 a3=0 items=1 ppid=1 pid=2 auid=1000 uid=1000 gid=1000 euid=0 suid=1001 fsuid=48 egid=48 sgid=0 fsgid=1000 tty=pts0 ses=11 comm="cat" exe="/bin/cat" key="k"`,
		`type=PATH msg=audit(1492752520.441:8832): item=0 name="/etc/x" inode=17 dev=08:01 mode=0100644 ouid=1001 ogid=48 rdev=00:00 nametype=NORMAL`}
	first, err := resolve(watched...)
	if err != nil {
		return ""
	}
	for i := 0; i < others; i++ {
		id := int64(3000000000) + int64(i)
		if _, err := resolve(fmt.Sprintf(`type=SYSCALL msg=audit(1492752600.100:%d): arch=c000003e syscall=2 success=yes exit=3 a0=0 a1=0 a2=0 a3=0 items=0 ppid=1 pid=%d auid=%d uid=%d gid=%d euid=%d suid=%d fsuid=%d egid=%d sgid=%d fsgid=%d tty=pts0 ses=12 comm="cat" exe="/bin/cat"`,
			9000+i, 100+i, id, id, id+1, id, id, id, id+1, id+1, id+1)); err != nil {
			return ""
		}
		if i&(i+1) == 0 && i >= 255 || i == others-1 {
			again, _ := resolve(watched...)
			if again != first {
				return fmt.Sprintf("isolation: an event whose ids the caches were told by hand reads differently after %d events with other ids were resolved: first %s, then %s", i+1, trunc(first, 600), trunc(again, 600))
			}
		}
	}
	return ""
}
