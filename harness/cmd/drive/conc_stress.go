package main

// Conc family, part 2: UNCONTROLLED stress (libaudit.VerifYield == nil, the Go
// scheduler decides). Two experiments, both judged by the C11 monitor clauses:
//
//   barrier  N goroutines are released from a spin barrier into Close at the same
//            instant: exactly one must return nil, the buffered events must be
//            delivered exactly once, later Close/Maintain must return the error;
//   soak     several goroutines push (PushMessage and Push), Maintain and Close
//            concurrently, Stream callbacks re-enter the Reassembler; afterwards
//            (quiescence) at-most-once, single-sequence groups, exactly-once for
//            pushes that returned before the successful Close was invoked,
//            exactly one nil Close; a watchdog turns a hang into "deadlock".
//
// check builds only ./cmd/drive and ./cmd/extract, so the parent process builds
// this same package once more with `go build -race` into <verif>/.work/bin/drive-race
// and runs it as a child (VERIF_C11_STRESS_CHILD=<result file>); a DATA RACE
// report of the child is a violation. If the race build is impossible the stress
// runs in-process without the detector and says so in the notes.

import (
	"bytes"
	"encoding/json"
	"fmt"
	"math/rand"
	"os"
	"os/exec"
	"path/filepath"
	"runtime"
	"strconv"
	"strings"
	"sync"
	"sync/atomic"
	"time"

	libaudit "github.com/elastic/go-libaudit/v2"
	"github.com/elastic/go-libaudit/v2/auparse"

	"verifharness/internal/common"
)

type StressCfg struct {
	Seed      int64 `json:"seed"`
	BarrierMs int   `json:"barrier_ms"`
	SoakMs    int   `json:"soak_ms"`
}

type StressResult struct {
	Race          bool     `json:"race_detector"`
	BarrierRounds int      `json:"barrier_rounds"`
	SoakRounds    int      `json:"soak_rounds"`
	Calls         int64    `json:"calls"`
	Reentrant     int64    `json:"reentrant_calls"`
	Deliveries    int64    `json:"deliveries"`
	ClosesRaced   int      `json:"barrier_closes"`
	Violations    []string `json:"violations"`
}

// ---- recording stream --------------------------------------------------------------------

type sMsg struct {
	id        int
	seq       uint32
	typ       uint16
	retStamp  atomic.Int64 // logical time at which its push returned (0: not yet)
	delivered atomic.Int32
}

type sRound struct {
	r       *libaudit.Reassembler
	clk     atomic.Int64
	mu      sync.Mutex
	msgs    []*sMsg // by id
	closes  []sClose
	fail    atomic.Value // string: first failed clause seen inside a callback
	budget  atomic.Int64 // re-entrant calls still allowed in this round
	nextID  atomic.Int64
	calls   atomic.Int64
	reent   atomic.Int64
	deliv   atomic.Int64
	seqBase uint32
	seqSpan int

	closeStarted atomic.Int64 // Close calls invoked so far
}

func newSRound(max int, timeout time.Duration) *sRound {
	s := &sRound{seqBase: 100, seqSpan: 4}
	r, err := libaudit.NewReassembler(max, timeout, s)
	if err != nil {
		return nil
	}
	s.r = r
	return s
}

type sClose struct {
	inv int64
	err bool
}

func (s *sRound) recoverPanic() {
	if r := recover(); r != nil {
		s.setFail(fmt.Sprintf("panic: %v", r))
	}
}

func (s *sRound) setFail(f string) {
	s.fail.CompareAndSwap(nil, f)
}

func (s *sRound) newMsg(seq uint32, typ uint16) *sMsg {
	m := &sMsg{seq: seq, typ: typ}
	s.mu.Lock()
	m.id = len(s.msgs)
	s.msgs = append(s.msgs, m)
	s.mu.Unlock()
	return m
}

func (s *sRound) lookup(am *auparse.AuditMessage) *sMsg {
	i := strings.Index(am.RawData, "vid=")
	if i < 0 {
		return nil
	}
	id, err := strconv.Atoi(strings.TrimSpace(am.RawData[i+4:]))
	if err != nil {
		return nil
	}
	s.mu.Lock()
	defer s.mu.Unlock()
	if id < 0 || id >= len(s.msgs) {
		return nil
	}
	return s.msgs[id]
}

// push performs one push of a fresh message, through PushMessage or Push.
func (s *sRound) push(seq uint32, typ uint16, raw bool) {
	m := s.newMsg(seq, typ)
	s.calls.Add(1)
	if raw {
		line := fmt.Sprintf("audit(1500000000.123:%d): vid=%d", seq, m.id)
		if err := s.r.Push(auparse.AuditMessageType(typ), []byte(line)); err != nil {
			s.setFail("Push rejected a well-formed message: " + err.Error())
		}
	} else {
		s.r.PushMessage(&auparse.AuditMessage{RecordType: auparse.AuditMessageType(typ), Sequence: seq, RawData: "vid=" + strconv.Itoa(m.id)})
	}
	m.retStamp.Store(s.clk.Add(1))
}

func (s *sRound) close() {
	s.closeStarted.Add(1)
	inv := s.clk.Add(1)
	s.calls.Add(1)
	err := s.r.Close()
	s.mu.Lock()
	s.closes = append(s.closes, sClose{inv: inv, err: err != nil})
	s.mu.Unlock()
}

func (s *sRound) maintain() {
	s.calls.Add(1)
	if err := s.r.Maintain(); err != nil && s.closeStarted.Load() == 0 {
		// the error means closed: a Close must have been invoked by now
		s.setFail("Maintain returned the closed error although Close had not been called")
	}
}

var sTypes = []uint16{tSYSCALL, tSYSCALL, tPATH, tCWD, tEOE, tEOE, tPROCTITLE, 1100}

// reenter is called from inside a Stream callback: sometimes call back into the
// Reassembler (bounded by the round's budget, which also bounds the recursion).
func (s *sRound) reenter(h uint64) {
	if h%4 != 0 || s.budget.Add(-1) < 0 {
		return
	}
	s.reent.Add(1)
	switch (h >> 2) % 8 {
	case 0:
		s.close()
	case 1, 2:
		s.maintain()
	default:
		seq := s.seqBase + uint32((h>>8)%uint64(s.seqSpan))
		s.push(seq, sTypes[(h>>20)%uint64(len(sTypes))], (h>>5)&1 == 1)
	}
}

func mix(x uint64) uint64 {
	x ^= x >> 33
	x *= 0xff51afd7ed558ccd
	x ^= x >> 33
	x *= 0xc4ceb9fe1a85ec53
	x ^= x >> 33
	return x
}

func (s *sRound) ReassemblyComplete(msgs []*auparse.AuditMessage) {
	n := s.deliv.Add(1)
	if len(msgs) == 0 {
		s.setFail("single-sequence groups: an empty group was delivered")
	}
	for _, am := range msgs {
		m := s.lookup(am)
		if m == nil {
			s.setFail("at most once: a message was delivered that had not been pushed")
			continue
		}
		if m.typ == tEOE {
			s.setFail(fmt.Sprintf("at most once: EOE message id %d was delivered", m.id))
		}
		if m.delivered.Add(1) > 1 {
			s.setFail(fmt.Sprintf("at most once: message id %d (sequence %d) delivered twice", m.id, m.seq))
		}
		if am.Sequence != msgs[0].Sequence || m.seq != msgs[0].Sequence {
			s.setFail(fmt.Sprintf("single-sequence groups: a group mixes sequences %d and %d", msgs[0].Sequence, am.Sequence))
		}
	}
	s.reenter(mix(uint64(n) * 0x9e3779b97f4a7c15))
}

func (s *sRound) EventsLost(count int) {
	n := s.deliv.Add(1)
	if count <= 0 {
		s.setFail(fmt.Sprintf("EventsLost(%d) is not positive", count))
	}
	s.reenter(mix(uint64(n)*0x9e3779b97f4a7c15 + 1))
}

// waitOrHang waits for wg; false if the watchdog fired.
func waitOrHang(wg *sync.WaitGroup, d time.Duration) bool {
	ch := make(chan struct{})
	go func() { wg.Wait(); close(ch) }()
	select {
	case <-ch:
		return true
	case <-time.After(d):
		return false
	}
}

var stressWatchdog = 20 * time.Second

// judge evaluates the quiescent clauses after every call of the round has returned.
func (s *sRound) judge() string {
	if f := s.fail.Load(); f != nil {
		return f.(string)
	}
	nOK := 0
	var okInv int64
	for _, c := range s.closes {
		if !c.err {
			nOK++
			okInv = c.inv
		}
	}
	if len(s.closes) > 0 && nOK != 1 {
		return fmt.Sprintf("exactly one Close succeeds: %d of %d Close calls returned nil", nOK, len(s.closes))
	}
	if nOK == 1 {
		for _, m := range s.msgs {
			if m.typ == tEOE {
				continue
			}
			rs := m.retStamp.Load()
			if rs != 0 && rs < okInv && m.delivered.Load() != 1 {
				return fmt.Sprintf("exactly once after quiescence: message id %d (sequence %d; its push returned before Close was invoked) delivered %d times", m.id, m.seq, m.delivered.Load())
			}
		}
	}
	for _, m := range s.msgs {
		if m.delivered.Load() > 1 {
			return fmt.Sprintf("at most once: message id %d delivered %d times", m.id, m.delivered.Load())
		}
	}
	return ""
}

// ---- barrier: many goroutines into Close at once -------------------------------------------

func barrierRound(rng *rand.Rand, res *StressResult) string {
	s := newSRound(4, time.Hour)
	if s == nil {
		return "constructor failed"
	}
	nbuf := rng.Intn(3)
	for i := 0; i < nbuf; i++ {
		s.push(uint32(100+i), tSYSCALL, i%2 == 1)
	}
	g := 2 + rng.Intn(7)
	var start, ready atomic.Int32
	var wg sync.WaitGroup
	for i := 0; i < g; i++ {
		wg.Add(1)
		go func() {
			defer wg.Done()
			defer s.recoverPanic()
			ready.Add(1)
			for spins := 0; start.Load() == 0; spins++ {
				if spins%2000 == 1999 {
					runtime.Gosched()
				}
			}
			s.close()
		}()
	}
	for ready.Load() != int32(g) {
		runtime.Gosched()
	}
	start.Store(1)
	if !waitOrHang(&wg, stressWatchdog) {
		return "no deadlock: concurrent Close calls did not return within " + stressWatchdog.String()
	}
	res.ClosesRaced += g
	if cl := s.judge(); cl != "" {
		return cl
	}
	for _, m := range s.msgs {
		if m.delivered.Load() != 1 {
			return fmt.Sprintf("exactly once after quiescence: buffered message id %d delivered %d times by the concurrent Close calls", m.id, m.delivered.Load())
		}
	}
	if s.r.Close() == nil {
		return "exactly one Close succeeds: Close after the successful Close returned nil"
	}
	if s.r.Maintain() == nil {
		return "Maintain returned nil on a closed Reassembler"
	}
	return ""
}

// ---- soak ------------------------------------------------------------------------------------

func soakRound(rng *rand.Rand, res *StressResult) string {
	max := []int{0, 1, 2, 4, 8}[rng.Intn(5)]
	timeout := []time.Duration{time.Hour, time.Hour, -time.Hour, 20 * time.Microsecond}[rng.Intn(4)]
	s := newSRound(max, timeout)
	if s == nil {
		return "constructor failed"
	}
	s.budget.Store(int64(rng.Intn(40)))
	s.seqSpan = 3 + rng.Intn(12)
	switch rng.Intn(4) {
	case 0:
		s.seqBase = 0xFFFFFFFF - uint32(rng.Intn(s.seqSpan))
	default:
		s.seqBase = uint32(1000 + rng.Intn(1000))
	}
	g := 2 + rng.Intn(5)
	closers := rng.Intn(3) // goroutines that also call Close somewhere
	var wg sync.WaitGroup
	for i := 0; i < g; i++ {
		wg.Add(1)
		lr := rand.New(rand.NewSource(rng.Int63()))
		doClose := i < closers
		go func() {
			defer wg.Done()
			defer s.recoverPanic()
			n := 10 + lr.Intn(50)
			closeAt := lr.Intn(n)
			base := 0
			for k := 0; k < n; k++ {
				if doClose && k == closeAt {
					s.close()
					continue
				}
				switch x := lr.Intn(10); {
				case x < 7:
					if lr.Intn(4) == 0 {
						base++
					}
					seq := s.seqBase + uint32((base+lr.Intn(3))%s.seqSpan)
					s.push(seq, sTypes[lr.Intn(len(sTypes))], lr.Intn(3) == 0)
				default:
					s.maintain()
				}
				if lr.Intn(8) == 0 {
					runtime.Gosched()
				}
			}
		}()
	}
	if !waitOrHang(&wg, stressWatchdog) {
		return "no deadlock: concurrent Push/Maintain/Close calls did not return within " + stressWatchdog.String()
	}
	// quiescence, then the final Close flushes what is left
	done := make(chan struct{})
	go func() { defer close(done); defer s.recoverPanic(); s.close() }()
	select {
	case <-done:
	case <-time.After(stressWatchdog):
		return "no deadlock: the final Close did not return within " + stressWatchdog.String()
	}
	res.Calls += s.calls.Load()
	res.Reentrant += s.reent.Load()
	res.Deliveries += s.deliv.Load()
	return s.judge()
}

func concStress(cfg StressCfg) *StressResult {
	res := &StressResult{Race: raceEnabled, Violations: []string{}}
	libaudit.VerifYield = nil
	rng := rand.New(rand.NewSource(cfg.Seed))
	end := time.Now().Add(time.Duration(cfg.BarrierMs) * time.Millisecond)
	for time.Now().Before(end) && len(res.Violations) == 0 {
		for k := 0; k < 50 && len(res.Violations) == 0; k++ {
			if cl := barrierRound(rng, res); cl != "" {
				res.Violations = append(res.Violations, "barrier: "+cl)
			}
			res.BarrierRounds++
		}
	}
	end = time.Now().Add(time.Duration(cfg.SoakMs) * time.Millisecond)
	for time.Now().Before(end) && len(res.Violations) == 0 {
		if cl := soakRound(rng, res); cl != "" {
			res.Violations = append(res.Violations, "soak: "+cl)
		}
		res.SoakRounds++
	}
	return res
}

// ---- child process plumbing ---------------------------------------------------------------------

func concStressChild(ctx *Ctx, out string) error {
	var cfg StressCfg
	if err := json.Unmarshal([]byte(os.Getenv("VERIF_C11_STRESS_CFG")), &cfg); err != nil {
		return fmt.Errorf("stress child: bad config: %w", err)
	}
	r := concStress(cfg)
	b, _ := json.Marshal(r)
	return os.WriteFile(out, b, 0o644)
}

type stressHandle struct {
	cfg     StressCfg
	done    chan struct{}
	res     *StressResult
	note    string // why the race child could not be built (stress then runs in-process)
	race    string // DATA RACE report excerpt
	crash   string // the child died of a Go runtime fatal error / panic
	failure string // the child failed for an unexplained reason (infrastructure)
}

func stressCfgFor(ctx *Ctx) StressCfg {
	return StressCfg{Seed: ctx.Seed, BarrierMs: ctx.N(1500, 20000), SoakMs: ctx.N(4000, 120000)}
}

// startConcStress builds the race-enabled child and starts it in the background.
func startConcStress(ctx *Ctx) *stressHandle {
	h := &stressHandle{cfg: stressCfgFor(ctx), done: make(chan struct{})}
	go func() {
		defer close(h.done)
		bin := filepath.Join(ctx.Verif, ".work", "bin", "drive-race")
		args := []string{"build", "-race"}
		if repo := os.Getenv("VERIF_REPO"); repo != "" && repo != "/repo" {
			alt := filepath.Join(ctx.Verif, ".work", "alt.mod")
			if _, err := os.Stat(alt); err == nil {
				args = append(args, "-modfile="+alt)
			}
		}
		args = append(args, "-tags", "verif", "-o", bin, "./cmd/drive")
		cmd := exec.Command("go", args...)
		cmd.Dir = filepath.Join(ctx.Verif, "harness")
		cmd.Env = append(os.Environ(), "GOFLAGS=-mod=mod", "GOPROXY=off", "GOSUMDB=off", "GOTOOLCHAIN=local", "CGO_ENABLED=1")
		if outb, err := cmd.CombinedOutput(); err != nil {
			h.note = "race-enabled build of the stress child failed (" + strings.TrimSpace(lastLine(string(outb))) + "); stress ran in-process WITHOUT the race detector"
			return
		}
		out := filepath.Join(ctx.Verif, ".work", "C11.stress.json")
		os.Remove(out)
		cfgb, _ := json.Marshal(h.cfg)
		child := exec.Command(bin, "-prop", "C11", "-tier", ctx.Tier, "-seed", strconv.FormatInt(ctx.Seed, 10), "-verif", ctx.Verif)
		child.Env = append(os.Environ(), "VERIF_C11_STRESS_CHILD="+out, "VERIF_C11_STRESS_CFG="+string(cfgb), "GORACE=halt_on_error=0")
		var stderr bytes.Buffer
		child.Stderr = &stderr
		child.Stdout = &stderr
		err := child.Run()
		if i := strings.Index(stderr.String(), "WARNING: DATA RACE"); i >= 0 {
			rep := stderr.String()[i:]
			if len(rep) > 3000 {
				rep = rep[:3000]
			}
			h.race = rep
		}
		b, rerr := os.ReadFile(out)
		if rerr != nil {
			if h.race != "" {
				return
			}
			se := stderr.String()
			for _, mark := range []string{"fatal error:", "panic:"} {
				if i := strings.Index(se, mark); i >= 0 {
					rep := se[i:]
					if len(rep) > 3000 {
						rep = rep[:3000]
					}
					h.crash = rep
					return
				}
			}
			h.failure = fmt.Sprintf("stress child produced no result (%v): %s", err, lastLine(se))
			return
		}
		var r StressResult
		if json.Unmarshal(b, &r) == nil {
			h.res = &r
		}
	}()
	return h
}

func lastLine(s string) string {
	s = strings.TrimSpace(s)
	if i := strings.LastIndex(s, "\n"); i >= 0 {
		return s[i+1:]
	}
	return s
}

// finishConcStress waits for the child and records its outcome.
func finishConcStress(ctx *Ctx, h *stressHandle) error {
	<-h.done
	res := ctx.Res
	r := h.res
	if h.failure != "" {
		return fmt.Errorf("%s", h.failure)
	}
	if h.note != "" { // no race-enabled binary: in-process, without the detector
		res.Note("%s", h.note)
		r = concStress(h.cfg)
	}
	in := CCase{Kind: "stress", Stress: &h.cfg}
	if h.crash != "" {
		res.Violate(common.Violation{Kind: "monitor", Clause: "no data races / no crash: the process died during concurrent Push/Maintain/Close (Go runtime fatal error or panic)", Input: in, Impl: h.crash})
	}
	if h.race != "" {
		res.Violate(common.Violation{Kind: "monitor", Clause: "no data races: the race detector reported a data race during concurrent Push/Maintain/Close", Input: in, Impl: h.race})
	}
	if r == nil {
		return nil
	}
	res.HistN("stress_barrier_rounds", r.BarrierRounds)
	res.HistN("stress_barrier_concurrent_closes", r.ClosesRaced)
	res.HistN("stress_soak_rounds", r.SoakRounds)
	res.HistN("stress_soak_calls", int(r.Calls))
	res.HistN("stress_soak_reentrant_calls", int(r.Reentrant))
	res.HistN("stress_soak_callbacks", int(r.Deliveries))
	res.Note("uncontrolled stress: %d barrier rounds (%d concurrent Close calls), %d soak rounds (%d calls, %d re-entrant, %d callbacks), race detector %v",
		r.BarrierRounds, r.ClosesRaced, r.SoakRounds, r.Calls, r.Reentrant, r.Deliveries, r.Race)
	for _, v := range r.Violations {
		res.Violate(common.Violation{Kind: "monitor", Clause: v, Input: in, Impl: "uncontrolled stress run (schedule chosen by the Go runtime); see clause"})
	}
	return nil
}
