package main

import (
	"bufio"
	"fmt"
	"os"
	"strconv"
	"strings"
	"sync"

	"verifharness/internal/common"

	"github.com/elastic/go-libaudit/v2/rule"
	"github.com/elastic/go-libaudit/v2/rule/flags"
)

// idsOf reads the numeric ids of a passwd-format file (column 3).
func idsOf(path string) []int {
	f, err := os.Open(path)
	if err != nil {
		return nil
	}
	defer f.Close()
	var ids []int
	sc := bufio.NewScanner(f)
	for sc.Scan() {
		p := strings.Split(sc.Text(), ":")
		if len(p) > 2 {
			if n, err := strconv.Atoi(p[2]); err == nil {
				ids = append(ids, n)
			}
		}
	}
	return ids
}

// ruleFirstUse is run before anything else has used the rule packages in this process: sixteen goroutines, released
// together, parse, build and print rules that name system calls of every architecture, ids that have names in the
// user database, fields, operators and record types. Whatever the packages set up or memoise on first use is first
// touched concurrently. A Go map written by two goroutines ends the process with a fatal error, which ./check
// reports from the journal; wrong answers are compared with what one goroutine gets afterwards.
func ruleFirstUse(res *common.Result, prop string) {
	guardEnter(map[string]string{"block": "first use of flags.Parse, rule.Build and rule.ToCommandLine(resolveIds=true) from 16 goroutines"})
	defer guardLeave()
	uids, gids := idsOf("/etc/passwd"), idsOf("/etc/group")
	if len(uids) == 0 {
		uids = []int{0}
	}
	if len(gids) == 0 {
		gids = []int{0}
	}
	arches := []string{"b64", "b32", "x86_64", "i386", "aarch64", "arm", "ppc64le", "ppc", "s390x", "s390"}
	if strconv.IntSize == 32 {
		arches[0] = "b32" // this program is a 32-bit one (the second pass of C20): b64 names nothing here
	}
	calls := []string{"open", "read", "write", "close", "execve", "exit", "chmod", "chown", "kill", "mount"}
	var lines []string
	for i := 0; i < 40; i++ {
		lines = append(lines, fmt.Sprintf("-a always,exit -F arch=%s -S %s -S %s -F uid=%d -F gid=%d -F auid!=%d -k first%d",
			arches[i%len(arches)], calls[i%len(calls)], calls[(i*7+3)%len(calls)], uids[i%len(uids)], gids[i%len(gids)], uids[(i+5)%len(uids)], i))
		if i%8 == 0 {
			lines = append(lines, fmt.Sprintf("-a always,exclude -F msgtype=%d", 1100+i), fmt.Sprintf("-w /etc/first%d -p wa -k w%d", i, i))
		}
	}
	one := func(line string) string {
		r, err := flags.Parse(line)
		if err != nil {
			return "parse:" + err.Error()
		}
		wf, err := rule.Build(r)
		if err != nil {
			return "build:" + err.Error()
		}
		t1, e1 := rule.ToCommandLine(wf, true)
		t2, e2 := rule.ToCommandLine(wf, false)
		return fmt.Sprintf("%x|%s|%v|%s|%v", []byte(wf), t1, e1, t2, e2)
	}
	const G = 16
	got := make([][]string, G)
	panics := make(chan string, G)
	start := make(chan struct{})
	var wg sync.WaitGroup
	for g := 0; g < G; g++ {
		wg.Add(1)
		go func(g int) {
			defer wg.Done()
			defer func() {
				if r := recover(); r != nil {
					panics <- fmt.Sprint(r)
				}
			}()
			got[g] = make([]string, len(lines))
			<-start
			for k := range lines {
				i := (k + g*3) % len(lines)
				got[g][i] = one(lines[i])
			}
		}(g)
	}
	close(start)
	wg.Wait()
	select {
	case p := <-panics:
		res.Violate(common.Violation{Kind: "monitor", Clause: prop + ": panic during the first, concurrent use of the rule packages: " + p, Input: "first use from 16 goroutines"})
		return
	default:
	}
	for i, l := range lines {
		want := one(l)
		if strings.HasPrefix(want, "parse:") || strings.HasPrefix(want, "build:") {
			// the block is about first use, not about what the lines mean: each must be one the library accepts
			res.Note("first-use block: line %q is not accepted (%s)", l, want)
		}
		for g := 0; g < G; g++ {
			if got[g][i] != want {
				res.Violate(common.Violation{Kind: "monitor", Clause: prop + ": during the first, concurrent use of the rule packages a goroutine got a different answer than one goroutine gets afterwards: " + got[g][i] + " (afterwards: " + want + ")", Input: l})
				return
			}
		}
	}
	res.Hist("concurrent first use")
}
