package main

// Property monitors of the client family: the clauses of C08, C16, C17 and the
// simulator part of C18, evaluated on what the real AuditClient did. Nothing
// here uses the Lean model or the library's own constants: message types,
// flags, mask bits and struct offsets are the UAPI numbers written out below,
// and the script the simulated kernel played is decoded at fixed offsets.

import (
	"bytes"
	"encoding/binary"
	"fmt"
	"strconv"
	"strings"
	"syscall"

	libaudit "github.com/elastic/go-libaudit/v2"

	"verifharness/internal/common"
	"verifharness/internal/simkernel"
)

// include/uapi/linux/audit.h, include/uapi/linux/netlink.h
const (
	uapiAuditGet       = 1000
	uapiAuditSet       = 1001
	uapiAuditAddRule   = 1011
	uapiAuditDelRule   = 1012
	uapiAuditListRules = 1013
	uapiNlmsgError     = 2
	uapiNlmsgDone      = 3
	uapiNlmFRequest    = 1
	uapiNlmFAck        = 4
	uapiStatusEnabled  = 0x01
	uapiStatusFailure  = 0x02
	uapiStatusPID      = 0x04
	uapiStatusRate     = 0x08
	uapiStatusBacklog  = 0x10
	uapiStatusWaitTime = 0x20
	uapiStatusLost     = 0x40
)

// struct audit_status, field i at offset 4*i
var uapiStatusFields = [11]string{"mask", "enabled", "failure", "pid", "rate_limit", "backlog_limit", "lost", "backlog",
	"feature_bitmap", "backlog_wait_time", "backlog_wait_time_actual"}

const (
	fMask = iota
	fEnabled
	fFailure
	fPID
	fRate
	fBacklogLimit
	fLost
	fBacklog
	fFeature
	fWaitTime
	fWaitTimeActual
)

// runConstsCase: the exported names carry the kernel's numbers.
func runConstsCase(ctx *Ctx, c KCase, idx int) *common.Violation {
	ctx.Res.Count(c.canon(), true)
	ctx.Res.Hist("consts")
	type kv struct {
		name      string
		got, want uint64
	}
	checks := []kv{
		{"AuditGet", uint64(libaudit.AuditGet), 1000}, {"AuditSet", uint64(libaudit.AuditSet), 1001},
		{"SilentOnFailure", uint64(libaudit.SilentOnFailure), 0}, {"LogOnFailure", uint64(libaudit.LogOnFailure), 1}, {"PanicOnFailure", uint64(libaudit.PanicOnFailure), 2},
		{"AuditStatusEnabled", uint64(libaudit.AuditStatusEnabled), 0x01}, {"AuditStatusFailure", uint64(libaudit.AuditStatusFailure), 0x02},
		{"AuditStatusPID", uint64(libaudit.AuditStatusPID), 0x04}, {"AuditStatusRateLimit", uint64(libaudit.AuditStatusRateLimit), 0x08},
		{"AuditStatusBacklogLimit", uint64(libaudit.AuditStatusBacklogLimit), 0x10}, {"AuditStatusBacklogWaitTime", uint64(libaudit.AuditStatusBacklogWaitTime), 0x20},
		{"AuditStatusLost", uint64(libaudit.AuditStatusLost), 0x40},
		{"AuditFeatureBitmapBacklogLimit", uint64(libaudit.AuditFeatureBitmapBacklogLimit), 0x01}, {"AuditFeatureBitmapBacklogWaitTime", uint64(libaudit.AuditFeatureBitmapBacklogWaitTime), 0x02},
		{"AuditFeatureBitmapExecutablePath", uint64(libaudit.AuditFeatureBitmapExecutablePath), 0x04}, {"AuditFeatureBitmapExcludeExtend", uint64(libaudit.AuditFeatureBitmapExcludeExtend), 0x08},
		{"AuditFeatureBitmapSessionIDFilter", uint64(libaudit.AuditFeatureBitmapSessionIDFilter), 0x10}, {"AuditFeatureBitmapLostReset", uint64(libaudit.AuditFeatureBitmapLostReset), 0x20},
		{"MinSizeofAuditStatus", uint64(libaudit.MinSizeofAuditStatus), 32},
		{"AuditMessageMaxLength", uint64(libaudit.AuditMessageMaxLength), 8970},
		{"WaitForReply", uint64(libaudit.WaitForReply), 1}, {"NoWait", uint64(libaudit.NoWait), 2},
		{"NetlinkGroupNone", uint64(libaudit.NetlinkGroupNone), 0}, {"NetlinkGroupReadLog", uint64(libaudit.NetlinkGroupReadLog), 1},
	}
	for _, k := range checks {
		if k.got != k.want {
			return &common.Violation{Kind: "monitor", Clause: fmt.Sprintf("C16: exported constant %s = %d, the kernel's value is %d", k.name, k.got, k.want),
				Input: c, Impl: fmt.Sprintf("%s=%d", k.name, k.got), Case: idx}
		}
	}
	return nil
}

// ---- the spec's reading of the script ----------------------------------------------------

type specQueue struct {
	q        []simkernel.Resolved
	consumed int
}

// nextReply: what a request waiting for its reply gets, per the property: unsolicited
// (sequence 0) records are skipped, as are runs of up to 9 transient failures.
// kind: msg | toomany | hard | nothing | exhausted
func (s *specQueue) nextReply() (kind string, raw []byte) {
	run := 0
	for {
		s.consumed++
		if len(s.q) == 0 {
			return "exhausted", nil
		}
		it := s.q[0]
		s.q = s.q[1:]
		switch it.K {
		case "eintr", "eagain":
			run++
			if run == 10 {
				return "toomany", nil
			}
		case "fail":
			return "hard", nil
		case "nothing":
			return "nothing", nil
		case "raw":
			if len(it.Raw) < 16 {
				return "hard", nil
			}
			if binary.LittleEndian.Uint32(it.Raw[8:12]) == 0 {
				run = 0
				continue
			}
			return "msg", it.Raw
		}
	}
}

// expectation for a return value
type expect struct {
	kind string // nil | errno | nonnil | any
	cls  string // for errno
	why  string
}

func errnoClass(e int32) string { return "errno:" + strconv.FormatUint(uint64(uintptr(e)), 10) }

// ackExpect: the verdict the datagram raw carries for request own.
func ackExpect(raw []byte, own uint32) expect {
	if binary.LittleEndian.Uint32(raw[8:12]) != own {
		return expect{kind: "nonnil", why: fmt.Sprintf("the reply carries sequence %d, not the request's %d", binary.LittleEndian.Uint32(raw[8:12]), own)}
	}
	if t := binary.LittleEndian.Uint16(raw[4:6]); t != uapiNlmsgError {
		return expect{kind: "nonnil", why: fmt.Sprintf("the reply has type %d, not NLMSG_ERROR", t)}
	}
	if len(raw) < 20 {
		return expect{kind: "nonnil", why: "the NLMSG_ERROR payload is too short to carry an errno"}
	}
	e := -int32(binary.LittleEndian.Uint32(raw[16:20]))
	if e == 0 {
		return expect{kind: "nil", why: "the kernel acknowledged the request with errno 0"}
	}
	return expect{kind: "errno", cls: errnoClass(e), why: fmt.Sprintf("the kernel answered the request with errno %d", e)}
}

func (e expect) check(got string) string {
	switch e.kind {
	case "nil":
		if got != "nil" {
			return fmt.Sprintf("%s, but the call returned %s", e.why, got)
		}
	case "errno":
		if got != e.cls {
			return fmt.Sprintf("%s, but the call returned %s (want an error identifying %s)", e.why, got, e.cls)
		}
	case "nonnil":
		if got == "nil" {
			return fmt.Sprintf("%s, but the call returned nil", e.why)
		}
		if got == "panic" {
			return fmt.Sprintf("%s, and the call panicked", e.why)
		}
	}
	return ""
}

// sentExpect is one message the operation must hand to Netlink.Send.
type sentExpect struct {
	typ, flags uint16
	data       []byte      // exact payload (nil = empty) unless words is set
	words      *[11]uint32 // audit_status payload
}

func statusPayload(field int, mask, val uint32) *[11]uint32 {
	var w [11]uint32
	w[fMask] = mask
	w[field] = val
	return &w
}

func checkSent(op string, got []simkernel.Sent, want []sentExpect) string {
	if len(got) != len(want) {
		return fmt.Sprintf("C16: %s handed %d messages to Send, expected %d", op, len(got), len(want))
	}
	for i, w := range want {
		g := got[i]
		if g.Typ != w.typ {
			return fmt.Sprintf("C16: %s sent message type %d, expected %d", op, g.Typ, w.typ)
		}
		if g.Flags != w.flags {
			return fmt.Sprintf("C16: %s sent flags %#x, expected %#x", op, g.Flags, w.flags)
		}
		if w.words != nil {
			if len(g.Data) != 44 {
				return fmt.Sprintf("C16: %s sent an audit_status payload of %d bytes, expected the full 44", op, len(g.Data))
			}
			for k := 0; k < 11; k++ {
				if v := binary.LittleEndian.Uint32(g.Data[4*k:]); v != w.words[k] {
					return fmt.Sprintf("C16: %s payload: %s (offset %d) = %#x, expected %#x", op, uapiStatusFields[k], 4*k, v, w.words[k])
				}
			}
		} else if !bytes.Equal(g.Data, w.data) {
			return fmt.Sprintf("C16: %s sent payload %s, expected %s", op, common.Hex(g.Data), common.Hex(w.data))
		}
	}
	return ""
}

// historyMonitor evaluates the clauses of C08, C16, C17 and C18 (Receive over the
// simulator) on one history. It returns the first failed clause.
func historyMonitor(c KCase, run *clientRun) string {
	var pending []uint32 // NoWait requests whose ACK has not been consumed, per the property
	pendingKnown := true
	setPIDUsed := false
	closed := false
	seq := c.Seq0
	const reqAck = uapiNlmFRequest | uapiNlmFAck

	for i, op := range c.Ops {
		o := run.Obs[i]
		if o.Ret == "panic" && !(op.K == "receive") {
			return fmt.Sprintf("C08: %s panicked: %s", op.K, o.Panic)
		}
		sq := &specQueue{q: append([]simkernel.Resolved(nil), o.QBefore...)}
		plans := op.Plans
		// specSend: the kernel's reaction to the next request of this operation
		specSend := func() (own uint32, ok bool) {
			seq++
			var p simkernel.Plan
			if len(plans) > 0 {
				p, plans = plans[0], plans[1:]
			}
			for _, it := range p.Items {
				sq.q = append(sq.q, simkernel.Resolve(it, seq))
			}
			return seq, !p.SendFail
		}
		var want []sentExpect
		var ex expect
		checkConsumed := true
		unknown := false // a request of this operation has sequence number 0: outside the monitor's domain

		// one request, one ACK
		ackCmd := func() {
			own, ok := specSend()
			if !ok {
				ex = expect{kind: "nonnil", why: "the request could not be sent"}
				return
			}
			if own == 0 {
				ex, checkConsumed, unknown = expect{kind: "any"}, false, true
				return
			}
			kind, raw := sq.nextReply()
			if kind != "msg" {
				ex = expect{kind: "nonnil", why: "no acknowledgement arrived (" + kind + ")"}
				return
			}
			ex = ackExpect(raw, own)
		}

		switch op.K {
		case "addrule":
			want = []sentExpect{{typ: uapiAuditAddRule, flags: reqAck, data: common.UnHex(op.Rule)}}
			ackCmd()
		case "deleterule":
			want = []sentExpect{{typ: uapiAuditDelRule, flags: reqAck, data: common.UnHex(op.Rule)}}
			ackCmd()
		case "setpid", "setratelimit", "setbackloglimit", "setenabled", "setimmutable", "setfailure", "setbacklogwaittime":
			var w *[11]uint32
			switch op.K {
			case "setpid":
				w = statusPayload(fPID, uapiStatusPID, run.Pid)
				setPIDUsed = true
			case "setratelimit":
				w = statusPayload(fRate, uapiStatusRate, op.V)
			case "setbackloglimit":
				w = statusPayload(fBacklogLimit, uapiStatusBacklog, op.V)
			case "setenabled":
				v := uint32(0)
				if op.B {
					v = 1
				}
				w = statusPayload(fEnabled, uapiStatusEnabled, v)
			case "setimmutable":
				w = statusPayload(fEnabled, uapiStatusEnabled, 2)
			case "setfailure":
				v := op.V
				switch op.FM { // the names carry the kernel's numbers: AUDIT_FAIL_SILENT 0, AUDIT_FAIL_PRINTK 1, AUDIT_FAIL_PANIC 2
				case "silent":
					v = 0
				case "log":
					v = 1
				case "panic":
					v = 2
				}
				w = statusPayload(fFailure, uapiStatusFailure, v)
			case "setbacklogwaittime":
				w = statusPayload(fWaitTime, uapiStatusWaitTime, uint32(op.W))
			}
			want = []sentExpect{{typ: uapiAuditSet, flags: reqAck, words: w}}
			if op.WM == 2 { // NoWait
				own, ok := specSend()
				if !ok {
					ex = expect{kind: "nonnil", why: "the request could not be sent"}
				} else {
					ex = expect{kind: "nil", why: "a NoWait request was sent"}
					pending = append(pending, own)
				}
			} else {
				ackCmd()
			}
		case "getstatusasync":
			fl := uint16(uapiNlmFRequest)
			if op.B {
				fl = reqAck
			}
			want = []sentExpect{{typ: uapiAuditGet, flags: fl}}
			own, ok := specSend()
			if !ok {
				ex = expect{kind: "nonnil", why: "the request could not be sent"}
			} else {
				ex = expect{kind: "nil", why: "the request was sent"}
				if o.Ret == "nil" && o.Seq != own {
					return fmt.Sprintf("C16: GetStatusAsync returned sequence %d, the request was sent with %d", o.Seq, own)
				}
			}
		case "getstatus":
			want = []sentExpect{{typ: uapiAuditGet, flags: reqAck}}
			ackCmd()
			if ex.kind == "nil" {
				own := seq
				kind, raw := sq.nextReply()
				switch {
				case kind != "msg":
					ex = expect{kind: "nonnil", why: "the status reply did not arrive (" + kind + ")"}
				case binary.LittleEndian.Uint32(raw[8:12]) != own:
					ex = expect{kind: "nonnil", why: "the message after the ACK carries another request's sequence number"}
				case binary.LittleEndian.Uint16(raw[4:6]) != uapiAuditGet:
					ex = expect{kind: "nonnil", why: "the message after the ACK is not an AUDIT_GET reply"}
				case len(raw)-16 < 32:
					ex = expect{kind: "nonnil", why: "the status reply is shorter than the 2.6.32 audit_status"}
				default:
					ex = expect{kind: "nil", why: "the kernel acknowledged the request with errno 0 and sent the status"}
					if o.Ret == "nil" {
						img := make([]byte, 44)
						copy(img, raw[16:])
						if o.Status == nil {
							return "C08: GetStatus returned neither a status nor an error"
						}
						got := statusWords(o.Status)
						for k := 0; k < 11; k++ {
							if w := binary.LittleEndian.Uint32(img[4*k:]); got[k] != w {
								return fmt.Sprintf("C08: GetStatus: %s = %#x, the kernel laid out %#x at offset %d (reply payload of %d bytes)", uapiStatusFields[k], got[k], w, 4*k, len(raw)-16)
							}
						}
					}
				}
			}
		case "getrules", "deleterules":
			want = []sentExpect{{typ: uapiAuditListRules, flags: reqAck}}
			ackCmd()
			var rules [][]byte
			if ex.kind == "nil" {
				own := seq
			loop:
				for {
					kind, raw := sq.nextReply()
					switch {
					case kind != "msg":
						ex = expect{kind: "nonnil", why: "the rule list was cut short (" + kind + ")"}
						break loop
					case binary.LittleEndian.Uint32(raw[8:12]) != own:
						ex = expect{kind: "nonnil", why: "a message of the rule list carries another request's sequence number"}
						break loop
					case binary.LittleEndian.Uint16(raw[4:6]) == uapiNlmsgDone:
						break loop
					case binary.LittleEndian.Uint16(raw[4:6]) != uapiAuditListRules:
						ex = expect{kind: "nonnil", why: "a message of the rule list has an unexpected type"}
						break loop
					}
					rules = append(rules, raw[16:])
				}
			}
			if op.K == "getrules" {
				if ex.kind == "nil" && o.Ret == "nil" {
					if len(o.Rules) != len(rules) {
						return fmt.Sprintf("C08: GetRules returned %d rules, the kernel sent %d before NLMSG_DONE", len(o.Rules), len(rules))
					}
					for k := range rules {
						if !bytes.Equal(o.Rules[k], rules[k]) {
							return fmt.Sprintf("C08: GetRules: rule %d is %s, the kernel sent %s", k, common.Hex(o.Rules[k]), common.Hex(rules[k]))
						}
					}
				}
			} else if ex.kind == "nil" {
				for k, r := range rules {
					want = append(want, sentExpect{typ: uapiAuditDelRule, flags: reqAck, data: r})
					ackCmd()
					if ex.kind != "nil" {
						if ex.why != "" {
							ex.why = fmt.Sprintf("deleting rule %d of %d: %s", k, len(rules), ex.why)
						}
						break
					}
				}
				if ex.kind == "nil" && o.Ret == "nil" && o.Count != len(rules) {
					return fmt.Sprintf("C08: DeleteRules reported %d deleted rules, the kernel listed (and acknowledged deleting) %d", o.Count, len(rules))
				}
			}
		case "wait":
			ex = expect{kind: "nil", why: "every pending acknowledgement was a success"}
			if len(pending) == 0 {
				ex.why = "no acknowledgement is pending (earlier calls consumed them all)"
			}
			if !pendingKnown {
				ex, checkConsumed = expect{kind: "any"}, false
				break
			}
			for len(pending) > 0 {
				p := pending[0]
				if p == 0 {
					ex, checkConsumed, pendingKnown = expect{kind: "any"}, false, false
					break
				}
				kind, raw := sq.nextReply()
				if kind != "msg" {
					ex = expect{kind: "nonnil", why: fmt.Sprintf("the acknowledgement of pending request %d did not arrive (%s)", p, kind)}
					break
				}
				ex = ackExpect(raw, p)
				if binary.LittleEndian.Uint32(raw[8:12]) == p {
					pending = pending[1:] // its acknowledgement has now been consumed, whatever it says
				}
				if ex.kind != "nil" {
					if ex.why != "" {
						ex.why = fmt.Sprintf("pending request %d: %s", p, ex.why)
					}
					break
				}
				ex = expect{kind: "nil", why: "every pending acknowledgement was a success"}
			}
		case "close":
			checkConsumed = false
			if closed {
				ex = expect{kind: "nil", why: "Close had been called before"}
				if len(o.Sent) != 0 || len(o.Recvs) != 0 {
					return fmt.Sprintf("C17: a repeated Close sent %d messages and made %d Receive calls; it must be a no-op", len(o.Sent), len(o.Recvs))
				}
			} else {
				closed = true
				sendOK := true
				if setPIDUsed {
					want = []sentExpect{{typ: uapiAuditSet, flags: reqAck, words: statusPayload(fPID, uapiStatusPID, 0)}}
					own, ok := specSend()
					sendOK = ok
					if ok {
						pending = append(pending, own)
					}
				}
				if sendOK && !c.CloseFail {
					ex = expect{kind: "nil", why: "the socket was closed"}
				} else {
					ex = expect{kind: "nonnil", why: "clearing the PID or closing the socket failed"}
				}
				if len(o.Recvs) != 0 {
					return fmt.Sprintf("C17: Close made %d Receive calls (the PID is cleared in NoWait mode)", len(o.Recvs))
				}
				// order: the PID clear goes out before the socket is closed
				if n := len(o.Events); n == 0 || o.Events[n-1].K != "close" {
					return "C17: the first Close did not end with closing the socket"
				}
			}
			wantCloses := 0
			if closed {
				wantCloses = 1
			}
			if o.Closes != wantCloses {
				return fmt.Sprintf("C17: after Close the socket has been closed %d times, expected exactly 1", o.Closes)
			}
		case "receive":
			// C18: AuditClient.Receive over the simulator
			checkConsumed = false
			ex = expect{kind: "any"}
			if len(o.Recvs) != 1 {
				return fmt.Sprintf("C18: Receive made %d Netlink.Receive calls", len(o.Recvs))
			}
			r := o.Recvs[0]
			switch r.K {
			case "raw":
				if len(r.Raw) < 16 {
					if o.Ret == "nil" {
						return fmt.Sprintf("C18: Receive returned data for a datagram of %d bytes (shorter than a netlink header)", len(r.Raw))
					}
					if !r.ParserErr || r.NMsgs != 0 {
						return fmt.Sprintf("C18: parseNetlinkAuditMessage accepted a buffer of %d bytes", len(r.Raw))
					}
				} else {
					if o.Ret != "nil" {
						return fmt.Sprintf("C18: Receive returned %s for a well-formed datagram of %d bytes", o.Ret, len(r.Raw))
					}
					if o.RawType != binary.LittleEndian.Uint16(r.Raw[4:6]) {
						return fmt.Sprintf("C18: Receive returned type %d, the datagram's header says %d", o.RawType, binary.LittleEndian.Uint16(r.Raw[4:6]))
					}
					// compare with a copy taken when it was returned (the data aliases the receive buffer)
					if !bytes.Equal(o.RawSnap, r.Raw[16:]) {
						return fmt.Sprintf("C18: Receive returned payload %s, the datagram carries %s", common.Hex(o.RawSnap), common.Hex(r.Raw[16:]))
					}
					if len(o.RawData) != len(r.Raw)-16 {
						return fmt.Sprintf("C18: Receive returned %d payload bytes of a datagram with %d after the header", len(o.RawData), len(r.Raw)-16)
					}
				}
			case "eintr", "eagain", "fail", "exhausted":
				if o.Ret == "nil" {
					return "C18: Receive returned data although Netlink.Receive failed"
				}
			}
		}

		// parser observations of every Receive call of this operation (C18: parse_audit)
		for _, r := range o.Recvs {
			if r.K != "raw" {
				continue
			}
			if len(r.Raw) < 16 {
				if !r.ParserErr || r.NMsgs != 0 {
					return fmt.Sprintf("C18: parseNetlinkAuditMessage accepted a buffer of %d bytes", len(r.Raw))
				}
				continue
			}
			if r.ParserErr || r.NMsgs != 1 {
				return fmt.Sprintf("C18: parseNetlinkAuditMessage on %d bytes: error=%v messages=%d, expected exactly one message", len(r.Raw), r.ParserErr, r.NMsgs)
			}
			h := syscall.NlMsghdr{Len: binary.LittleEndian.Uint32(r.Raw[0:]), Type: binary.LittleEndian.Uint16(r.Raw[4:]), Flags: binary.LittleEndian.Uint16(r.Raw[6:]),
				Seq: binary.LittleEndian.Uint32(r.Raw[8:]), Pid: binary.LittleEndian.Uint32(r.Raw[12:])}
			if r.Hdr != h {
				return fmt.Sprintf("C18: parseNetlinkAuditMessage header %+v, the first 16 bytes say %+v", r.Hdr, h)
			}
			if !bytes.Equal(r.Data, r.Raw[16:]) {
				return fmt.Sprintf("C18: parseNetlinkAuditMessage data %s, everything after the header is %s", common.Hex(r.Data), common.Hex(r.Raw[16:]))
			}
		}

		if unknown {
			seq = o.SeqBefore + uint32(len(o.Sent))
			continue
		}
		// C16: the messages handed to Send
		if msg := checkSent(op.K, o.Sent, want); msg != "" {
			if op.K == "close" {
				return "C17: Close: " + msg[5:]
			}
			return msg
		}
		if ex.kind != "any" && ex.kind != "" {
			if msg := ex.check(o.Ret); msg != "" {
				pfx := "C08"
				if op.K == "wait" || op.K == "close" {
					pfx = "C17"
				} else if isSetter(op.K) && op.WM == 2 {
					pfx = "C16"
				}
				return fmt.Sprintf("%s: %s: %s", pfx, op.K, msg)
			}
		}
		// C08 / C17: the operation consumed exactly its own replies
		if checkConsumed && ex.kind != "any" && ex.kind != "" {
			if len(o.Recvs) != sq.consumed {
				pfx := "C08"
				if op.K == "wait" {
					pfx = "C17"
				}
				return fmt.Sprintf("%s: %s made %d Receive calls; reading exactly its own replies (through noise) takes %d", pfx, op.K, len(o.Recvs), sq.consumed)
			}
		}
		seq = o.SeqBefore + uint32(len(o.Sent)) // follow what was actually sent
	}

	// C08, C16: a status that GetStatus returned is the caller's: it still reads as the kernel laid it out for that
	// request after the client has gone on to other requests (a caller keeps it to compute the growth of the lost
	// counter, or reads its fields between the Set* calls it decides on)
	for i, op := range c.Ops {
		o := run.Obs[i]
		if op.K == "getstatus" && o.Status != nil && strings.HasPrefix(o.Data, "st:") {
			if now := "st:" + wordsHex(statusWords(o.Status)); now != o.Data {
				return fmt.Sprintf("C08,C16: the status GetStatus returned at op %d read %s when returned and reads %s after the later operations on the client", i, o.Data, now)
			}
		}
	}
	for i := range c.Ops {
		for j := i + 1; j < len(c.Ops); j++ {
			if a, b := run.Obs[i].Status, run.Obs[j].Status; a != nil && a == b {
				return fmt.Sprintf("C08,C16: GetStatus at op %d and at op %d returned the same *AuditStatus: the earlier result is overwritten by the later reply", i, j)
			}
		}
	}
	// C17: rule data returned by GetRules stays unchanged by later receives
	for k := range run.Kept {
		if run.KeptRule[k] && !bytes.Equal(run.Kept[k], run.KeptSnap[k]) {
			return fmt.Sprintf("C17: a rule returned by GetRules was %s when returned and reads %s after later receives", common.Hex(run.KeptSnap[k]), common.Hex(run.Kept[k]))
		}
	}
	return ""
}

// historyNontrivial tags what a history exercises.
func historyNontrivial(c KCase, run *clientRun) (bool, []string) {
	tags := map[string]bool{}
	waits, closes := 0, 0
	hadNoWait := false
	for i, op := range c.Ops {
		o := run.Obs[i]
		for _, r := range o.Recvs {
			switch r.K {
			case "eintr", "eagain":
				tags["transient_"+r.K] = true
			case "fail", "nothing", "exhausted":
				tags["recv_"+r.K] = true
			case "raw":
				if len(r.Raw) < 16 {
					tags["short_datagram"] = true
				} else if binary.LittleEndian.Uint32(r.Raw[8:12]) == 0 {
					tags["event_skipped"] = true
				}
			}
		}
		switch {
		case o.Ret == "nil":
		case o.Ret == "err":
			tags["ret_err"] = true
		case o.Ret == "err:eof":
			tags["ret_eof"] = true
		case o.Ret == "panic":
			tags["ret_panic"] = true
		default:
			tags["ret_errno"] = true
		}
		for _, p := range op.Plans {
			if p.SendFail {
				tags["send_failure"] = true
			}
		}
		if isSetter(op.K) {
			if op.WM == 2 {
				tags["nowait"] = true
				hadNoWait = true
			}
			if op.V != 0 || op.W != 0 || op.B {
				tags["setter_nonzero_arg"] = true
			}
		}
		switch op.K {
		case "wait":
			waits++
			if hadNoWait && (waits > 1 || o.Ret != "nil") {
				tags["wait_again_or_error"] = true
			}
		case "close":
			closes++
			if closes > 1 {
				tags["close_repeated"] = true
			}
		case "getstatus":
			if o.Ret == "nil" {
				tags["status_data"] = true
			}
		case "getrules":
			if o.Ret == "nil" && len(o.Rules) > 0 {
				tags["rules_data"] = true
				if i+1 < len(c.Ops) {
					tags["rules_reread_after_traffic"] = true
				}
			}
		case "deleterules":
			if o.Ret == "nil" && o.Count > 0 {
				tags["rules_deleted"] = true
			}
		case "receive":
			tags["receive_op"] = true
		}
		if o.SeqBefore > 0xFFFFFFF0 {
			tags["sequence_wrap"] = true
		}
	}
	var out []string
	for t := range tags {
		out = append(out, t)
	}
	return len(out) > 0, out
}
