package main

// Parser family: C04 (header round trip), C05 (totality, idempotence), C12 (Data()
// recovers what the kernel encoded).

import (
	"bufio"
	"encoding/hex"
	"encoding/json"
	"fmt"
	"math/big"
	"math/rand"
	"net"
	"os"
	"path/filepath"
	"reflect"
	"sort"
	"strconv"
	"strings"
	"sync"
	"time"

	libaudit "github.com/elastic/go-libaudit/v2"
	"github.com/elastic/go-libaudit/v2/auparse"

	"verifharness/internal/common"
)

func init() {
	families["C04"] = func(c *Ctx) error { return auparseFamily(c) }
	families["C05"] = func(c *Ctx) error { return auparseFamily(c) }
	families["C12"] = func(c *Ctx) error { return auparseFamily(c) }
}

// ACase is one parser case. Kind "line": ParseLogLine(Text); kind "data": Parse(Typ, Text)
// then Data/Tags/ToMapStr. Expect carries the generator's intent for the monitors.
type ACase struct {
	Kind   string            `json:"kind"`
	Typ    int               `json:"typ,omitempty"`
	Hex    string            `json:"hex"` // the input bytes, hex
	Text   string            `json:"text,omitempty"`
	Hdr    *AHdr             `json:"hdr,omitempty"`    // C04: what was written
	Bad    bool              `json:"bad,omitempty"`    // C04: header corrupted on purpose
	Expect map[string]string `json:"expect,omitempty"` // C12: data keys that must have exactly these values
	Absent []string          `json:"absent,omitempty"` // C12: keys that must not be present
	Tags   []string          `json:"tags,omitempty"`   // C12: expected tags (nil = unchecked)
	Note   string            `json:"note,omitempty"`
}

type AHdr struct {
	Typ  int    `json:"typ"`
	Sec  int64  `json:"sec"`
	Ms   int    `json:"ms"`
	Seq  uint32 `json:"seq"`
	Body string `json:"body"`
	Name string `json:"name"`
}

func (c ACase) input() string { b, _ := hex.DecodeString(c.Hex); return string(b) }

func mkACase(kind string, typ int, text string) ACase {
	c := ACase{Kind: kind, Typ: typ, Hex: hex.EncodeToString([]byte(text))}
	if isPrintable(text) {
		c.Text = text
	}
	return c
}

func isPrintable(s string) bool {
	for i := 0; i < len(s); i++ {
		if s[i] < 0x20 || s[i] > 0x7e {
			return false
		}
	}
	return true
}

func errClass(err error) string {
	s := err.Error()
	switch {
	case s == "invalid audit message header":
		return "hdr"
	case s == "invalid message type":
		return "typ"
	case s == "message has no data content":
		return "nodata"
	case strings.HasSuffix(s, " key not found"):
		return "keynotfound:" + strings.TrimSuffix(s, " key not found")
	case strings.HasPrefix(s, "failed to parse arch"):
		return "parsearch"
	case strings.HasPrefix(s, "failed to parse syscall"):
		return "parsesyscall"
	case strings.HasPrefix(s, "failed to parse sig"):
		return "parsesig"
	case strings.HasPrefix(s, "failed to parse saddr"):
		return "saddr"
	case strings.HasPrefix(s, "failed to convert argc"):
		return "argc"
	case strings.HasPrefix(s, "failed to find arg a"):
		return "arg:" + strings.TrimPrefix(s, "failed to find arg a")
	case strings.HasPrefix(s, "arch key not found so"):
		return "noarch"
	}
	return "other:" + s
}

func renderAMsg(m *auparse.AuditMessage, err error) string {
	if err != nil {
		return "err:" + errClass(err)
	}
	return fmt.Sprintf("t=%d s=%d ns=%d q=%d raw=%s", m.RecordType, m.Timestamp.Unix(), m.Timestamp.Nanosecond(), m.Sequence, common.HexS(m.RawData))
}

func renderAData(data map[string]string, tags []string, err error) string {
	tg := make([]string, len(tags))
	for i, t := range tags {
		tg[i] = common.HexS(t)
	}
	ts := "tags=" + strings.Join(tg, ",")
	if err != nil {
		return "err:" + errClass(err) + ";" + ts
	}
	ks := common.SortedKeys(data)
	parts := make([]string, len(ks))
	for i, k := range ks {
		parts[i] = common.HexS(k) + "=" + common.HexS(data[k])
	}
	return "ok " + strings.Join(parts, ",") + ";" + ts
}

// aObs is the implementation's observation of one case.
type aObs struct {
	Out   string // canonical line compared with the model
	Msg   *auparse.AuditMessage
	Err   error
	Data  map[string]string
	DErr  error
	Tags  []string
	Map   map[string]interface{}
	Panic string
	Slow  bool
}

func runAImpl(c ACase) (o aObs) {
	guardEnter(c)
	defer guardLeave()
	done := make(chan struct{})
	go func() {
		defer close(done)
		defer func() {
			if r := recover(); r != nil {
				o.Panic = fmt.Sprint(r)
			}
		}()
		in := c.input()
		if c.Kind == "line" {
			o.Msg, o.Err = auparse.ParseLogLine(in)
			o.Out = renderAMsg(o.Msg, o.Err)
			if o.Msg != nil && o.Err != nil {
				o.Panic = "message returned together with an error"
			}
			return
		}
		o.Msg, o.Err = auparse.Parse(auparse.AuditMessageType(c.Typ), in)
		if o.Err != nil {
			o.Out = "err:" + errClass(o.Err)
			return
		}
		if c.Kind == "mapstr" {
			_, derr := o.Msg.Data()
			o.Map = o.Msg.ToMapStr()
			ks := common.SortedKeys(o.Map)
			parts := make([]string, len(ks))
			for i, k := range ks {
				var v string
				switch x := o.Map[k].(type) {
				case string:
					v = common.HexS(x)
					if k == "@timestamp" {
						v = fmt.Sprintf("ts(%d,%d)", o.Msg.Timestamp.Unix(), o.Msg.Timestamp.Nanosecond())
						if x != o.Msg.Timestamp.UTC().String() {
							v = "ts-mismatch:" + x
						}
					}
					if k == "error" && derr != nil {
						v = common.HexS(errClass(derr))
					}
				case []string:
					hs := make([]string, len(x))
					for j, t := range x {
						hs[j] = common.HexS(t)
					}
					v = "[" + strings.Join(hs, ",") + "]"
				default:
					v = fmt.Sprintf("?%T", x)
				}
				parts[i] = common.HexS(k) + "=" + v
			}
			o.Out = strings.Join(parts, ",")
			return
		}
		o.Data, o.DErr = o.Msg.Data()
		o.Tags, _ = o.Msg.Tags()
		// rendered (copied) before any further call: a later call must not be able to rewrite it through a shared slice
		o.Out = renderAData(o.Data, o.Tags, o.DErr)
		o.Tags = append([]string(nil), o.Tags...)
		o.Map = o.Msg.ToMapStr()
		// idempotence (C05): second round must give the same answers
		d2, e2 := o.Msg.Data()
		t2, _ := o.Msg.Tags()
		m2 := o.Msg.ToMapStr()
		if renderAData(d2, t2, e2) != o.Out || !reflect.DeepEqual(m2, o.Map) {
			o.Panic = "repeated Data/Tags/ToMapStr returned a different result: " + renderAData(d2, t2, e2)
		}
		// the map ToMapStr hands out is the caller's: a consumer that edits the copy it got must not change what
		// the message reports the next time (header keys above all)
		snap := map[string]interface{}{}
		for k, v := range o.Map {
			snap[k] = v
		}
		delete(m2, "raw_msg")
		m2["sequence"] = 0
		m2["record_type"] = "edited"
		m2["consumer_field"] = "x"
		if m3 := o.Msg.ToMapStr(); !reflect.DeepEqual(m3, snap) && o.Panic == "" {
			o.Panic = fmt.Sprintf("repeated ToMapStr after the caller edited the map it was given returned a different result: record_type=%v sequence=%v raw_msg present=%v", m3["record_type"], m3["sequence"], m3["raw_msg"] != nil)
		}
		o.Map = snap
	}()
	select {
	case <-done:
	case <-time.After(20 * time.Second):
		o.Slow = true
	}
	return o
}

func aModelLine(c ACase) string {
	if c.Kind == "line" {
		return "aup line " + hexOrDash(c.Hex)
	}
	if c.Kind == "mapstr" {
		return fmt.Sprintf("aup mapstr %d %s", c.Typ, hexOrDash(c.Hex))
	}
	return fmt.Sprintf("aup data %d %s", c.Typ, hexOrDash(c.Hex))
}

func hexOrDash(h string) string {
	if h == "" {
		return "-"
	}
	return h
}

// ---- kernel encoders (the specification side of C12) ---------------------------------

// untrusted renders a value the way audit_log_untrustedstring does.
func untrusted(v string) string {
	for i := 0; i < len(v); i++ {
		if v[i] < 0x21 || v[i] > 0x7e || v[i] == '"' {
			return strings.ToUpper(hex.EncodeToString([]byte(v)))
		}
	}
	return `"` + v + `"`
}

// c12Domain: value non-empty, not a placeholder, does not begin or end with a quote
// character, does not end in a backslash (the parser normalises those by design).
func c12Domain(v string) bool {
	if v == "" || v == "?" || v == "?," || v == "(null)" {
		return false
	}
	f, l := v[0], v[len(v)-1]
	if f == '\'' || f == '"' || l == '\'' || l == '"' || l == '\\' {
		return false
	}
	// surrounding spaces of a quoted value are trimmed too; such values are hex-encoded by the kernel, which is fine
	return true
}

func randValue(rng *rand.Rand, allowNul bool) string {
	n := 1 + rng.Intn(12)
	if rng.Intn(10) == 0 {
		n = 1 + rng.Intn(60)
	}
	special := []byte{'"', '\'', '=', ' ', '\\', ':', ',', '(', ')', '?', '/', '-', '_', 0x7f, 0x80, 0xff, 0x20, 0x09, 0x0a}
	b := make([]byte, n)
	mode := rng.Intn(5)
	for i := range b {
		switch {
		case mode == 0: // safe printable
			b[i] = byte(0x21 + rng.Intn(0x7e-0x21+1))
		case mode == 1 && rng.Intn(3) == 0:
			b[i] = special[rng.Intn(len(special))]
		case mode == 2: // upper-case hex look-alike
			b[i] = "0123456789ABCDEF"[rng.Intn(16)]
		case mode == 3:
			b[i] = byte(1 + rng.Intn(255))
		default:
			b[i] = "abcdefghijklmnopqrstuvwxyz0123456789/._-"[rng.Intn(40)]
		}
		if b[i] == 0 {
			b[i] = 'x'
		}
	}
	if allowNul && rng.Intn(3) == 0 && n > 2 {
		i := 1 + rng.Intn(n-2)
		b[i] = 0
		switch rng.Intn(6) {
		case 0: // two adjacent NULs (an empty argv element): each one is one separator
			if i+1 < n-1 {
				b[i+1] = 0
			}
		case 1: // a run of three
			for k := i; k < i+3 && k < n-1; k++ {
				b[k] = 0
			}
		case 2: // trailing NUL as well
			b[n-1] = 0
		}
	}
	// place an interesting byte at start / middle / end sometimes
	if rng.Intn(4) == 0 {
		pos := []int{0, n / 2, n - 1}[rng.Intn(3)]
		b[pos] = special[rng.Intn(len(special))]
	}
	return string(b)
}

func nulToSpace(v string) string { return strings.ReplaceAll(v, "\x00", " ") }
func cutNul(v string) string {
	if i := strings.IndexByte(v, 0); i >= 0 {
		return v[:i]
	}
	return v
}

type kvSpec struct{ k, enc string }

func hdrText(rng *rand.Rand) string {
	return fmt.Sprintf("audit(%d.%03d:%d): ", 1400000000+rng.Intn(400000000), rng.Intn(1000), rng.Uint32())
}

func be16(n int) string     { return fmt.Sprintf("%04X", n&0xffff) }
func hexUp(b []byte) string { return strings.ToUpper(hex.EncodeToString(b)) }

// genC12 builds a kernel-encoded record together with what Data() must return.
func genC12(rng *rand.Rand) ACase {
	exp := map[string]string{}
	var absent []string
	var kvs []kvSpec
	var tags []string
	tagsKnown := false
	add := func(k, enc string) { kvs = append(kvs, kvSpec{k, enc}) }
	str := func(k string, decodeMode int, allowNul bool) {
		// decodeMode: 0 = field is hex-decoded by the parser for this type; 1 = decoded up to the first NUL; 2 = not decoded
		v := randValue(rng, allowNul)
		for !c12Domain(v) {
			v = randValue(rng, allowNul)
		}
		enc := untrusted(v)
		add(k, enc)
		switch {
		case enc[0] == '"':
			exp[k] = v
		case decodeMode == 0:
			exp[k] = nulToSpace(v)
		case decodeMode == 1:
			exp[k] = cutNul(v)
		default:
			exp[k] = enc
		}
	}
	plainKeys := []string{"pid", "ppid", "uid", "gid", "euid", "tty", "items", "inode", "dev", "mode", "ouid", "ogid", "rdev", "a1", "a2", "a3", "fsuid", "terminal", "laddr", "hostname", "nametype", "item"}
	plain := func() {
		k := plainKeys[rng.Intn(len(plainKeys))]
		for _, x := range kvs {
			if x.k == k {
				return
			}
		}
		var v string
		switch rng.Intn(6) {
		case 0:
			v = []string{"?", "?,", "(null)"}[rng.Intn(3)]
			add(k, v)
			absent = append(absent, k)
			return
		case 1:
			v = strconv.Itoa(rng.Intn(100000))
		case 2:
			v = fmt.Sprintf("%x", rng.Uint32())
		case 3:
			v = []string{"pts0", "(none)", "00:1b", "0100644", "NORMAL", "root", "a=b", "x:y:z", "4294967295", "-1"}[rng.Intn(10)]
		default:
			n := 1 + rng.Intn(8)
			b := make([]byte, n)
			for i := range b {
				b[i] = "abcdefghijklmnopqrstuvwxyzABCDEFXYZ0123456789/._-:=+,()?"[rng.Intn(56)]
			}
			v = string(b)
			if v == "?" || v == "?," || v == "(null)" {
				v = "x" + v
			}
		}
		add(k, v)
		exp[k] = v
	}
	result := func(key string) {
		v := []string{"yes", "no", "1", "0", "success", "failed", "YES", "Success", "SUCCESSFUL", "suc", "fail", "2"}[rng.Intn(12)]
		add(key, v)
		l := strings.ToLower(v)
		if l == "yes" || l == "1" || strings.HasPrefix(l, "suc") {
			exp["result"] = "success"
		} else {
			exp["result"] = "fail"
		}
		absent = append(absent, key)
	}
	unsetID := func(k string) {
		v := []string{"4294967295", "-1", "0", "1000", "4294967294"}[rng.Intn(5)]
		add(k, v)
		if v == "4294967295" || v == "-1" {
			exp[k] = "unset"
		} else {
			exp[k] = v
		}
	}
	typ := 0
	switch rng.Intn(12) {
	case 0, 1, 2: // SYSCALL / SECCOMP
		typ = 1300
		arches := []string{"x86_64", "i386", "aarch64", "arm", "ppc", "ppc64", "ppc64le", "s390", "s390x"}
		an := arches[rng.Intn(len(arches))]
		var code uint32
		for c, n := range auparse.AuditArchNames {
			if n == an {
				code = uint32(c)
			}
		}
		tbl := auparse.AuditSyscalls[an]
		num := rng.Intn(470)
		if rng.Intn(10) == 0 {
			code = rng.Uint32()
		}
		add("arch", fmt.Sprintf("%x", code))
		add("syscall", strconv.Itoa(num))
		if name, ok := auparse.AuditArchNames[auparse.AuditArch(code)]; ok {
			exp["arch"] = name
			if sn, ok := auparse.AuditSyscalls[name][num]; ok {
				exp["syscall"] = sn
			} else {
				exp["syscall"] = strconv.Itoa(num)
			}
			_ = tbl
		} else {
			exp["arch"] = fmt.Sprintf("unknown[%x]", code)
			exp["syscall"] = strconv.Itoa(num)
		}
		result("success")
		// exit: every errno, and non-errno values
		var ex int
		switch rng.Intn(4) {
		case 0:
			ex = rng.Intn(5000)
		case 1:
			ex = -(1 + rng.Intn(140))
		case 2:
			ex = -(rng.Intn(100000))
		default:
			ex = 0
		}
		add("exit", strconv.Itoa(ex))
		if name, ok := auparse.AuditErrnoToName[-ex]; ok && ex < 0 {
			exp["exit"] = name
		} else {
			exp["exit"] = strconv.Itoa(ex)
		}
		add("a0", fmt.Sprintf("%x", rng.Uint32()))
		exp["a0"] = kvs[len(kvs)-1].enc
		unsetID("auid")
		unsetID("ses")
		str("comm", 2, false)
		str("exe", 0, false)
		if rng.Intn(2) == 0 {
			str("cwd", 0, false)
		}
		// key -> tags
		switch rng.Intn(4) {
		case 0:
			add("key", "(null)")
			tags, tagsKnown = nil, true
		case 1:
			k := "k" + strconv.Itoa(rng.Intn(100))
			add("key", `"`+k+`"`)
			tags, tagsKnown = []string{k}, true
		case 2:
			a, b := "ka"+strconv.Itoa(rng.Intn(10)), "kb"+strconv.Itoa(rng.Intn(10))
			add("key", hexUp([]byte(a+"\x01"+b)))
			tags, tagsKnown = []string{a, b}, true
		}
		absent = append(absent, "key")
	case 3: // PATH
		typ = 1302
		add("item", strconv.Itoa(rng.Intn(4)))
		exp["item"] = kvs[0].enc
		str("name", 0, false)
		add("inode", strconv.Itoa(rng.Intn(1<<20)))
		exp["inode"] = kvs[len(kvs)-1].enc
		add("mode", fmt.Sprintf("0%o", rng.Intn(1<<16)))
		exp["mode"] = kvs[len(kvs)-1].enc
		if rng.Intn(2) == 0 {
			add("obj", "system_u:object_r:etc_t:s0")
			exp["obj_user"], exp["obj_role"], exp["obj_domain"], exp["obj_level"] = "system_u", "object_r", "etc_t", "s0"
			absent = append(absent, "obj")
		}
	case 4: // CWD
		typ = 1307
		str("cwd", 0, false)
	case 5: // EXECVE
		typ = 1309
		n := rng.Intn(6)
		if rng.Intn(8) == 0 {
			n = []int{9, 10, 11, 12, 20, 101}[rng.Intn(6)] // two- and three-digit argument indices
		}
		add("argc", strconv.Itoa(n))
		exp["argc"] = strconv.Itoa(n)
		for i := 0; i < n; i++ {
			str("a"+strconv.Itoa(i), 1, true)
		}
	case 6: // SOCKADDR
		typ = 1306
		switch rng.Intn(3) {
		case 0:
			ip := net.IPv4(byte(rng.Intn(256)), byte(rng.Intn(256)), byte(rng.Intn(256)), byte(rng.Intn(256))).To4()
			port := rng.Intn(65536)
			if rng.Intn(4) == 0 {
				port = []int{0, 1, 255, 256, 32767, 32768, 65535}[rng.Intn(7)]
			}
			if rng.Intn(4) == 0 {
				port = []int{0, 1, 255, 256, 32767, 32768, 65535}[rng.Intn(7)]
			}
			add("saddr", "0200"+be16(port)+hexUp(ip)+"0000000000000000")
			exp["family"], exp["addr"], exp["port"] = "ipv4", ip.String(), strconv.Itoa(port)
		case 1:
			ip := make(net.IP, 16)
			switch rng.Intn(6) {
			case 0: // ::
			case 1:
				ip[15] = 1
			case 2: // v4-mapped
				ip[10], ip[11] = 0xff, 0xff
				rng.Read(ip[12:])
			case 3: // zero runs with ties
				for g := 0; g < 8; g++ {
					if rng.Intn(2) == 0 {
						ip[2*g], ip[2*g+1] = byte(rng.Intn(256)), byte(rng.Intn(256))
					}
				}
			default:
				rng.Read(ip)
				if rng.Intn(2) == 0 {
					a := rng.Intn(7)
					for g := a; g < a+1+rng.Intn(8-a); g++ {
						ip[2*g], ip[2*g+1] = 0, 0
					}
				}
			}
			port := rng.Intn(65536)
			if rng.Intn(4) == 0 {
				port = []int{0, 1, 255, 256, 32767, 32768, 65535}[rng.Intn(7)]
			}
			flow := uint32(0)
			if rng.Intn(3) == 0 {
				flow = uint32(rng.Int31())
			}
			// struct sockaddr_in6 with its scope id (28 bytes), without it (the 24-byte RFC 2133 form the kernel
			// also accepts and logs as passed), cut inside the scope id, or followed by more bytes
			tail := []string{"00000000", "00000000", "", "00", "0000", "000000", "05000000", "00000000DEADBEEF"}[rng.Intn(8)]
			add("saddr", "0A00"+be16(port)+fmt.Sprintf("%08X", flow)+hexUp(ip)+tail)
			exp["family"], exp["addr"], exp["port"] = "ipv6", ip.String(), strconv.Itoa(port)
			if flow > 0 {
				exp["flow"] = strconv.Itoa(int(flow))
			} else {
				absent = append(absent, "flow")
			}
		default:
			p := randValue(rng, true)
			for p[0] == 0 {
				p = randValue(rng, true)
			}
			pad := strings.Repeat("00", rng.Intn(4))
			if rng.Intn(6) == 0 {
				// abstract socket (sun_path[0] = NUL) or an unnamed one (all NUL): the path ends at the first NUL;
				// what Data() reports for it is decided by the correspondence with the model
				ab := "\x00" + p
				if rng.Intn(3) == 0 {
					ab = strings.Repeat("\x00", 1+rng.Intn(6))
				}
				add("saddr", "0100"+hexUp([]byte(ab))+pad)
				exp["family"] = "unix"
			} else {
				add("saddr", "0100"+hexUp([]byte(p))+pad)
				exp["family"], exp["path"] = "unix", cutNul(p)
			}
		}
		absent = append(absent, "saddr")
	case 7: // PROCTITLE
		typ = 1327
		str("proctitle", 0, true)
	case 8: // USER_CMD
		typ = 1123
		add("pid", strconv.Itoa(rng.Intn(30000)))
		exp["pid"] = kvs[0].enc
		str("cwd", 0, false)
		str("cmd", 0, false)
		result("res")
	case 9: // TTY / USER_TTY
		typ = []int{1319, 1124}[rng.Intn(2)]
		add("pid", strconv.Itoa(rng.Intn(30000)))
		exp["pid"] = kvs[0].enc
		str("data", 0, false)
	case 10: // USER_LOGIN
		typ = 1112
		add("pid", strconv.Itoa(rng.Intn(30000)))
		exp["pid"] = kvs[0].enc
		str("acct", 0, false)
		result("res")
	default: // some other type: only cwd is decoded, other strings stay as written
		typ = []int{1100, 1101, 1326 + 2, 1400 + 3, 2500, 1305, 1325}[rng.Intn(7)]
		add("pid", strconv.Itoa(rng.Intn(30000)))
		exp["pid"] = kvs[0].enc
		if rng.Intn(2) == 0 {
			str("cwd", 0, false)
		}
		str("comm", 2, false)
		result("res")
	}
	for i := rng.Intn(4); i > 0; i-- {
		plain()
	}
	parts := make([]string, len(kvs))
	for i, x := range kvs {
		parts[i] = x.k + "=" + x.enc
	}
	// fields are written in generation order except that plain fields may be shuffled in
	c := mkACase("data", typ, hdrText(rng)+strings.Join(parts, " "))
	c.Expect, c.Absent = exp, absent
	if tagsKnown {
		c.Tags = tags
		if c.Tags == nil {
			c.Tags = []string{}
		}
	}
	return c
}

func c12Monitor(c ACase, o aObs) string {
	if c.Expect == nil {
		return ""
	}
	if o.Err != nil {
		return "C12: kernel-formatted record rejected by Parse: " + o.Err.Error()
	}
	if o.DErr != nil {
		return "C12: Data() failed on a kernel-formatted record: " + o.DErr.Error()
	}
	for _, k := range common.SortedKeys(c.Expect) {
		got, ok := o.Data[k]
		if !ok {
			return fmt.Sprintf("C12: key %q missing from Data(); the kernel encoded %q", k, c.Expect[k])
		}
		if got != c.Expect[k] {
			return fmt.Sprintf("C12: Data()[%q] = %q, the kernel encoded %q", k, got, c.Expect[k])
		}
	}
	for _, k := range c.Absent {
		if v, ok := o.Data[k]; ok {
			return fmt.Sprintf("C12: key %q should be dropped/replaced but Data() has %q", k, v)
		}
	}
	if c.Tags != nil {
		if len(o.Tags) != len(c.Tags) {
			return fmt.Sprintf("C12: tags %q, expected %q", o.Tags, c.Tags)
		}
		for i := range c.Tags {
			if o.Tags[i] != c.Tags[i] {
				return fmt.Sprintf("C12: tags %q, expected %q", o.Tags, c.Tags)
			}
		}
	}
	return ""
}

// ---- C04 ----------------------------------------------------------------------------------------

var c04Bodies = []string{"", "a=b", "msg=audit(1.000:2): x=1", "pid=1 msg='op=login acct=\"root\" res=success'", ") : ( . :", "record_type=X sequence=9 raw_msg=zz @timestamp=never tags=t error=e",
	"type=USER msg=audit(9.999:9):", "arch=c000003e syscall=2 success=yes exit=3", "  leading and trailing  ", "\t x=1 ", "a=1 )", "(((", "msg=", "key=\"x\"",
	// what auditd appends with log_format=ENRICHED (a group separator, then upper-case keys), and other control bytes in front of keys
	"arch=c000003e syscall=2 auid=1000 uid=0\x1dARCH=x86_64 SYSCALL=open AUID=\"root\" UID=\"root\"", "a=b\x1dX=1", "a=b \x1d", "\x1dARCH=x86_64", "a=b\x1eB=2", "a=b\x1fC=3", "a=b\x00D=4", "a=b\x7fE=5", "a=b\x1darch=lower",
	"a=b\x1d\x1dARCH=x", "a=b\x0bK=1", "a=b\x0cK=2", "a=b\x1cK=3", "a=b\x85K=4"}

func genC04(rng *rand.Rand, typ int) ACase {
	h := &AHdr{Typ: typ}
	switch rng.Intn(6) {
	case 0:
		h.Sec = []int64{0, 1, 999999999, 1 << 31, 1<<31 - 1, 1 << 32, 1<<34 - 1, 1 << 33}[rng.Intn(8)]
	case 1:
		h.Sec = rng.Int63n(1 << 34)
	default:
		h.Sec = 1400000000 + rng.Int63n(500000000)
	}
	h.Ms = []int{0, 1, 9, 10, 99, 100, 999, rng.Intn(1000), rng.Intn(1000)}[rng.Intn(9)]
	switch rng.Intn(4) {
	case 0:
		h.Seq = []uint32{0, 1, 0xFFFFFFFF, 0xFFFFFFFE, 1 << 31, 1<<31 - 1}[rng.Intn(6)]
	default:
		h.Seq = rng.Uint32()
	}
	if rng.Intn(3) == 0 {
		h.Body = randValue(rng, false) + " " + c04Bodies[rng.Intn(len(c04Bodies))]
	} else {
		h.Body = c04Bodies[rng.Intn(len(c04Bodies))]
	}
	h.Name = auparse.AuditMessageType(typ).String()
	if rng.Intn(6) == 0 {
		h.Name = strings.ToLower(h.Name)
	}
	line := fmt.Sprintf("type=%s msg=audit(%d.%03d:%d): %s", h.Name, h.Sec, h.Ms, h.Seq, h.Body)
	if rng.Intn(5) == 0 {
		// white space around the text after msg= (it is trimmed), with bodies shorter than the padding
		pad := ""
		for k := 1 + rng.Intn(9); k > 0; k-- {
			pad += []string{" ", " ", "\t"}[rng.Intn(3)]
		}
		h.Body = []string{"", "", "a", "a=b", ":", " ", h.Body}[rng.Intn(7)]
		tail := []string{"", "", " ", "  \t", "\n"}[rng.Intn(5)]
		line = fmt.Sprintf("type=%s msg=%saudit(%d.%03d:%d):%s%s", h.Name, pad, h.Sec, h.Ms, h.Seq, []string{" ", ""}[rng.Intn(2)]+h.Body, tail)
	}
	c := mkACase("line", 0, line)
	c.Hdr = h
	return c
}

// corrupt makes the header of a well-formed line invalid: truncation before ')' or a digit
// replaced by a non-digit, a separator removed.
// typeTokenSoup: record type tokens around the UNKNOWN[n] syntax and the name table.
func typeTokenSoup(rng *rand.Rand) string {
	fixed := []string{"UNKNOWN[", "UNKNOWN]", "UNKNOWN]1329[", "][", "]1[", "UNKNOWN[1", "UNKNOWN[]", "UNKNOWN[x]", "UNKNOWN[-1]", "UNKNOWN[65535]",
		"UNKNOWN[65536]", "UNKNOWN[99999999999999999999]", "[1300]", "SYSCALL] [1300]", "unknown[5]", "Unknown[5]", "UNKNOWN[5]]", "UNKNOWN[[5]", "UNKNOWN[5][6]",
		"UNKNOWN[ 5]", "UNKNOWN[+5]", "UNKNOWN[0x5]", "UNKNOWN[05]", "syscall", "Syscall", "SYSCALL", "", "[", "]", "[]", "UNKNOWN", "1300"}
	if rng.Intn(2) == 0 {
		return fixed[rng.Intn(len(fixed))]
	}
	alphabet := []string{"[", "]", "UNKNOWN", "unknown", "1", "1300", "65536", "-", " ", "SYSCALL", "\x00", "\xff"}
	var b strings.Builder
	for n := 1 + rng.Intn(5); n > 0; n-- {
		b.WriteString(alphabet[rng.Intn(len(alphabet))])
	}
	return b.String()
}

// headerNumberLadder: each of the three numbers of the header at and around the limits of the integer types a
// parser may accumulate them in (2^31, 2^32, 2^63, 2^64, 2^64+k, 2^96, 2^128 …), with leading zeros and with more
// digits than any machine integer has. The seconds and milliseconds are int64, the sequence is uint32: a value that
// does not fit is a malformed header (error, no message) — in particular one that would fit after wrapping round.
func headerNumberLadder() []ACase {
	pow := func(e uint) *big.Int { return new(big.Int).Lsh(big.NewInt(1), e) }
	var vals []*big.Int
	for _, e := range []uint{8, 16, 31, 32, 33, 53, 63, 64, 65, 96, 127, 128, 129, 256} {
		for _, d := range []int64{-2, -1, 0, 1, 2, 5, 1000, 4294967295, 4294967296} {
			v := new(big.Int).Add(pow(e), big.NewInt(d))
			vals = append(vals, v)
		}
	}
	for _, d := range []string{"9999999999", "99999999999999999999", "10000000000000000000", "18446744073709551615", "18446744073709551616",
		"18446744073709551621", "36893488147419103237", "340282366920938463463374607431768211461", "100000000000000000000000000000000000005"} {
		v, _ := new(big.Int).SetString(d, 10)
		vals = append(vals, v)
	}
	maxI64 := new(big.Int).SetUint64(1<<63 - 1)
	maxU32 := big.NewInt(4294967295)
	var out []ACase
	for _, v := range vals {
		for _, zeros := range []int{0, 1, 12} {
			t := strings.Repeat("0", zeros) + v.String()
			for pos := 0; pos < 3; pos++ {
				hdr := [3]string{"1490137971", "011", "50406"}
				hdr[pos] = t
				bad := (pos < 2 && v.Cmp(maxI64) > 0) || (pos == 2 && v.Cmp(maxU32) > 0)
				text := "audit(" + hdr[0] + "." + hdr[1] + ":" + hdr[2] + "): a=b"
				c := mkACase("data", 1300, text)
				c.Bad = bad
				c.Note = "header-number-ladder"
				out = append(out, c)
				l := mkACase("line", 0, "type=SYSCALL msg="+text)
				l.Bad = bad
				l.Note = "header-number-ladder"
				out = append(out, l)
			}
		}
	}
	return out
}

// caseLengthNames: record-type names with letters whose upper- or lower-case form has another length in UTF-8 than the
// letter itself (ı ſ ι-with-prosgegrammeni Ɐ-family …), alone and around the `[n]` of an UNKNOWN[n] name: whatever the
// parser does with the case of a name, it answers with a message or an error.
func caseLengthNames() []ACase {
	letters := []string{"\u0131", "\u017f", "\u1fbe", "\u2c65", "\u2c66", "\u0250", "\u0251", "\u0271", "\u027d", "\u023a", "\u023e", "\u2c6f", "\u00df", "\u0149", "\u01f0", "\u0390", "\ufb00", "\u212a", "\u2126", "\u1e9e", "\u0130"}
	var out []ACase
	for _, l := range letters {
		for _, k := range []int{1, 2, 3, 5, 8} {
			for _, suf := range []string{"", "[1]", "[12345]", "[]", "[", "]", "[1", "1]"} {
				for _, pre := range []string{"", "UNKNOWN", "unknown", "SYSCALL"} {
					name := pre + strings.Repeat(l, k) + suf
					c := mkACase("line", 0, "type="+name+" msg=audit(1.000:1): a=b")
					c.Note = "case-length-name"
					out = append(out, c)
				}
			}
		}
		for _, name := range []string{"UNKNOWN[" + l + "]", "unknown[1" + l + "]", l + "UNKNOWN[1]", "UNKNOWN" + l + "[1300]", "U" + l + "NKNOWN[1]"} {
			c := mkACase("line", 0, "type="+name+" msg=audit(1.000:1): a=b")
			c.Note = "case-length-name"
			out = append(out, c)
		}
	}
	return out
}

func corruptC04(rng *rand.Rand, c ACase) ACase {
	line := c.input()
	// the body must not be able to repair the header: use one without ( ) . :
	// (the padded variants of genC04 have no blank after "):", so cut at "):" itself)
	if j := strings.Index(line, "):"); j >= 0 {
		line = line[:j+2] + " " + []string{"", "a=b x=1", "pid=7 comm=\"x\""}[rng.Intn(3)]
	}
	i := strings.Index(line, "msg=") + 4
	end := strings.Index(line[i:], ")") + i
	hdr := []byte(line[i : end+1]) // audit(S.mmm:N)
	switch rng.Intn(6) {
	case 5: // the 'type=NAME ' prefix is damaged: 'msg=' moves to a small offset (0..8) or the name is cut
		rest := line[i-4:] // "msg=audit(...): body"
		pre := []string{"", "t", "ty", "typ", "type", "type=", "type =", "type= ", "CALL ", "type ", "=====", "type=S", "type=SY", "type=1 ", "ype=SYSCALL ", "type=SYSCALL"}[rng.Intn(16)]
		out := mkACase("line", 0, pre+rest)
		out.Bad = true
		return out
	case 0: // truncate somewhere before ')', dropping the rest of the line
		cut := rng.Intn(len(hdr) - 1)
		out := mkACase("line", 0, line[:i]+string(hdr[:cut]))
		out.Bad = true
		// a truncation may leave "audit(1.0:3" followed by nothing: still no ')'
		return out
	case 1: // a digit becomes a letter
		var digits []int
		for k, b := range hdr {
			if b >= '0' && b <= '9' {
				digits = append(digits, k)
			}
		}
		hdr[digits[rng.Intn(len(digits))]] = "xX _,e"[rng.Intn(6)] // (a sign in front of seconds/milliseconds is accepted by strconv, so no signs here)
	case 2: // remove one of the separators
		seps := []byte{'(', '.', ':', ')'}
		s := seps[rng.Intn(4)]
		k := strings.IndexByte(string(hdr), s)
		hdr = append(hdr[:k], hdr[k+1:]...)
		if s == ')' {
			// the body may contain another ')': make sure it cannot complete the header
			out := mkACase("line", 0, line[:i]+string(hdr))
			out.Bad = true
			return out
		}
		if s == '.' || s == ':' || s == '(' {
			// the body may contain the missing separator later; then the numbers cannot parse anyway
		}
	case 3: // sequence out of uint32 range
		k := strings.IndexByte(string(hdr), ':')
		hdr = []byte(string(hdr[:k+1]) + []string{"4294967296", "99999999999", "-1", "", "+5", "1_0", "0x10"}[rng.Intn(7)] + ")")
	case 4: // empty seconds or milliseconds
		if rng.Intn(2) == 0 {
			k := strings.IndexByte(string(hdr), '.')
			hdr = append([]byte("audit("), hdr[k:]...)
		} else {
			k, k2 := strings.IndexByte(string(hdr), '.'), strings.IndexByte(string(hdr), ':')
			hdr = append(append([]byte{}, hdr[:k+1]...), hdr[k2:]...)
		}
	}
	out := mkACase("line", 0, line[:i]+string(hdr)+line[end+1:])
	out.Bad = true
	return out
}

// pushStream collects what a Reassembler delivers.
type pushStream struct{ msgs []*auparse.AuditMessage }

func (s *pushStream) ReassemblyComplete(msgs []*auparse.AuditMessage) {
	s.msgs = append(s.msgs, msgs...)
}
func (s *pushStream) EventsLost(int) {}

// c04PushEntry: the third way into the header parser. Reassembler.Push(type, bytes) parses the record itself and, as
// documented, copies what it needs: the caller's buffer is the caller's again when Push returns (a receive loop reads
// the next datagram into it). The record is pushed, the buffer overwritten, the Reassembler closed; the message that
// comes out must carry the header that was written.
func c04PushEntry(c ACase) string {
	h := c.Hdr
	if h == nil || c.Bad || h.Typ == 1320 {
		return ""
	}
	line := c.input()
	buf := []byte(line[strings.Index(line, "msg=")+4:])
	raw := strings.TrimSpace(string(buf))
	st := &pushStream{}
	r, err := libaudit.NewReassembler(5, time.Hour, st)
	if err != nil {
		return ""
	}
	if err := r.Push(auparse.AuditMessageType(h.Typ), buf); err != nil {
		r.Close()
		return "C04: Reassembler.Push rejects a well-formed record: " + err.Error()
	}
	for i := range buf {
		buf[i] = 'X'
	}
	r.Close()
	if len(st.msgs) != 1 {
		return fmt.Sprintf("C04: Reassembler.Push of one record followed by Close delivered %d messages", len(st.msgs))
	}
	m := st.msgs[0]
	want := time.Unix(h.Sec, int64(h.Ms)*int64(time.Millisecond)).UTC()
	if int(m.RecordType) != h.Typ || !m.Timestamp.Equal(want) || m.Sequence != h.Seq {
		return fmt.Sprintf("C04: the message delivered for a record given to Reassembler.Push has type %d, time %v, sequence %d; written: %d, %d.%03d, %d", m.RecordType, m.Timestamp, m.Sequence, h.Typ, h.Sec, h.Ms, h.Seq)
	}
	if m.RawData != raw {
		return fmt.Sprintf("C04: the message delivered for a record given to Reassembler.Push has RawData %q after the caller reused its buffer; pushed: %q", m.RawData, raw)
	}
	if ms := m.ToMapStr(); ms["raw_msg"] != raw || ms["sequence"] != strconv.FormatUint(uint64(h.Seq), 10) {
		return fmt.Sprintf("C04: ToMapStr of the message delivered for a record given to Reassembler.Push reports raw_msg=%q sequence=%v after the caller reused its buffer", ms["raw_msg"], ms["sequence"])
	}
	return ""
}

func c04Monitor(c ACase, o aObs) string {
	if c.Bad {
		if o.Err == nil {
			return "C04: a line with a malformed header was accepted"
		}
		if o.Msg != nil {
			return "C04: a message was returned together with an error"
		}
		return ""
	}
	h := c.Hdr
	if h == nil {
		return ""
	}
	if o.Err != nil {
		return "C04: well-formed line rejected: " + o.Err.Error()
	}
	m := o.Msg
	if int(m.RecordType) != h.Typ {
		return fmt.Sprintf("C04: RecordType %d, written %d (%s)", m.RecordType, h.Typ, h.Name)
	}
	want := time.Unix(h.Sec, int64(h.Ms)*int64(time.Millisecond)).UTC()
	if !m.Timestamp.Equal(want) || m.Timestamp.Location() != time.UTC {
		return fmt.Sprintf("C04: Timestamp %v, written %d.%03d", m.Timestamp, h.Sec, h.Ms)
	}
	if m.Sequence != h.Seq {
		return fmt.Sprintf("C04: Sequence %d, written %d", m.Sequence, h.Seq)
	}
	line := c.input()
	raw := strings.TrimSpace(line[strings.Index(line, "msg=")+4:])
	if m.RawData != raw {
		return fmt.Sprintf("C04: RawData %q, expected the trimmed text after msg= %q", m.RawData, raw)
	}
	// Parse agrees with ParseLogLine
	m2, err := auparse.Parse(auparse.AuditMessageType(h.Typ), line[strings.Index(line, "msg=")+4:])
	if err != nil || m2.RecordType != m.RecordType || !m2.Timestamp.Equal(m.Timestamp) || m2.Sequence != m.Sequence || m2.RawData != m.RawData {
		return "C04: Parse and ParseLogLine disagree on the same record"
	}
	// ToMapStr: header wins over body fields
	ms := m.ToMapStr()
	if ms["record_type"] != auparse.AuditMessageType(h.Typ).String() {
		return fmt.Sprintf("C04: ToMapStr record_type=%v", ms["record_type"])
	}
	if ms["sequence"] != strconv.FormatUint(uint64(h.Seq), 10) {
		return fmt.Sprintf("C04: ToMapStr sequence=%v, header has %d", ms["sequence"], h.Seq)
	}
	if ms["raw_msg"] != raw {
		return fmt.Sprintf("C04: ToMapStr raw_msg=%v", ms["raw_msg"])
	}
	if ms["@timestamp"] != want.String() {
		return fmt.Sprintf("C04: ToMapStr @timestamp=%v, header has %v", ms["@timestamp"], want)
	}
	// "always": also after a consumer has edited the map it was handed
	delete(ms, "raw_msg")
	ms["sequence"] = 0
	ms["record_type"] = "edited"
	delete(ms, "@timestamp")
	ms2 := m.ToMapStr()
	if ms2["record_type"] != auparse.AuditMessageType(h.Typ).String() || ms2["sequence"] != strconv.FormatUint(uint64(h.Seq), 10) || ms2["raw_msg"] != raw || ms2["@timestamp"] != want.String() {
		return fmt.Sprintf("C04: ToMapStr, called again after the caller edited the map it was given, reports record_type=%v sequence=%v @timestamp=%v raw_msg present=%v", ms2["record_type"], ms2["sequence"], ms2["@timestamp"], ms2["raw_msg"] != nil)
	}
	return ""
}

// ---- C05 mutation stream ---------------------------------------------------------------------------

var c05Dict = []string{"\x1dARCH=x86_64 SYSCALL=open", "\x1d", "node=", "node=h ", "msg=", "type=", "audit(", "):", " ", "=", "\"", "'", "\\\"", "\\'", "avc:", " denied ", "{ ", " } for ", "old ", "new ", " (hostname=", ")'", "saddr=", "argc=", "a0=", "a1=",
	"arch=", "syscall=", "success=", "res=", "exit=", "key=", "subj=", "obj=", "proctitle=", "cmd=", "data=", "cwd=", "exe=", "name=", "acct=", "sig=", "auid=", "ses=", "old-auid=", "4294967295", "-1", "?", "?,", "(null)",
	"0200", "0A00", "0100", "1000", "c000003e", "40000003", "FFFFFFFF", "00", "\x00", "\x01", ":", "::", " ", " ", "\xff", "-9223372036854775808", "9223372036854775807", "99999999999999999999"}

func loadCorpusLines() []string {
	var lines []string
	for _, pat := range []string{"auparse/testdata/*.log", "testdata/*.log", "aucoalesce/testdata/*.yaml"} {
		fs, _ := filepath.Glob(filepath.Join(repoDir(), pat))
		for _, f := range fs {
			fh, err := os.Open(f)
			if err != nil {
				continue
			}
			sc := bufio.NewScanner(fh)
			sc.Buffer(make([]byte, 1<<20), 1<<20)
			for sc.Scan() {
				l := strings.TrimSpace(sc.Text())
				if i := strings.Index(l, "type="); i >= 0 && strings.Contains(l, "msg=audit(") {
					lines = append(lines, l[i:])
				}
			}
			fh.Close()
		}
	}
	sort.Strings(lines)
	return lines
}

func mutate(rng *rand.Rand, s string, other string) string {
	b := []byte(s)
	for n := 1 + rng.Intn(3); n > 0; n-- {
		if len(b) == 0 {
			b = []byte(c05Dict[rng.Intn(len(c05Dict))])
			continue
		}
		switch rng.Intn(8) {
		case 0: // truncate
			b = b[:rng.Intn(len(b)+1)]
		case 1: // flip a byte
			b[rng.Intn(len(b))] = byte(rng.Intn(256))
		case 2: // insert dictionary token
			i := rng.Intn(len(b) + 1)
			b = append(b[:i], append([]byte(c05Dict[rng.Intn(len(c05Dict))]), b[i:]...)...)
		case 3: // delete a span
			i := rng.Intn(len(b))
			j := i + rng.Intn(min(len(b)-i, 12)+1)
			b = append(b[:i], b[j:]...)
		case 4: // splice with another line
			i := rng.Intn(len(b) + 1)
			j := rng.Intn(len(other) + 1)
			b = append(b[:i], other[j:]...)
		case 5: // duplicate a span
			i := rng.Intn(len(b))
			j := i + rng.Intn(min(len(b)-i, 20)+1)
			b = append(b[:j], append(append([]byte{}, b[i:j]...), b[j:]...)...)
		case 6: // replace a value after '='
			if i := strings.IndexByte(string(b[rng.Intn(len(b)):]), '='); i >= 0 {
				i += 1
				if i < len(b) {
					b = append(b[:i], append([]byte(c05Dict[rng.Intn(len(c05Dict))]), b[i:]...)...)
				}
			}
		case 7: // remove the drop point: cut the head
			b = b[rng.Intn(len(b)):]
		}
	}
	return string(b)
}

var interestingTypes = []int{1300, 1326, 1306, 1309, 1400, 1006, 1302, 1327, 1123, 1319, 1124, 1112, 1104, 1105, 1106, 1307, 1100, 0, 65535, 1320, 1305}

// ---- family -------------------------------------------------------------------------------------------

func auparseFamily(ctx *Ctx) error {
	res := ctx.Res
	m, err := common.StartModel()
	if err != nil {
		return err
	}
	defer m.Close()
	res.Assumptions = append(res.Assumptions,
		"regexp (RE2), strconv, strings, time, net.IP.String, unix.SignalName behave as documented; the three regular expressions are modelled by hand-written leftmost-first matchers",
		"fidelity domain of the model: ASCII record type names; AVC messages ASCII without newline (others are counted as unmodelled, still monitored)")

	if ctx.Replay != "" {
		b, err := os.ReadFile(ctx.Replay)
		if err != nil {
			return err
		}
		var rpa struct {
			Input []ACase `json:"input"`
		}
		if json.Unmarshal(b, &rpa) == nil && len(rpa.Input) > 0 {
			// a history: the first record's results are looked at again after the later ones were parsed
			var first aObs
			for i, c := range rpa.Input {
				o := runAImpl(c)
				if i == 0 {
					first = o
				}
				fmt.Printf("parsed %d: %q\n", i, c.input())
			}
			if first.Msg != nil {
				d, e := first.Msg.Data()
				tg, _ := first.Msg.Tags()
				fmt.Printf("first result at the time : %s\nthe map it handed out now : %s\nData()/Tags() again        : %s\n", first.Out, renderAData(first.Data, first.Tags, first.DErr), renderAData(d, tg, e))
			}
			return nil
		}
		var rp struct {
			Input ACase `json:"input"`
		}
		if err := json.Unmarshal(b, &rp); err != nil {
			return err
		}
		o := runAImpl(rp.Input)
		rep, _ := m.Ask1(aModelLine(rp.Input))
		fmt.Printf("input: %q\nimpl : %s\nmodel: %s\npanic: %s\nC04: %s\nC04 through Reassembler.Push: %s\nC12: %s\n", rp.Input.input(), o.Out, rep, o.Panic, c04Monitor(rp.Input, o), c04PushEntry(rp.Input), c12Monitor(rp.Input, o))
		return nil
	}

	// first use under concurrency: before anything has been parsed in this process, sixteen goroutines parse and
	// render different records (named and unnamed record types, hex and quoted values) at the same time. Whatever the
	// library initialises or memoises lazily is then first touched concurrently; a fatal runtime error ends the
	// process and is reported by ./check with the journalled block and the goroutine stacks.
	{
		guardEnter(map[string]string{"block": "first use from 16 goroutines: ParseLogLine, Parse, Data, Tags, ToMapStr on different records"})
		var wg sync.WaitGroup
		errs := make(chan string, 16)
		for g := 0; g < 16; g++ {
			wg.Add(1)
			go func(g int) {
				defer wg.Done()
				defer func() {
					if r := recover(); r != nil {
						errs <- fmt.Sprint(r)
					}
				}()
				for i := 0; i < 400; i++ {
					typ := []int{1300, 1309, 1306, 1327, 1400, 1112, 3000 + g*500 + i, 20000 + g*1000 + i, 900 + g, 1307}[i%10]
					line := fmt.Sprintf("type=%s msg=audit(1500000%03d.%03d:%d): arch=c000003e syscall=%d success=yes exit=0 a0=%x argc=2 a1=%s a2=\"x\" saddr=0200%04X0A000001 proctitle=%s cwd=\"/w%d\" key=%s uid=%d",
						auparse.AuditMessageType(typ).String(), g, i, g*1000+i, (g*37+i)%330, i, hexUp([]byte(fmt.Sprintf("arg %d of %d", i, g))), i, hexUp([]byte(fmt.Sprintf("p%d\x00q", g))), g, hexUp([]byte(fmt.Sprintf("k%d\x01k", i))), g)
					if m, err := auparse.ParseLogLine(line); err == nil {
						m.Data()
						m.Tags()
						m.ToMapStr()
					}
					if m, err := auparse.Parse(auparse.AuditMessageType(typ), line[strings.Index(line, "audit("):]); err == nil {
						m.ToMapStr()
					}
				}
			}(g)
		}
		wg.Wait()
		guardLeave()
		select {
		case e := <-errs:
			res.Violate(common.Violation{Kind: "monitor", Clause: "C05: panic during the first, concurrent use of the parser: " + e, Input: "first use from 16 goroutines"})
		default:
		}
		res.Hist("concurrent first use")
	}

	type pending struct {
		c ACase
		o aObs
		i int
	}
	var batch []pending
	idx := 0
	flush := func() error {
		if len(batch) == 0 {
			return nil
		}
		lines := make([]string, len(batch))
		for i, p := range batch {
			lines[i] = aModelLine(p.c)
		}
		rep, err := m.Ask(lines)
		if err != nil {
			return err
		}
		for i, p := range batch {
			res.ModelLines++
			if strings.HasPrefix(rep[i], "unmodelled") {
				res.Unmodelled++
				continue
			}
			if rep[i] != p.o.Out && p.o.Panic == "" {
				res.Violate(common.Violation{Kind: "correspondence", Clause: "Model.Auparse disagrees with auparse (" + p.c.Kind + ")", Input: p.c, Impl: p.o.Out, Model: rep[i], Case: p.i})
			}
		}
		batch = batch[:0]
		return nil
	}
	// results stay the caller's: what an earlier message reported (the map and tags it handed out, and what it answers
	// when asked again) is looked at once more after six later records have gone through the parser
	type keptA struct {
		c ACase
		o aObs
	}
	var ring []keptA
	retainedA := func(o keptA, later []keptA) {
		cl := ""
		if got := renderAData(o.o.Data, o.o.Tags, o.o.DErr); got != o.o.Out {
			cl = "C05: the data a message handed out changed after later records were parsed: now " + got
		} else if idx%3 == 0 {
			d, e := o.o.Msg.Data()
			tg, _ := o.o.Msg.Tags()
			if got := renderAData(d, tg, e); got != o.o.Out {
				cl = "C05: repeated Data/Tags on an earlier message return a different result after later records were parsed: " + got
			}
		}
		if cl != "" {
			hist := []ACase{o.c}
			for _, l := range later {
				hist = append(hist, l.c)
			}
			if ctx.Prop == "C05" {
				res.Violate(common.Violation{Kind: "monitor", Clause: cl, Input: hist, Impl: o.o.Out, Case: idx})
			} else {
				res.Hist("sibling_clause_failed")
				res.Violate(common.Violation{Kind: "correspondence", Clause: "an earlier result of the implementation changed; the model's values are immutable", Input: hist, Impl: o.o.Out, Note: "on this input a clause of a sibling property fails: " + cl, Case: idx})
			}
		}
	}
	keepA := func(c ACase, o aObs) {
		if c.Kind != "data" || o.Msg == nil || o.Err != nil || o.Panic != "" {
			return
		}
		ring = append(ring, keptA{c, o})
		if len(ring) > 6 {
			retainedA(ring[0], ring[1:])
			ring = ring[1:]
		}
	}
	run := func(c ACase, toModel bool, nontrivial bool, tag string) {
		o := runAImpl(c)
		keepA(c, o)
		res.Count(c.Kind+strconv.Itoa(c.Typ)+c.Hex, nontrivial)
		res.Hist(tag)
		if o.Slow {
			res.Violate(common.Violation{Kind: "monitor", Clause: "C05: no result within 20 s (hang)", Input: c, Case: idx})
			return
		}
		if o.Panic != "" {
			// C05's clauses (panic, repeated calls differ) are monitor violations of C05; under C04/C12
			// a panic on one of their own well-formed inputs is reported as their clause
			cl := "C05: panic: " + o.Panic
			if strings.HasPrefix(o.Panic, "repeated") || strings.HasPrefix(o.Panic, "message returned") {
				cl = "C05: " + o.Panic
			}
			switch {
			case ctx.Prop == "C05":
				res.Violate(common.Violation{Kind: "monitor", Clause: cl, Input: c, Impl: o.Out, Case: idx})
			case ctx.Prop == "C04" && c.Hdr != nil && !c.Bad && !strings.HasPrefix(o.Panic, "repeated"):
				res.Violate(common.Violation{Kind: "monitor", Clause: "C04: no message for a well-formed line: the parser panicked: " + o.Panic, Input: c, Impl: o.Out, Case: idx})
			case ctx.Prop == "C04" && c.Bad && !strings.HasPrefix(o.Panic, "repeated"):
				res.Violate(common.Violation{Kind: "monitor", Clause: "C04: a malformed header must yield an error and no message; the parser panicked: " + o.Panic, Input: c, Impl: o.Out, Case: idx})
			case ctx.Prop == "C12" && c.Expect != nil && !strings.HasPrefix(o.Panic, "repeated"):
				res.Violate(common.Violation{Kind: "monitor", Clause: "C12: Data() panicked on a kernel-formatted record: " + o.Panic, Input: c, Impl: o.Out, Case: idx})
			default:
				res.Hist("sibling_clause_failed")
				res.Violate(common.Violation{Kind: "correspondence", Clause: "the implementation panicked where the model returns a result (" + c.Kind + ")", Input: c, Impl: "panic", Note: "on this input a clause of a sibling property fails: " + cl, Case: idx})
			}
			idx++
			return
		}
		if o.Err != nil {
			res.Hist("result:" + errClass(o.Err))
		} else if o.DErr != nil {
			res.Hist("result:data-" + strings.SplitN(errClass(o.DErr), ":", 2)[0])
		} else {
			res.Hist("result:ok")
		}
		if cl := c04Monitor(c, o); cl != "" {
			res.Violate(common.Violation{Kind: "monitor", Clause: cl, Input: c, Impl: o.Out, Case: idx})
		}
		if ctx.Prop == "C12" && c.Kind == "data" && c.Expect != nil && o.Err == nil && o.Panic == "" && idx%4 == 0 {
			// the other way to make a message: the exported fields set directly (a record that reached the program
			// by another route than a log line or a netlink buffer). Its Data() is that of the parsed message.
			in := c.input()
			if i := strings.Index(in, "): "); i >= 0 && strings.HasPrefix(in, "audit(") && !strings.Contains(in[:i], " ") {
				lit := &auparse.AuditMessage{RecordType: auparse.AuditMessageType(c.Typ), RawData: in[i+3:]}
				func() {
					defer func() {
						if r := recover(); r != nil {
							res.Violate(common.Violation{Kind: "monitor", Clause: fmt.Sprintf("C12: Data() of a message made by setting RecordType and RawData panicked: %v", r), Input: c, Impl: o.Out, Case: idx})
						}
					}()
					d, err := lit.Data()
					tg, _ := lit.Tags()
					if got := renderAData(d, tg, err); got != o.Out {
						res.Violate(common.Violation{Kind: "monitor", Clause: "C12: a message made by setting RecordType and RawData to the record's text decodes differently from the same record parsed: " + got, Input: c, Impl: o.Out, Case: idx})
					}
				}()
				res.Hist("message made from its fields")
			}
		}
		if ctx.Prop == "C04" && idx%4 == 0 {
			if cl := c04PushEntry(c); cl != "" {
				res.Violate(common.Violation{Kind: "monitor", Clause: cl, Input: c, Impl: o.Out, Case: idx})
			}
			res.Hist("through Reassembler.Push")
		}
		if cl := c12Monitor(c, o); cl != "" {
			res.Violate(common.Violation{Kind: "monitor", Clause: cl, Input: c, Impl: o.Out, Case: idx})
		}
		if toModel && c.Kind == "data" && idx%3 == 0 {
			// the same record through ToMapStr (well-known keys over body fields)
			mc := c
			mc.Kind = "mapstr"
			batch = append(batch, pending{mc, runAImpl(mc), idx})
		}
		if toModel {
			batch = append(batch, pending{c, o, idx})
			if len(batch) >= 500 {
				if err := flush(); err != nil {
					res.Note("model driver: %v", err)
				}
			}
		}
		idx++
	}

	// corpus first
	for _, dir := range []string{"auparse", ctx.Prop} {
		for _, f := range ctx.CorpusFiles(dir) {
			b, err := os.ReadFile(f)
			if err != nil {
				return err
			}
			var cs []ACase
			if err := json.Unmarshal(b, &cs); err != nil {
				return fmt.Errorf("%s: %w", f, err)
			}
			for _, c := range cs {
				run(c, true, true, "corpus")
			}
		}
	}
	lines := loadCorpusLines()
	res.HistN("testdata_lines", len(lines))

	switch ctx.Prop {
	case "C04":
		res.Rule = "lines 'type=T msg=audit(S.mmm:N): body' for every named record type and a sample of the others (thorough: all 65536), boundary seconds/milliseconds/sequences, bodies containing msg=, ')', ':', '(' , '.', the well-known key names and Unicode space; plus truncations/corruptions of such headers. Non-trivial = body non-empty or boundary value or corrupted header; distinct by input bytes."
		for _, c := range headerNumberLadder() {
			run(c, true, true, "header-number-ladder")
		}
		for _, c := range caseLengthNames() {
			run(c, false, true, "case-length-name")
		}
		var types []int
		for t := 0; t < 65536; t++ {
			name := auparse.AuditMessageType(t).String()
			if !strings.HasPrefix(name, "UNKNOWN[") || ctx.Thorough() || ctx.Rng.Intn(30) == 0 {
				types = append(types, t)
			}
		}
		per := ctx.N(8, 24)
		for _, t := range types {
			for k := 0; k < per && res.NumViolations() < 5; k++ {
				c := genC04(ctx.Rng, t)
				if idx < 3 {
					res.Sample(c)
				}
				run(c, k < 2, true, "wellformed")
				if k < 2 {
					line := c.input()
					mc := mkACase("mapstr", t, line[strings.Index(line, "msg=")+4:])
					batch = append(batch, pending{mc, runAImpl(mc), idx})
				}
				if k%2 == 0 {
					run(corruptC04(ctx.Rng, c), k < 2, true, "corrupted")
				}
			}
		}
		// sizes a generated line does not reach by chance
		for _, n := range []int{255, 256, 257, 1023, 1024, 1025, 4095, 4096, 4097, 65536} {
			for _, shape := range []int{0, 1, 2, 3} {
				h := &AHdr{Typ: 1300, Sec: 1500000000, Ms: 7, Seq: 4242, Name: "SYSCALL"}
				var line string
				switch shape {
				case 0: // long body
					h.Body = "a=" + strings.Repeat("v", n) + " msg=audit(1.000:1): x"
					line = fmt.Sprintf("type=%s msg=audit(%d.%03d:%d): %s", h.Name, h.Sec, h.Ms, h.Seq, h.Body)
				case 1: // long padding after msg=, short body
					h.Body = "a=b"
					line = fmt.Sprintf("type=%s msg=%saudit(%d.%03d:%d): %s", h.Name, strings.Repeat(" ", n), h.Sec, h.Ms, h.Seq, h.Body)
				case 2: // long trailing white space
					h.Body = "a=b"
					line = fmt.Sprintf("type=%s msg=audit(%d.%03d:%d): %s%s", h.Name, h.Sec, h.Ms, h.Seq, h.Body, strings.Repeat(" \t", n/2))
				case 3: // many fields
					var b strings.Builder
					for i := 0; i < n && i < 5000; i++ {
						fmt.Fprintf(&b, "k%d=%d ", i, i)
					}
					h.Body = strings.TrimSpace(b.String())
					line = fmt.Sprintf("type=%s msg=audit(%d.%03d:%d): %s", h.Name, h.Sec, h.Ms, h.Seq, h.Body)
				}
				c := mkACase("line", 0, line)
				c.Hdr = h
				run(c, n <= 4097, true, "size-ladder")
			}
		}
	case "C12":
		res.Rule = "records rendered the way the kernel writes them (safe strings quoted, unsafe ones upper-case hex, sockaddr as hex of struct sockaddr) for SYSCALL, PATH, CWD, EXECVE, SOCKADDR (IPv4/IPv6/unix), PROCTITLE, USER_CMD, TTY/USER_TTY, USER_LOGIN and other types, values over all bytes 0x01-0xFF with quotes, '=', spaces, backslashes placed at start/middle/end (inside the property's domain), every arch/syscall/errno table entry; Data() compared with the generator's plaintext and with the model. Non-trivial = every generated record (each has at least one encoded field); distinct by input bytes."
		// exhaustive over the tables first: every (arch, syscall), every errno
		for an, tbl := range auparse.AuditSyscalls {
			var code uint32
			found := false
			for c, n := range auparse.AuditArchNames {
				if n == an {
					code, found = uint32(c), true
				}
			}
			if !found {
				continue
			}
			nums := make([]int, 0, len(tbl))
			for n := range tbl {
				nums = append(nums, n)
			}
			sort.Ints(nums)
			for _, n := range nums {
				c := mkACase("data", 1300, fmt.Sprintf("audit(1.000:1): arch=%x syscall=%d success=yes exit=0 exe=\"/x\"", code, n))
				c.Expect = map[string]string{"arch": an, "syscall": tbl[n], "result": "success", "exit": "0", "exe": "/x"}
				run(c, n%7 == 0, true, "table:syscall")
			}
			// numbers that are a table entry with something added (the x32 bit 0x40000000, another bit, an offset;
			// within the kernel's int): they name nothing, the number is reported as it is
			for i, n := range nums {
				for k, d := range []int64{int64(n) | 0x40000000, int64(n) + 512, int64(n) + 1024, int64(n) + 4096, int64(n) | 0x20000000, -int64(n) - 1} {
					if _, named := tbl[int(d)]; (named && int64(int(d)) == d) || (i+k)%3 != 0 && !ctx.Thorough() {
						continue
					}
					c := mkACase("data", 1300, fmt.Sprintf("audit(1.000:1): arch=%x syscall=%d success=yes exit=0 exe=\"/x\"", code, d))
					c.Expect = map[string]string{"arch": an, "syscall": strconv.FormatInt(d, 10), "exe": "/x"}
					run(c, (i+k)%21 == 0, true, "table:syscall-derived")
				}
			}
		}
		for n, name := range auparse.AuditErrnoToName {
			c := mkACase("data", 1300, fmt.Sprintf("audit(1.000:1): arch=c000003e syscall=1 success=no exit=-%d exe=\"/x\"", n))
			c.Expect = map[string]string{"exit": name, "result": "fail"}
			run(c, true, true, "table:errno")
		}
		// sizes a generated record does not reach by chance
		for _, n := range []int{255, 256, 257, 1023, 1024, 1025, 4095, 4096, 4097} {
			v := strings.Repeat("p", n-1) + "q"
			un := "two words " + strings.Repeat("\xe9", n)
			nul := strings.Repeat("a", n/2) + "\x00" + strings.Repeat("b", n/2)
			c := mkACase("data", 1300, fmt.Sprintf("audit(1.000:1): arch=c000003e syscall=2 success=yes exit=0 exe=%q cwd=%s", v, hexUp([]byte(un))))
			c.Expect = map[string]string{"exe": v, "cwd": un, "syscall": "open"}
			run(c, true, true, "size-ladder")
			c = mkACase("data", 1327, "audit(1.000:1): proctitle="+hexUp([]byte(nul)))
			c.Expect = map[string]string{"proctitle": nulToSpace(nul)}
			run(c, true, true, "size-ladder")
			c = mkACase("data", 1123, fmt.Sprintf("audit(1.000:1): pid=1 uid=0 auid=0 ses=1 msg='cwd=%s cmd=%s terminal=pts/0 res=success'", hexUp([]byte(un)), hexUp([]byte(un+"x"))))
			c.Expect = map[string]string{"cwd": un, "cmd": un + "x"}
			run(c, true, true, "size-ladder")
			c = mkACase("data", 1306, "audit(1.000:1): saddr=0100"+hexUp([]byte("/"+strings.Repeat("s", n%100+1)))+"00")
			c.Expect = map[string]string{"family": "unix", "path": "/" + strings.Repeat("s", n%100+1)}
			run(c, true, true, "size-ladder")
			if n <= 1025 {
				var b strings.Builder
				exp := map[string]string{"argc": strconv.Itoa(n)}
				fmt.Fprintf(&b, "audit(1.000:1): argc=%d", n)
				for i := 0; i < n; i++ {
					if i%3 == 0 {
						fmt.Fprintf(&b, " a%d=%s", i, hexUp([]byte(fmt.Sprintf("arg %d", i))))
						exp[fmt.Sprintf("a%d", i)] = fmt.Sprintf("arg %d", i)
					} else {
						fmt.Fprintf(&b, " a%d=\"x%d\"", i, i)
						exp[fmt.Sprintf("a%d", i)] = fmt.Sprintf("x%d", i)
					}
				}
				c = mkACase("data", 1309, b.String())
				c.Expect = exp
				run(c, true, true, "size-ladder")
			}
		}
		n := ctx.N(40000, 800000)
		for i := 0; i < n && res.NumViolations() < 5; i++ {
			c := genC12(ctx.Rng)
			if i < 4 {
				res.Sample(c)
			}
			run(c, ctx.Thorough() && i%8 == 0 || !ctx.Thorough() && i%2 == 0, true, "kernel-encoded:"+auparse.AuditMessageType(c.Typ).String())
		}
	case "C05":
		res.Rule = "log lines from /repo's testdata mutated by splice/truncate/byte-flip/insert with a dictionary of the tokens the parser looks for, arbitrary bytes, and fixed lines under every decoded record type (thorough: all 65536); every case runs ParseLogLine or Parse+Data+Tags+ToMapStr twice under recover and a watchdog; a sample is also answered by the model. Non-trivial = the input parses past the header (Data() is reached) or is a mutated header; distinct by input bytes."
		for _, c := range headerNumberLadder() {
			run(c, true, true, "header-number-ladder")
		}
		for _, c := range caseLengthNames() {
			run(c, false, true, "case-length-name")
		}
		n := ctx.N(120000, 3000000)
		for i := 0; i < n && res.NumViolations() < 5; i++ {
			base := lines[ctx.Rng.Intn(len(lines))]
			other := lines[ctx.Rng.Intn(len(lines))]
			var c ACase
			toModel := i%10 == 0
			switch ctx.Rng.Intn(11) {
			case 10: // the record type token itself is damaged: bracket forms of UNKNOWN[n], case, junk
				c = mkACase("line", 0, "type="+typeTokenSoup(ctx.Rng)+" msg=audit(1.000:1): a=b")
			case 0, 1, 2: // mutated whole line
				c = mkACase("line", 0, mutate(ctx.Rng, base, other))
			case 3: // arbitrary bytes
				b := make([]byte, ctx.Rng.Intn(80))
				ctx.Rng.Read(b)
				if ctx.Rng.Intn(2) == 0 {
					c = mkACase("line", 0, "type=SYSCALL msg=audit(1.000:1): "+string(b))
				} else {
					c = mkACase("data", interestingTypes[ctx.Rng.Intn(len(interestingTypes))], "audit(1.000:1): "+string(b))
				}
			default: // body of a real record (or a mutation of it) under an interesting type
				body := base[strings.Index(base, "msg=")+4:]
				if ctx.Rng.Intn(4) > 0 {
					ob := other[strings.Index(other, "msg=")+4:]
					body = mutate(ctx.Rng, body, ob)
				}
				typ := interestingTypes[ctx.Rng.Intn(len(interestingTypes))]
				if ctx.Rng.Intn(3) == 0 {
					if t, err := auparse.GetAuditMessageType(base[5:strings.Index(base, " msg=")]); err == nil {
						typ = int(t)
					}
				}
				c = mkACase("data", typ, body)
			}
			if i < 3 {
				res.Sample(c)
			}
			run(c, toModel, true, "mutation:"+c.Kind)
		}
		for _, e := range c05EdgeRecords {
			for _, t := range interestingTypes {
				run(mkACase("data", t, "audit(1.000:1): "+e), true, true, "edge")
			}
		}
		// the AVC message grammar, systematically: every sequence of up to 4 (thorough: 5) fragments of an
		// SELinux AVC message, in and out of order, under AVC, USER_AVC and an unrelated type
		{
			frags := []string{"avc:  denied ", "{ read } for  ", "{ write", "} for ", "{", "}", " for  pid=1 ", "avc:", "x "}
			maxLen := 4
			if ctx.Thorough() {
				maxLen = 5
			}
			var rec func(prefix string, depth int)
			rec = func(prefix string, depth int) {
				if depth > 0 {
					for _, t := range []int{1400, 1107, 1300} {
						run(mkACase("data", t, "audit(1.000:1): "+prefix), true, true, "avc-grammar")
					}
				}
				if depth == maxLen || res.NumViolations() >= 5 {
					return
				}
				for _, f := range frags {
					rec(prefix+f, depth+1)
				}
			}
			rec("", 0)
		}
		// the key=value grammar and the header grammar, systematically (bounded exhaustive): every sequence of up
		// to 4 (thorough: 5) fragments, in and out of order
		{
			maxLen := 4
			if ctx.Thorough() {
				maxLen = 5
			}
			kv := []string{"a=", "b-1_x=", "\"", "'", "\\\"", "\\'", " ", "v", "="}
			var rec func(prefix string, depth int)
			rec = func(prefix string, depth int) {
				if depth > 0 {
					for _, t := range []int{1300, 1112, 1309} {
						run(mkACase("data", t, "audit(1.000:1): "+prefix), true, true, "kv-grammar")
					}
				}
				if depth == maxLen || res.NumViolations() >= 5 {
					return
				}
				for _, f := range kv {
					rec(prefix+f, depth+1)
				}
			}
			rec("", 0)
			hdr := []string{"type=SYSCALL ", "msg=", "audit(", "1.5", "12.345", ":", "7", ")", ": ", "a=b", " "}
			var rec2 func(prefix string, depth int)
			rec2 = func(prefix string, depth int) {
				if depth > 0 {
					run(mkACase("line", 0, prefix), true, true, "header-grammar")
					run(mkACase("data", 1300, prefix), true, true, "header-grammar")
				}
				if depth == maxLen || res.NumViolations() >= 5 {
					return
				}
				for _, f := range hdr {
					rec2(prefix+f, depth+1)
				}
			}
			rec2("", 0)
			// ... and behind a well-formed prefix, so that the later parts of the header are reached
			for _, pre := range []string{"type=SYSCALL msg=audit(", "type=SYSCALL msg=audit(1.5", "type=SYSCALL msg=audit(1.500:"} {
				var rec3 func(prefix string, depth int)
				rec3 = func(prefix string, depth int) {
					if depth > 0 {
						run(mkACase("line", 0, prefix), true, true, "header-grammar")
					}
					if depth == maxLen-1 || res.NumViolations() >= 5 {
						return
					}
					for _, f := range hdr[2:] {
						rec3(prefix+f, depth+1)
					}
				}
				rec3(pre, 0)
			}
		}
		// every (architecture, syscall) entry of the tables in a full SYSCALL record and in a SECCOMP record, with
		// small and with all-ones argument values: an entry that gets special treatment shows whichever it is
		for an, tbl := range auparse.AuditSyscalls {
			for code, n := range auparse.AuditArchNames {
				if n != an {
					continue
				}
				for num := range tbl {
					for _, a0 := range []string{"1", "15", "ffffffffffffffff"} {
						run(mkACase("data", 1300, fmt.Sprintf("audit(1.000:1): arch=%x syscall=%d success=no exit=-22 a0=%s a1=%s a2=0 a3=7ffd items=0 ppid=1 pid=2 auid=0 uid=0 gid=0 tty=pts0 ses=1 comm=\"x\" exe=\"/x\" key=(null)", uint32(code), num, a0, a0)), false, true, "table:syscall-args")
					}
					run(mkACase("data", 1326, fmt.Sprintf("audit(1.000:1): auid=0 uid=0 gid=0 ses=1 pid=2 comm=\"x\" exe=\"/x\" sig=31 arch=%x syscall=%d compat=0 ip=0x7f code=0x0", uint32(code), num)), false, true, "table:syscall-args")
				}
			}
		}
		// sizes a generated record does not reach by chance: values, field counts and argument counts at and
		// around 255 / 256, 1024, 4096 (thorough: 65536)
		{
			ladder := []int{255, 256, 257, 1023, 1024, 1025, 4095, 4096, 4097}
			if ctx.Thorough() {
				ladder = append(ladder, 65535, 65536, 65537)
			}
			for _, n := range ladder {
				v := strings.Repeat("v", n)
				hx := strings.Repeat("41", n)
				var many, args strings.Builder
				fmt.Fprintf(&args, "argc=%d", n)
				for i := 0; i < n && i < 5000; i++ {
					fmt.Fprintf(&many, " k%d=%d", i, i)
					fmt.Fprintf(&args, " a%d=%d", i, i)
				}
				for _, rec := range []struct {
					typ  int
					body string
				}{
					{1300, "a=" + v + " b=1"}, {1300, "exe=\"" + v + "\" b=1"}, {1327, "proctitle=" + hx}, {1300, "exe=" + hx + " key=" + hx},
					{1300, "arch=c000003e syscall=2" + many.String()}, {1309, args.String()}, {1307, "cwd=\"" + v + "\""}, {1306, "saddr=0100" + hx},
					{1123, "cwd=" + hx + " cmd=" + hx + " terminal=x res=success"}, {1300, v + "=1 a=b"}, {1400, "avc:  denied  { " + strings.Repeat("read ", n/5) + "} for  pid=1"},
				} {
					run(mkACase("data", rec.typ, "audit(1.000:1): "+rec.body), true, true, "size-ladder")
				}
				run(mkACase("line", 0, "type=SYSCALL msg=audit(1.000:1): a="+v), true, true, "size-ladder")
				run(mkACase("line", 0, "type="+strings.Repeat("X", n)+" msg=audit(1.000:1): a=b"), true, true, "size-ladder")
				run(mkACase("line", 0, "type=SYSCALL msg="+strings.Repeat(" ", n)+"audit(1.000:1): a=b"), true, true, "size-ladder")
			}
		}
		// decimal thresholds (numbered keys a0..aN change width at powers of ten): EXECVE records with every argument
		// present, monitored only (a record of 100001 arguments is a megabyte)
		{
			ladder := []int{9, 10, 11, 99, 100, 101, 999, 1000, 1001, 9999, 10000, 10001, 99999, 100000, 100001, 131073}
			if ctx.Thorough() {
				ladder = append(ladder, 999999, 1000000, 1000001)
			}
			for _, n := range ladder {
				var args strings.Builder
				fmt.Fprintf(&args, "audit(1.000:1): argc=%d", n)
				for i := 0; i < n; i++ {
					fmt.Fprintf(&args, " a%d=%d", i, i%10)
				}
				run(mkACase("data", 1309, args.String()), false, true, "decimal-ladder")
			}
		}
		// depth rather than length: one token of the parser's vocabulary repeated k times in a row (a value that is itself a
		// key=value text is parsed again, level by level); every case runs under the 20 s watchdog
		for _, tok := range []string{"msg=", "msg='", "msg=\"", "msg=audit(1.000:1): ", "a=", "key=", "saddr=", "'", "\"", "(", "{ ", "avc:  denied  { ", "old ", "new ", "=", "msg=msg='", "argc=", "a0=a1=", "subj=a:", ":", "proctitle=", "type="} {
			for _, k := range []int{2, 3, 5, 8, 13, 21, 34, 55, 89, 200} {
				if res.NumViolations() >= 2 {
					break // a case that does not return costs the watchdog's 20 s
				}
				body := strings.Repeat(tok, k) + "a=b"
				run(mkACase("data", 1112, "audit(1.000:1): pid=1 "+body), false, true, "repetition-ladder")
				run(mkACase("data", 1400, "audit(1.000:1): "+body), false, true, "repetition-ladder")
				run(mkACase("line", 0, "type=USER_LOGIN msg=audit(1.000:1): "+body+strings.Repeat("'", k)), false, true, "repetition-ladder")
			}
		}
		// lines as other writers of audit logs prefix them (auditd with name_format set writes node=HOST first; syslog
		// and journald put their own header in front), well-formed and with the tokens in the wrong order
		for _, pre := range []string{"node=web01 ", "node= ", "node=", "node=a node=b ", "Sep 26 10:00:00 host audispd: node=web01 ", "<86>Sep 26 10:00:00 host audit: ", "audit: ", "kernel: audit: ", "[ 12.345678] audit: ", "msg=x ", "type=X "} {
			for _, rest := range []string{"type=SYSCALL msg=audit(1.000:1): a=b", "msg=audit(1.000:1): op=set fan_type=1 res=1", "msg=audit(1.000:1): a=b type=SYSCALL", "type= msg=audit(1.000:1): a=b",
				"type=SYSCALL", "msg=audit(1.000:1):", "type=SYSCALL msg=", "type=msg=audit(1.000:1): a=b", "msg=type=", "type=", "msg=", ""} {
				run(mkACase("line", 0, pre+rest), true, true, "prefixed-line")
			}
		}
		// fixed lines under every record type
		step := 1
		if !ctx.Thorough() {
			step = 37
		}
		fixed := []string{"audit(1.000:1): arch=c000003e syscall=59 success=yes exit=0 a0=1 exe=\"/bin/x\" key=(null) saddr=02000016C0A80001 argc=2 a0=\"ls\" a1=2D6C sig=31 proctitle=6C73002D6C cmd=6C73 data=6C73 name=\"/x\" acct=\"root\" subj=a:b:c:d:e:f:g obj=u:r:t:s0 auid=4294967295 res=success",
			"audit(1.000:1): arch=c000003e syscall=2 success=no exit=-13 a0=1 key=65786563013634626974 saddr=0100 argc=1 a0=00",
			"audit(1.000:1): avc:  denied  { read write } for  pid=1 comm=\"x\" old auid=1 new auid=2 (hostname=h, addr=1.2.3.4, terminal=ssh res=success)'"}
		for t := 0; t < 65536 && res.NumViolations() < 5; t += step {
			for _, f := range fixed {
				run(mkACase("data", t, f), t%64 == 0 || (t >= 1000 && t < 2600), true, "alltypes")
			}
		}
	}
	return flush()
}
