package main

// Systematic record-type block of the reassembler family. The life cycle of a lone record (delivered
// by its own push / by its EOE / not buffered) is read off the real Reassembler for all 65536 record
// types in-process; the ends of every run of equal answers, and their neighbours, are the types at
// which the library's treatment of the record type changes. Each of them is then run through the
// ordinary differential comparison and the property monitor, alone and inside a two-event history,
// so that a change of the set of terminating types shows up as a replayable history whatever the
// type it affects.

import (
	"sort"
	"time"

	libaudit "github.com/elastic/go-libaudit/v2"
	"github.com/elastic/go-libaudit/v2/auparse"
)

type lifeStream struct{ groups, lost int }

func (s *lifeStream) ReassemblyComplete(msgs []*auparse.AuditMessage) { s.groups++ }
func (s *lifeStream) EventsLost(n int)                                { s.lost++ }

func lifeOf(t int) (life int) {
	// journalled as the history it is, so that a call that never returns is reported with a replayable input
	guardEnter(RCase{Max: 4, TimeoutNs: int64(time.Hour), InWindow: true, Ops: []ROp{
		{K: "push", ID: 1, Seq: 7, Typ: uint16(t)}, {K: "push", ID: 2, Seq: 7, Typ: tEOE}, {K: "close"}}})
	defer guardLeave()
	defer func() {
		if recover() != nil {
			life = 9
		}
	}()
	s := &lifeStream{}
	r, err := libaudit.NewReassembler(4, time.Hour, s)
	if err != nil {
		return 8
	}
	defer r.Close()
	r.PushMessage(&auparse.AuditMessage{RecordType: auparse.AuditMessageType(t), Sequence: 7})
	if s.groups != 0 || s.lost != 0 {
		return 10*s.groups + 100*s.lost
	}
	r.PushMessage(&auparse.AuditMessage{RecordType: auparse.AuditMessageType(tEOE), Sequence: 7})
	return 1 + 10*s.groups + 100*s.lost
}

// reasmBoundaryTypes returns the record types at the ends of the runs of equal life cycle (and the
// fixed landmarks of the model), at most limit of them.
func reasmBoundaryTypes(limit int) []uint16 {
	set := map[int]bool{0: true, 65535: true, 1299: true, 1300: true, tEOE: true, tPROCTITLE: true, 2099: true, 2100: true}
	prev := lifeOf(0)
	for t := 1; t < 65536 && len(set) < limit; t++ {
		cur := lifeOf(t)
		if cur != prev {
			set[t-1], set[t] = true, true
		}
		prev = cur
	}
	var out []uint16
	for t := range set {
		out = append(out, uint16(t))
	}
	sort.Slice(out, func(i, j int) bool { return out[i] < out[j] })
	return out
}

func reasmTypeCases() []RCase {
	var cases []RCase
	id := 0
	nid := func() int { id++; return id }
	for _, t := range reasmBoundaryTypes(400) {
		id = 0
		cases = append(cases,
			RCase{Max: 4, TimeoutNs: int64(time.Hour), InWindow: true, Base: 0, Ops: []ROp{
				{K: "push", ID: nid(), Seq: 7, Typ: t}, {K: "push", ID: nid(), Seq: 7, Typ: tEOE}, {K: "close"}}},
			RCase{Max: 4, TimeoutNs: int64(time.Hour), InWindow: true, Base: 0, Ops: []ROp{
				{K: "push", ID: nid(), Seq: 5, Typ: tSYSCALL}, {K: "push", ID: nid(), Seq: 6, Typ: t}, {K: "push", ID: nid(), Seq: 6, Typ: tPATH},
				{K: "raw", ID: nid(), Seq: 8, Typ: t}, {K: "push", ID: nid(), Seq: 5, Typ: tEOE}, {K: "maintain"}, {K: "close"}}})
	}
	return cases
}

// reasmLargeCases: sizes a generated history does not reach by chance — one event of several hundred records,
// several hundred events buffered at once (the bound itself in the hundreds), a long run of single-record events.
func reasmLargeCases() []RCase {
	var out []RCase
	for _, n := range []int{255, 256, 257, 1025} {
		// one event of n records, closed by its EOE; a second event interleaved
		c := RCase{Max: 4, TimeoutNs: int64(time.Hour), InWindow: true, Base: 100}
		id := 0
		for i := 0; i < n; i++ {
			id++
			c.Ops = append(c.Ops, ROp{K: "push", ID: id, Seq: 100, Typ: []uint16{tSYSCALL, tPATH, tCWD, tEXECVE}[i%4]})
			if i%64 == 63 {
				id++
				c.Ops = append(c.Ops, ROp{K: "push", ID: id, Seq: 101, Typ: tPATH})
			}
		}
		c.Ops = append(c.Ops, ROp{K: "push", ID: id + 1, Seq: 100, Typ: tEOE}, ROp{K: "close"})
		out = append(out, c)
	}
	for _, n := range []int{255, 256, 257, 300} {
		// n events buffered at once under a bound of n, then two more (overflow), then completions from the far end
		c := RCase{Max: n, TimeoutNs: int64(time.Hour), InWindow: true, Base: 1000}
		id := 0
		for i := 0; i < n+2; i++ {
			id++
			c.Ops = append(c.Ops, ROp{K: "push", ID: id, Seq: 1000 + uint32(i), Typ: tSYSCALL})
		}
		for i := n + 1; i > n-3; i-- {
			id++
			c.Ops = append(c.Ops, ROp{K: "push", ID: id, Seq: 1000 + uint32(i), Typ: tEOE})
		}
		c.Ops = append(c.Ops, ROp{K: "maintain"}, ROp{K: "push", ID: id + 1, Seq: 1002, Typ: tEOE}, ROp{K: "close"})
		out = append(out, c)
	}
	{
		// a bound in the thousands with that many incomplete events buffered at once (nothing may leave before the bound)
		c := RCase{Max: 5000, TimeoutNs: int64(time.Hour), InWindow: true, Base: 20000}
		for i := 0; i < 5003; i++ {
			c.Ops = append(c.Ops, ROp{K: "push", ID: i + 1, Seq: 20000 + uint32(i), Typ: tSYSCALL})
		}
		c.Ops = append(c.Ops, ROp{K: "push", ID: 6000, Seq: 20000, Typ: tEOE}, ROp{K: "close"})
		out = append(out, c)
	}
	{
		// more than a thousand late arrivals in a row after one far-ahead delivery, then in-order ones again
		c := RCase{Max: 1, TimeoutNs: int64(time.Hour), InWindow: true, Base: 1}
		c.Ops = append(c.Ops, ROp{K: "push", ID: 1, Seq: 5000, Typ: 1112})
		for i := 1; i <= 1100; i++ {
			c.Ops = append(c.Ops, ROp{K: "push", ID: i + 1, Seq: uint32(i), Typ: 1112})
		}
		c.Ops = append(c.Ops, ROp{K: "push", ID: 2000, Seq: 1105, Typ: 1112}, ROp{K: "push", ID: 2001, Seq: 5001, Typ: 1112}, ROp{K: "push", ID: 2002, Seq: 5004, Typ: 1112}, ROp{K: "close"})
		out = append(out, c)
	}
	{
		// several thousand deliveries through one Reassembler, then the sequences delivered around every power of two
		// come again (late duplicates): whatever bookkeeping is renewed every 2^k removals must forget nothing
		c := RCase{Max: 0, TimeoutNs: int64(time.Hour), InWindow: true, Base: 1}
		n := 8200
		for i := 1; i <= n; i++ {
			c.Ops = append(c.Ops, ROp{K: "push", ID: i, Seq: uint32(i), Typ: tSYSCALL})
		}
		id := n
		for _, k := range []int{255, 256, 257, 1023, 1024, 1025, 4095, 4096, 4097, 8191, 8192, 8193} {
			id++
			c.Ops = append(c.Ops, ROp{K: "push", ID: id, Seq: uint32(k), Typ: tPATH})
		}
		c.Ops = append(c.Ops, ROp{K: "close"})
		out = append(out, c)
	}
	{
		// 1100 single-record events with gaps, through a small buffer (counters, loss accounting over a long run)
		c := RCase{Max: 3, TimeoutNs: int64(time.Hour), InWindow: true, Base: 5000}
		for i := 0; i < 1100; i++ {
			c.Ops = append(c.Ops, ROp{K: "push", ID: i + 1, Seq: 5000 + uint32(i+i/97), Typ: []uint16{tSYSCALL, 1112, tPATH}[i%3]})
		}
		c.Ops = append(c.Ops, ROp{K: "close"})
		out = append(out, c)
	}
	return out
}

// reasmNamedTypeCases: every record type the library has a name for (and a few it has not), as a record of an
// event that is completed by its EOE, as the record after a gap and as a late arrival: a type that is swallowed,
// or that upsets the loss accounting, shows whichever type it is.
func reasmNamedTypeCases() []RCase {
	var out []RCase
	types := append([]uint16{}, coOtherTypes...)
	types = append(types, tSYSCALL, tPATH, tCWD, tEXECVE, tPROCTITLE, 1329, 1127, 1128, 2000, 1999, 999, 3000)
	for _, t := range types {
		out = append(out, RCase{Max: 4, TimeoutNs: int64(time.Hour), InWindow: true, Base: 100, Ops: []ROp{
			{K: "push", ID: 1, Seq: 100, Typ: 1112},
			{K: "push", ID: 2, Seq: 110, Typ: tSYSCALL}, {K: "push", ID: 3, Seq: 110, Typ: t}, {K: "push", ID: 4, Seq: 110, Typ: tPATH}, {K: "push", ID: 5, Seq: 110, Typ: tEOE},
			{K: "push", ID: 6, Seq: 120, Typ: t}, {K: "push", ID: 7, Seq: 120, Typ: tEOE},
			{K: "push", ID: 8, Seq: 105, Typ: t}, {K: "push", ID: 9, Seq: 105, Typ: tEOE},
			{K: "raw", ID: 10, Seq: 130, Typ: t}, {K: "push", ID: 11, Seq: 131, Typ: 1112}, {K: "push", ID: 12, Seq: 140, Typ: 1112},
			{K: "close"}}})
	}
	return out
}
