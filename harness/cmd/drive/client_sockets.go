package main

// C18 on real netlink sockets, and the concurrent stress clauses of C17/C18.
//
//   echo     a NETLINK_ROUTE NetlinkClient sends a request of an unsupported message type with
//            NLM_F_REQUEST|NLM_F_ACK; rtnetlink rejects it (EOPNOTSUPP) and the kernel's
//            NLMSG_ERROR echoes the request header (and payload) verbatim: compared with the
//            bytes Model.Netlink.NL.send puts on the wire, and the NLMSG_ERROR itself is a
//            datagram from the kernel that Receive must return unchanged.
//   spoof    a second NETLINK_USERSOCK socket sends datagrams (unicast to the client's port id,
//            multicast to a group the client subscribed to) to a NETLINK_USERSOCK NetlinkClient:
//            Receive must return an error and never data.
//   concsend N goroutines x M Sends on one NETLINK_USERSOCK client (no kernel listener: sendto
//            fails fast with ECONNREFUSED, nothing in the system is touched): the returned
//            sequence numbers are distinct, gap-free and increasing per goroutine.
//   concclose G goroutines x K Close calls on one AuditClient over the simulated kernel.
//
// No NETLINK_AUDIT socket is ever opened.

import (
	"bytes"
	"encoding/binary"
	"encoding/hex"
	"errors"
	"fmt"
	"reflect"
	"sort"
	"strconv"
	"strings"
	"sync"
	"syscall"
	"time"
	"unsafe"

	libaudit "github.com/elastic/go-libaudit/v2"

	"verifharness/internal/common"
	"verifharness/internal/simkernel"
)

func (g *clientGen) socketCases() []KCase {
	var out []KCase
	// echo: payload lengths 0..8970 (boundaries and a spread), types above RTM_MAX, flags with extra bits, caller-set pid
	lens := []int{0, 1, 2, 3, 4, 5, 7, 8, 15, 16, 17, 31, 32, 33, 100, 255, 256, 1000, 4095, 4096, 4097, 8000, 8969, 8970}
	for i := 0; i < g.ctx.N(40, 400); i++ {
		lens = append(lens, g.rng.Intn(8971))
	}
	for i, n := range lens {
		c := KCase{Kind: "echo", Buf: hex.EncodeToString(g.bytesN(n)), Typ: uint16(1000 + g.rng.Intn(64000)), Flags: uint16(syscall.NLM_F_REQUEST | syscall.NLM_F_ACK)}
		switch i % 5 {
		case 1:
			c.Flags |= uint16(g.rng.Intn(1<<16)) &^ 0x300 // never a dump request
		case 2:
			// a request without NLM_F_ACK: the kernel still reports the error (EOPNOTSUPP), echoing the message
			c.Flags = uint16(syscall.NLM_F_REQUEST) | uint16(g.rng.Intn(1<<16))&^(0x300|syscall.NLM_F_ACK)
		case 3:
			// not a request, but NLM_F_ACK: the kernel acknowledges with errno 0, echoing the header only
			c.Flags = uint16(syscall.NLM_F_ACK) | uint16(g.rng.Intn(1<<16))&^(0x300|syscall.NLM_F_REQUEST)
		}
		if i%4 == 2 {
			c.HdrPid = 1 + g.rng.Uint32()>>1
		}
		out = append(out, c)
	}
	// a kernel datagram that fills the receive buffer exactly (and with 1, 4 bytes to spare): returned unchanged
	for _, n := range []int{0, 4, 28, 92, 220, 988, 4060} {
		for _, spare := range []int{0, 1, 4} {
			out = append(out, KCase{Kind: "exactfit", Buf: hex.EncodeToString(g.bytesN(n)), Typ: uint16(2000 + g.rng.Intn(60000)), Calls: spare})
		}
	}
	// one message per Send and nothing behind it: a long message whose payload is a row of well-formed 16-byte
	// headers, then shorter ones; the kernel answers every header it finds in a datagram
	for _, tiles := range []int{4, 64, 500} {
		for _, short := range []int{0, 16, 48} {
			out = append(out, KCase{Kind: "tail", Iters: tiles, Calls: short})
		}
	}
	// the socket gets descriptor 0 (a daemon started with its standard input closed)
	out = append(out, KCase{Kind: "fdzero"})
	// the sequence counter across the uint32 wrap (the counter is started just below 2^32)
	for _, back := range []uint32{1, 2, 5} {
		out = append(out, KCase{Kind: "seqwrap", Seq0: 0xFFFFFFFF - back, Calls: 12})
	}
	// spoof: every length 1..64, unicast and multicast
	for n := 1; n <= 64; n++ {
		for _, mc := range []bool{false, true} {
			b := g.bytesN(n)
			if n >= 16 { // a well-formed looking audit record, as an attacker would send
				copy(b, dgram(uint32(n), []uint16{1300, 1305, 2, 1000}[g.rng.Intn(4)], 0, []uint32{0, 1, 7}[g.rng.Intn(3)], 0, b[16:]))
			}
			out = append(out, KCase{Kind: "spoof", Buf: hex.EncodeToString(b), Multicast: mc})
		}
	}
	// spoofed datagrams beyond what the client's receive buffer holds: the reads after the overrun (ENOBUFS) are
	// checked like any other
	for _, n := range []int{40, 200, 1000} {
		out = append(out, KCase{Kind: "spoofoverrun", Calls: n, Multicast: true}, KCase{Kind: "spoofoverrun", Calls: n})
	}
	out = append(out, KCase{Kind: "concsend", Goroutines: 8, Calls: g.ctx.N(25000, 250000)})
	out = append(out, KCase{Kind: "concsend", Goroutines: 2, Calls: g.ctx.N(50000, 500000)})
	// concurrent Sends whose wire bytes the kernel echoes back: framing under parallelism
	// (at most 128 frames per round: the replies must fit the socket's receive buffer)
	for r := 0; r < g.ctx.N(160, 1600); r++ {
		G := []int{2, 4, 8, 16}[r%4]
		out = append(out, KCase{Kind: "concecho", Goroutines: G, Calls: 128 / G})
	}
	return out
}

// ---- shared sockets (opened once per run) -------------------------------------------------

type sockets struct {
	once     sync.Once
	route    *libaudit.NetlinkClient
	routeErr error
	user     *libaudit.NetlinkClient
	userErr  error
	userPid  uint32
	group    uint32
	sender   int
	sendErr  error
	noted    map[string]bool
}

var socks = &sockets{noted: map[string]bool{}}

func (s *sockets) note(ctx *Ctx, key, msg string) {
	if !s.noted[key] {
		s.noted[key] = true
		ctx.Res.Note("%s", msg)
	}
}

func (s *sockets) open(ctx *Ctx) {
	s.once.Do(func() {
		s.route, s.routeErr = libaudit.NewNetlinkClient(syscall.NETLINK_ROUTE, 0, make([]byte, 64*1024), nil)
		// a group bit chosen from the process id, so that concurrent runs of this harness rarely share it
		s.group = 1 << (uint(syscall.Getpid()) % 31)
		s.user, s.userErr = libaudit.NewNetlinkClient(syscall.NETLINK_USERSOCK, s.group, make([]byte, 4096), nil)
		if s.userErr == nil {
			f := reflect.ValueOf(s.user).Elem().FieldByName("pid")
			if f.IsValid() && f.Kind() == reflect.Uint32 {
				s.userPid = uint32(f.Uint())
			}
		}
		fd, err := syscall.Socket(syscall.AF_NETLINK, syscall.SOCK_RAW|syscall.SOCK_CLOEXEC, syscall.NETLINK_USERSOCK)
		if err == nil {
			err = syscall.Bind(fd, &syscall.SockaddrNetlink{Family: syscall.AF_NETLINK})
		}
		s.sender, s.sendErr = fd, err
	})
}

// ---- echo ---------------------------------------------------------------------------------

var echoSeq uint32 // the sequence number the ROUTE client used last (it starts at 0)

func runEchoCase(ctx *Ctx, m *common.Model, c KCase, idx int) *common.Violation {
	socks.open(ctx)
	if socks.routeErr != nil {
		socks.note(ctx, "route", "C18 echo clauses NOT explored: cannot open a NETLINK_ROUTE socket: "+socks.routeErr.Error())
		return nil
	}
	payload := hexBytes(c.Buf)
	ctx.Res.Count(c.canon(), true)
	ctx.Res.Hist("echo_payload_" + sizeBucket(len(payload)))
	nl := socks.route
	// drain anything left over
	for {
		if _, err := nl.Receive(true, func(b []byte) ([]syscall.NetlinkMessage, error) { return nil, nil }); err != nil {
			break
		}
	}
	msg := syscall.NetlinkMessage{Header: syscall.NlMsghdr{Type: c.Typ, Flags: c.Flags, Pid: c.HdrPid}, Data: payload}
	seq, err := nl.Send(msg)
	viol := func(kind, clause, impl, model string) *common.Violation {
		return &common.Violation{Kind: kind, Clause: clause, Input: c, Impl: impl, Model: model, Case: idx}
	}
	if err != nil {
		return viol("monitor", "C18: Send on a NETLINK_ROUTE socket failed: "+err.Error(), "", "")
	}
	if seq != echoSeq+1 {
		return viol("monitor", fmt.Sprintf("C18: Send returned sequence %d after %d (expected the previous plus one)", seq, echoSeq), "", "")
	}
	echoSeq = seq
	var raw []byte
	var msgs []syscall.NetlinkMessage
	parser := func(b []byte) ([]syscall.NetlinkMessage, error) {
		raw = append([]byte(nil), b...)
		return syscall.ParseNetlinkMessage(b)
	}
	deadline := time.Now().Add(2 * time.Second)
	for {
		msgs, err = nl.Receive(true, parser)
		if err == nil {
			break
		}
		if (errors.Is(err, syscall.EAGAIN) || errors.Is(err, syscall.EINTR)) && time.Now().Before(deadline) {
			time.Sleep(200 * time.Microsecond)
			continue
		}
		return viol("monitor", fmt.Sprintf("C18: the kernel did not answer a request of %d payload bytes (a header whose length field is wrong is dropped silently): %v", len(payload), err), "", "")
	}
	if len(raw) < 36 {
		return viol("monitor", fmt.Sprintf("C18: kernel reply of %d bytes is too short for an NLMSG_ERROR with an echoed header", len(raw)), common.Hex(raw), "")
	}
	// the reply, decoded at fixed offsets
	rTyp := binary.LittleEndian.Uint16(raw[4:])
	rSeq := binary.LittleEndian.Uint32(raw[8:])
	rPid := binary.LittleEndian.Uint32(raw[12:])
	if rTyp != syscall.NLMSG_ERROR {
		return viol("monitor", fmt.Sprintf("C18: kernel reply has type %d, expected NLMSG_ERROR", rTyp), common.Hex(raw), "")
	}
	// Receive returns the kernel's datagram unchanged
	if len(msgs) < 1 || msgs[0].Header.Type != rTyp || msgs[0].Header.Seq != rSeq || !bytes.Equal(msgs[0].Data, raw[16:16+len(msgs[0].Data)]) {
		return viol("monitor", "C18: Receive did not return the type and payload of the kernel's datagram unchanged", fmt.Sprintf("%+v", msgs), common.Hex(raw))
	}
	echo := raw[20:]
	eLen := binary.LittleEndian.Uint32(echo[0:])
	eTyp := binary.LittleEndian.Uint16(echo[4:])
	eFlags := binary.LittleEndian.Uint16(echo[6:])
	eSeq := binary.LittleEndian.Uint32(echo[8:])
	ePid := binary.LittleEndian.Uint32(echo[12:])
	wantPid := c.HdrPid
	if wantPid == 0 {
		wantPid = rPid // the kernel addresses its reply to the sender's port id
	}
	switch {
	case eLen != uint32(16+len(payload)):
		return viol("monitor", fmt.Sprintf("C18: header length on the wire is %d, expected 16 + %d payload bytes", eLen, len(payload)), common.Hex(echo[:16]), "")
	case eTyp != c.Typ:
		return viol("monitor", fmt.Sprintf("C18: message type on the wire is %d, the caller's is %d", eTyp, c.Typ), common.Hex(echo[:16]), "")
	case eFlags != c.Flags:
		return viol("monitor", fmt.Sprintf("C18: flags on the wire are %#x, the caller's are %#x", eFlags, c.Flags), common.Hex(echo[:16]), "")
	case eSeq != seq || rSeq != seq:
		return viol("monitor", fmt.Sprintf("C18: sequence on the wire is %d (reply: %d), Send returned %d", eSeq, rSeq, seq), common.Hex(echo[:16]), "")
	case ePid != wantPid:
		return viol("monitor", fmt.Sprintf("C18: port id on the wire is %d, expected %d", ePid, wantPid), common.Hex(echo[:16]), "")
	}
	// on an error the kernel echoes the whole message, on success (errno 0) the header only
	rErrno := -int32(binary.LittleEndian.Uint32(raw[16:]))
	ctx.Res.Hist(fmt.Sprintf("echo_errno_%d", rErrno))
	echoed := echo
	if len(echoed) >= 16+len(payload) && rErrno != 0 {
		echoed = echoed[:16+len(payload)]
		if !bytes.Equal(echoed[16:], payload) {
			return viol("monitor", "C18: the payload on the wire differs from the caller's bytes", common.Hex(echoed[16:]), "")
		}
	} else {
		if rErrno != 0 {
			socks.note(ctx, "echo-short", "C18 echo: the kernel echoed only the header of some rejected requests; payload compared only where echoed")
		}
		echoed = echoed[:16]
	}
	// correspondence with the model's Send
	rep, e := m.Ask1(fmt.Sprintf("cli nl send %d %d %d %d %d %s", rPid, seq-1, c.Typ, c.Flags, c.HdrPid, hexOrDash(c.Buf)))
	if e != nil {
		return viol("correspondence", "model driver failed: "+e.Error(), "", "")
	}
	ctx.Res.ModelLines++
	f := strings.Fields(rep)
	if len(f) != 2 {
		return viol("correspondence", "model driver: unexpected reply", "", rep)
	}
	mb := common.UnHex(f[1])
	if f[0] != strconv.FormatUint(uint64(seq), 10) || !bytes.Equal(mb[:len(echoed)], echoed) || len(mb) != 16+len(payload) {
		return viol("correspondence", "Model.Netlink.NL.send disagrees with the bytes NetlinkClient.Send put on the wire (as echoed by the kernel)",
			fmt.Sprintf("%d %s", seq, common.Hex(echoed)), rep)
	}
	return nil
}

func sizeBucket(n int) string {
	switch {
	case n == 0:
		return "0"
	case n < 16:
		return "1-15"
	case n < 256:
		return "16-255"
	case n < 4096:
		return "256-4095"
	}
	return "4096-8970"
}

// ---- spoof -----------------------------------------------------------------------------------

func runSpoofCase(ctx *Ctx, c KCase, idx int) *common.Violation {
	socks.open(ctx)
	if socks.userErr != nil || socks.sendErr != nil {
		socks.note(ctx, "user", fmt.Sprintf("C18 non-kernel-sender clauses NOT explored: cannot open NETLINK_USERSOCK sockets: %v %v", socks.userErr, socks.sendErr))
		return nil
	}
	b := hexBytes(c.Buf)
	var to *syscall.SockaddrNetlink
	if c.Multicast {
		to = &syscall.SockaddrNetlink{Family: syscall.AF_NETLINK, Groups: socks.group}
	} else {
		if socks.userPid == 0 {
			socks.note(ctx, "userpid", "C18 unicast spoof clauses NOT explored: the client's port id could not be determined")
			return nil
		}
		to = &syscall.SockaddrNetlink{Family: syscall.AF_NETLINK, Pid: socks.userPid}
	}
	ctx.Res.Count(c.canon(), true)
	if c.Multicast {
		ctx.Res.Hist("spoof_multicast")
	} else {
		ctx.Res.Hist("spoof_unicast")
	}
	// ECONNREFUSED on a multicast send is the kernel's extra unicast attempt to port 0; the group copy is delivered
	if err := syscall.Sendto(socks.sender, b, 0, to); err != nil && !(c.Multicast && errors.Is(err, syscall.ECONNREFUSED)) {
		socks.note(ctx, "spoof-send", "C18: a spoofed datagram could not be sent: "+err.Error())
		return nil
	}
	got := 0
	var data [][]byte
	parser := func(p []byte) ([]syscall.NetlinkMessage, error) {
		data = append(data, append([]byte(nil), p...))
		return []syscall.NetlinkMessage{{Header: syscall.NlMsghdr{Type: 1300}, Data: p}}, nil
	}
	deadline := time.Now().Add(time.Second)
	for {
		msgs, err := socks.user.Receive(true, parser)
		if err == nil || len(msgs) > 0 || len(data) > 0 {
			return &common.Violation{Kind: "monitor", Clause: fmt.Sprintf("C18: Receive returned data for a datagram of %d bytes sent by a non-kernel netlink socket (%s)",
				len(b), map[bool]string{false: "unicast", true: "multicast"}[c.Multicast]), Input: c,
				Impl: fmt.Sprintf("msgs=%d err=%v parser-called-with=%s", len(msgs), err, kHexList(data)), Case: idx}
		}
		if errors.Is(err, syscall.EAGAIN) || errors.Is(err, syscall.EINTR) {
			if got > 0 {
				return nil // our datagram was rejected and the socket is drained
			}
			if time.Now().After(deadline) {
				socks.note(ctx, "spoof-lost", "C18: a spoofed datagram never arrived at the client socket")
				return nil
			}
			time.Sleep(100 * time.Microsecond)
			continue
		}
		got++ // an error that is not "no data": a datagram was read and rejected
	}
}

// runSpoofOverrunCase: a fresh NETLINK_USERSOCK client whose receive buffer is made as small as the kernel allows is
// sent c.Calls datagrams of 900 bytes by a non-kernel socket (more than the buffer holds: the kernel drops some and
// reports the overrun, ENOBUFS, on a later read). Whatever the reads return in between, none of them returns data.
func runSpoofOverrunCase(ctx *Ctx, c KCase, idx int) *common.Violation {
	socks.open(ctx)
	if socks.sendErr != nil {
		socks.note(ctx, "user", "C18 overrun clause NOT explored: cannot open a NETLINK_USERSOCK socket: "+socks.sendErr.Error())
		return nil
	}
	group := socks.group
	nl, err := libaudit.NewNetlinkClient(syscall.NETLINK_USERSOCK, group, make([]byte, 4096), nil)
	if err != nil {
		socks.note(ctx, "overrun", "C18 overrun clause NOT explored: "+err.Error())
		return nil
	}
	defer nl.Close()
	rv := reflect.ValueOf(nl).Elem()
	fd, pid := -1, uint32(0)
	for i := 0; i < rv.NumField(); i++ {
		f := rv.Field(i)
		if f.Kind() == reflect.Int && fd < 0 {
			if _, err := syscall.GetsockoptInt(int(f.Int()), syscall.SOL_SOCKET, syscall.SO_TYPE); err == nil {
				fd = int(f.Int())
			}
		}
		if rv.Type().Field(i).Name == "pid" && f.Kind() == reflect.Uint32 {
			pid = uint32(f.Uint())
		}
	}
	if fd < 0 || (!c.Multicast && pid == 0) {
		socks.note(ctx, "overrun-fd", "C18 overrun clause NOT explored: the client's descriptor or port id could not be determined")
		return nil
	}
	syscall.SetsockoptInt(fd, syscall.SOL_SOCKET, syscall.SO_RCVBUF, 1)
	to := &syscall.SockaddrNetlink{Family: syscall.AF_NETLINK, Pid: pid}
	if c.Multicast {
		to = &syscall.SockaddrNetlink{Family: syscall.AF_NETLINK, Groups: group}
	}
	ctx.Res.Count(c.canon(), true)
	ctx.Res.Hist("spoof_overrun")
	body := make([]byte, 900-16)
	for i := range body {
		body[i] = byte('a' + i%26)
	}
	sent := 0
	for i := 0; i < c.Calls; i++ {
		b := dgram(900, 1300, 0, 0, 0, body)
		if err := syscall.Sendto(socks.sender, b, syscall.MSG_DONTWAIT, to); err == nil || errors.Is(err, syscall.ECONNREFUSED) {
			sent++
		}
	}
	var data [][]byte
	parser := func(p []byte) ([]syscall.NetlinkMessage, error) {
		data = append(data, append([]byte(nil), p[:16]...))
		return []syscall.NetlinkMessage{{Header: syscall.NlMsghdr{Type: 1300}, Data: p}}, nil
	}
	rejected, overruns, idle := 0, 0, 0
	for reads := 0; reads < 4*c.Calls+64 && idle < 3; reads++ {
		msgs, err := nl.Receive(true, parser)
		if err == nil || len(msgs) > 0 || len(data) > 0 {
			return &common.Violation{Kind: "monitor", Clause: fmt.Sprintf("C18: Receive returned data for a datagram sent by a non-kernel netlink socket (%s; read %d after %d datagrams were sent to a client whose receive buffer holds a few, %d receive-buffer overruns reported so far)",
				map[bool]string{false: "unicast", true: "multicast"}[c.Multicast], reads+1, sent, overruns), Input: c,
				Impl: fmt.Sprintf("msgs=%d err=%v parser-called-with=%s", len(msgs), err, kHexList(data)), Case: idx}
		}
		switch {
		case errors.Is(err, syscall.EAGAIN):
			idle++
		case errors.Is(err, syscall.ENOBUFS):
			overruns++
			idle = 0
		case errors.Is(err, syscall.EINTR):
		default:
			rejected++
			idle = 0
		}
	}
	if overruns > 0 {
		ctx.Res.Hist("spoof_overrun_reported")
	}
	return nil
}

// ---- concurrent Send ----------------------------------------------------------------------------

func runConcSendCase(ctx *Ctx, c KCase, idx int) *common.Violation {
	nl, err := libaudit.NewNetlinkClient(syscall.NETLINK_USERSOCK, 0, nil, nil)
	if err != nil {
		socks.note(ctx, "concsend", "C18 concurrent Send clause NOT explored: cannot open a NETLINK_USERSOCK socket: "+err.Error())
		return nil
	}
	defer nl.Close()
	ctx.Res.Count(c.canon(), true)
	ctx.Res.Hist("concsend")
	G, M := c.Goroutines, c.Calls
	seqs := make([][]uint32, G)
	var wg sync.WaitGroup
	start := make(chan struct{})
	for g := 0; g < G; g++ {
		seqs[g] = make([]uint32, 0, M)
		wg.Add(1)
		go func(g int) {
			defer wg.Done()
			<-start
			msg := syscall.NetlinkMessage{Header: syscall.NlMsghdr{Type: 4242, Flags: syscall.NLM_F_REQUEST}}
			for i := 0; i < M; i++ {
				q, _ := nl.Send(msg) // ECONNREFUSED: nobody listens on port 0 of NETLINK_USERSOCK
				seqs[g] = append(seqs[g], q)
			}
		}(g)
	}
	close(start)
	wg.Wait()
	all := make([]uint32, 0, G*M)
	for g := range seqs {
		for i := 1; i < len(seqs[g]); i++ {
			if seqs[g][i] <= seqs[g][i-1] {
				return &common.Violation{Kind: "monitor", Clause: fmt.Sprintf("C18: goroutine %d got sequence %d after %d: not increasing", g, seqs[g][i], seqs[g][i-1]),
					Input: c, Impl: fmt.Sprintf("%d,%d", seqs[g][i-1], seqs[g][i]), Case: idx}
			}
		}
		all = append(all, seqs[g]...)
	}
	sort.Slice(all, func(i, j int) bool { return all[i] < all[j] })
	dups, first := 0, uint32(0)
	for i := 1; i < len(all); i++ {
		if all[i] == all[i-1] {
			if dups == 0 {
				first = all[i]
			}
			dups++
		}
	}
	if dups > 0 {
		return &common.Violation{Kind: "monitor", Clause: fmt.Sprintf("C18: %d goroutines x %d Sends on one client: %d returned sequence numbers are duplicates (first: %d)", G, M, dups, first),
			Input: c, Impl: fmt.Sprintf("duplicates=%d", dups), Case: idx}
	}
	if len(all) > 0 && (all[0] != 1 || all[len(all)-1] != uint32(G*M)) {
		return &common.Violation{Kind: "monitor", Clause: fmt.Sprintf("C18: %d Sends returned sequence numbers %d..%d, expected exactly 1..%d", G*M, all[0], all[len(all)-1], G*M),
			Input: c, Impl: fmt.Sprintf("%d..%d", all[0], all[len(all)-1]), Case: idx}
	}
	return nil
}

// ---- concurrent Send, wire bytes echoed by the kernel ---------------------------------------------
//
// G goroutines x M Sends on one fresh NETLINK_ROUTE client, each message of an unsupported type
// (the kernel answers NLMSG_ERROR(EOPNOTSUPP) with a verbatim copy of the request) and a payload
// that names its sender and call (goroutine, index, and a length that depends on the goroutine).
// Every frame on the wire must carry the sequence number Send returned for exactly that payload.

func runConcEchoCase(ctx *Ctx, c KCase, idx int) *common.Violation {
	nl, err := libaudit.NewNetlinkClient(syscall.NETLINK_ROUTE, 0, make([]byte, 64*1024), nil)
	if err != nil {
		socks.note(ctx, "concecho", "C18 concurrent framing clause NOT explored: cannot open a NETLINK_ROUTE socket: "+err.Error())
		return nil
	}
	defer nl.Close()
	ctx.Res.Count(c.canon()+fmt.Sprint(idx), true)
	ctx.Res.Hist("concecho")
	G, M := c.Goroutines, c.Calls
	type sent struct {
		seq uint32
		err error
	}
	res := make([][]sent, G)
	mkPayload := func(g, i int) []byte {
		p := make([]byte, 8+4*(g%7))
		binary.LittleEndian.PutUint32(p[0:], uint32(g))
		binary.LittleEndian.PutUint32(p[4:], uint32(i))
		for k := 8; k < len(p); k++ {
			p[k] = byte(0xA0 + g)
		}
		return p
	}
	var wg sync.WaitGroup
	start := make(chan struct{})
	for g := 0; g < G; g++ {
		res[g] = make([]sent, M)
		wg.Add(1)
		go func(g int) {
			defer wg.Done()
			<-start
			for i := 0; i < M; i++ {
				msg := syscall.NetlinkMessage{Header: syscall.NlMsghdr{Type: 4242, Flags: syscall.NLM_F_REQUEST}, Data: mkPayload(g, i)}
				q, err := nl.Send(msg)
				res[g][i] = sent{q, err}
			}
		}(g)
	}
	close(start)
	wg.Wait()
	viol := func(clause, impl string) *common.Violation {
		return &common.Violation{Kind: "monitor", Clause: clause, Input: c, Impl: impl, Case: idx}
	}
	want := map[uint32][2]int{}
	for g := range res {
		for i, s := range res[g] {
			if s.err != nil {
				socks.note(ctx, "concecho-senderr", "C18 concurrent framing: a Send failed: "+s.err.Error())
				return nil
			}
			if prev, dup := want[s.seq]; dup {
				return viol(fmt.Sprintf("C18: concurrent Sends returned sequence %d twice (goroutine %d call %d and goroutine %d call %d)", s.seq, prev[0], prev[1], g, i), "")
			}
			want[s.seq] = [2]int{g, i}
		}
	}
	// collect the kernel's echoes
	seen := map[uint32]bool{}
	deadline := time.Now().Add(3 * time.Second)
	overflow := false
	var raws [][]byte
	parser := func(b []byte) ([]syscall.NetlinkMessage, error) {
		raws = append(raws, append([]byte(nil), b...))
		return nil, nil
	}
	for len(seen) < G*M {
		raws = raws[:0]
		_, err := nl.Receive(true, parser)
		if err != nil {
			if errors.Is(err, syscall.ENOBUFS) {
				overflow = true
				continue
			}
			if (errors.Is(err, syscall.EAGAIN) || errors.Is(err, syscall.EINTR)) && time.Now().Before(deadline) {
				time.Sleep(200 * time.Microsecond)
				continue
			}
			break
		}
		for _, raw := range raws {
			// a datagram may hold several replies
			for len(raw) >= 36 {
				l := int(binary.LittleEndian.Uint32(raw[0:]))
				if l < 36 || l > len(raw) {
					break
				}
				one := raw[:l]
				raw = raw[(l+3)&^3:]
				if binary.LittleEndian.Uint16(one[4:]) != syscall.NLMSG_ERROR {
					continue
				}
				echo := one[20:]
				eLen := int(binary.LittleEndian.Uint32(echo[0:]))
				eSeq := binary.LittleEndian.Uint32(echo[8:])
				w, ok := want[eSeq]
				if !ok {
					return viol(fmt.Sprintf("C18: a frame with sequence %d was on the wire, but no Send returned that number", eSeq), common.Hex(echo))
				}
				if seen[eSeq] {
					return viol(fmt.Sprintf("C18: two frames on the wire carry sequence %d (concurrent Sends)", eSeq), common.Hex(echo))
				}
				seen[eSeq] = true
				p := mkPayload(w[0], w[1])
				if eLen != 16+len(p) || len(echo) < eLen || !bytes.Equal(echo[16:eLen], p) {
					return viol(fmt.Sprintf("C18: the frame on the wire with sequence %d does not carry the payload of the Send that returned %d (goroutine %d, call %d): concurrent Sends interfere", eSeq, eSeq, w[0], w[1]),
						common.Hex(echo))
				}
			}
		}
	}
	if len(seen) < G*M && !overflow {
		return viol(fmt.Sprintf("C18: %d of %d concurrently sent requests were never answered by the kernel (a frame whose header does not match its bytes is dropped silently)", G*M-len(seen), G*M), "")
	}
	if overflow {
		socks.note(ctx, "concecho-overflow", "C18 concurrent framing: receive buffer overflowed in some rounds (those rounds are inconclusive about dropped frames)")
	}
	return nil
}

// ---- concurrent Close ----------------------------------------------------------------------------

func runConcCloseCase(ctx *Ctx, c KCase, idx int) *common.Violation {
	ctx.Res.Count(c.canon(), true)
	ctx.Res.Hist("concclose")
	for it := 0; it < c.Iters; it++ {
		sim := simkernel.New(0, 64, c.CloseFail)
		sim.Yield = it%2 == 0
		cl := &libaudit.AuditClient{Netlink: sim}
		nPre := 0
		if c.SetPID {
			sim.SetPlans([]simkernel.Plan{{}})
			cl.SetPID(libaudit.NoWait)
			nPre = 1
		}
		sim.SetPlans([]simkernel.Plan{{SendFail: c.SendFail}})
		G, K := c.Goroutines, c.Calls
		rets := make([][]error, G)
		var wg sync.WaitGroup
		start := make(chan struct{})
		for g := 0; g < G; g++ {
			wg.Add(1)
			go func(g int) {
				defer wg.Done()
				<-start
				for k := 0; k < K; k++ {
					rets[g] = append(rets[g], cl.Close())
				}
			}(g)
		}
		close(start)
		wg.Wait()
		extra := cl.Close()
		nSent, nRecv, closes, _ := sim.Counts()
		viol := func(cl string) *common.Violation {
			return &common.Violation{Kind: "monitor", Clause: cl, Input: c, Impl: fmt.Sprintf("iteration=%d closes=%d sent=%d recvs=%d", it, closes, nSent, nRecv), Case: idx}
		}
		if closes != 1 {
			return viol(fmt.Sprintf("C17: %d goroutines x %d concurrent Close calls closed the socket %d times, expected exactly 1", G, K, closes))
		}
		wantSent := nPre
		if c.SetPID {
			wantSent++
		}
		if nSent != wantSent {
			return viol(fmt.Sprintf("C17: concurrent Close calls sent %d messages, expected %d (one PID clear iff SetPID was used)", nSent-nPre, wantSent-nPre))
		}
		if c.SetPID {
			last := sim.Sent[len(sim.Sent)-1]
			if last.Typ != uapiAuditSet || len(last.Data) != 44 || binary.LittleEndian.Uint32(last.Data[0:]) != uapiStatusPID || binary.LittleEndian.Uint32(last.Data[12:]) != 0 {
				return viol("C17: the message Close sent is not AUDIT_SET {mask PID, pid 0}")
			}
			ev := sim.Events
			if len(ev) < 2 || ev[len(ev)-1].K != "close" || ev[len(ev)-2].K != "send" {
				return viol("C17: the PID clear was not sent before the socket was closed")
			}
		}
		if nRecv != 0 {
			return viol("C17: Close made Receive calls")
		}
		nonNil := 0
		for g := range rets {
			for _, e := range rets[g] {
				if e != nil {
					nonNil++
				}
			}
		}
		wantErr := 0
		if (c.SetPID && c.SendFail) || c.CloseFail {
			wantErr = 1
		}
		if nonNil != wantErr {
			return viol(fmt.Sprintf("C17: %d of the concurrent Close calls returned an error, expected %d (only the call that closes can fail)", nonNil, wantErr))
		}
		if extra != nil {
			return viol("C17: a later Close returned an error")
		}
	}
	return nil
}

// runExactFitCase: a client whose receive buffer is exactly as long as the kernel's reply (an NLMSG_ERROR echoing a
// request of an unknown type: 36 bytes + the payload), or Calls bytes longer.
func runExactFitCase(ctx *Ctx, c KCase, idx int) *common.Violation {
	payload := hexBytes(c.Buf)
	ctx.Res.Count(c.canon(), true)
	ctx.Res.Hist("exact_fit")
	viol := func(clause, impl string) *common.Violation {
		return &common.Violation{Kind: "monitor", Clause: clause, Input: c, Impl: impl, Case: idx}
	}
	want := 36 + len(payload)
	nl, err := libaudit.NewNetlinkClient(syscall.NETLINK_ROUTE, 0, make([]byte, want+c.Calls), nil)
	if err != nil {
		socks.note(ctx, "route", "C18 exact-fit clauses NOT explored: cannot open a NETLINK_ROUTE socket: "+err.Error())
		return nil
	}
	defer nl.Close()
	seq, err := nl.Send(syscall.NetlinkMessage{Header: syscall.NlMsghdr{Type: c.Typ, Flags: uint16(syscall.NLM_F_REQUEST | syscall.NLM_F_ACK)}, Data: payload})
	if err != nil {
		return viol("C18: Send on a NETLINK_ROUTE socket failed: "+err.Error(), "")
	}
	var raw []byte
	parser := func(b []byte) ([]syscall.NetlinkMessage, error) {
		raw = append([]byte(nil), b...)
		return syscall.ParseNetlinkMessage(b)
	}
	deadline := time.Now().Add(2 * time.Second)
	var msgs []syscall.NetlinkMessage
	for {
		msgs, err = nl.Receive(true, parser)
		if err == nil {
			break
		}
		if (errors.Is(err, syscall.EAGAIN) || errors.Is(err, syscall.EINTR)) && time.Now().Before(deadline) {
			time.Sleep(200 * time.Microsecond)
			continue
		}
		return viol(fmt.Sprintf("C18: Receive returned an error for a kernel datagram of %d bytes into a receive buffer of %d bytes: %v", want, want+c.Calls, err), "")
	}
	if len(raw) != want {
		return viol(fmt.Sprintf("C18: Receive handed the parser %d bytes of a kernel datagram of %d bytes (receive buffer %d bytes)", len(raw), want, want+c.Calls), common.Hex(raw))
	}
	if len(msgs) != 1 || msgs[0].Header.Type != syscall.NLMSG_ERROR || msgs[0].Header.Seq != seq || len(msgs[0].Data) != want-16 || !bytes.Equal(msgs[0].Data[20:], payload) {
		return viol("C18: Receive did not return the type and payload of the kernel's datagram unchanged (exact-fit buffer)", fmt.Sprintf("%+v", msgs))
	}
	return nil
}

// runTailCase: "Send puts on the wire one netlink message". What a client puts on the wire can only be seen through the
// kernel, which answers each message it finds in a datagram and nothing else. A first, long message carries as payload a
// row of 16-byte netlink headers (NLMSG_NOOP, request+ack, sequence numbers 0x5EED0000+i): for the kernel that is one
// message, one answer. Then shorter messages follow on the same client. Every answer must carry the sequence number
// of a message that was sent; an answer to one of the embedded headers means that bytes of an earlier message went out
// behind a later one.
func runTailCase(ctx *Ctx, c KCase, idx int) *common.Violation {
	ctx.Res.Count(c.canon(), true)
	ctx.Res.Hist("nothing_behind_the_message")
	viol := func(clause, impl string) *common.Violation {
		return &common.Violation{Kind: "monitor", Clause: clause, Input: c, Impl: impl, Case: idx}
	}
	nl, err := libaudit.NewNetlinkClient(syscall.NETLINK_ROUTE, 0, make([]byte, 64*1024), nil)
	if err != nil {
		socks.note(ctx, "route", "C18 clauses NOT explored: cannot open a NETLINK_ROUTE socket: "+err.Error())
		return nil
	}
	defer nl.Close()
	fl := uint16(syscall.NLM_F_REQUEST | syscall.NLM_F_ACK)
	long := make([]byte, 0, 16*c.Iters)
	for i := 0; i < c.Iters; i++ {
		long = append(long, dgram(16, syscall.NLMSG_NOOP, fl, 0x5EED0000+uint32(i), 0, nil)...)
	}
	sent := map[uint32]bool{}
	send := func(data []byte) *common.Violation {
		seq, err := nl.Send(syscall.NetlinkMessage{Header: syscall.NlMsghdr{Type: syscall.NLMSG_NOOP, Flags: fl}, Data: data})
		if err != nil {
			return viol("C18: Send on a NETLINK_ROUTE socket failed: "+err.Error(), "")
		}
		sent[seq] = true
		return nil
	}
	if v := send(long); v != nil {
		return v
	}
	for k := 0; k < 3; k++ {
		if v := send(make([]byte, c.Calls)); v != nil {
			return v
		}
	}
	// collect the kernel's answers until it has been quiet for 30 ms
	var answers []uint32
	quiet := time.Now()
	for time.Since(quiet) < 30*time.Millisecond {
		msgs, err := nl.Receive(true, syscall.ParseNetlinkMessage)
		if err != nil {
			if errors.Is(err, syscall.EAGAIN) || errors.Is(err, syscall.EINTR) {
				time.Sleep(200 * time.Microsecond)
				continue
			}
			return viol("C18: Receive failed while collecting the kernel's answers: "+err.Error(), "")
		}
		for _, m := range msgs {
			answers = append(answers, m.Header.Seq)
		}
		quiet = time.Now()
	}
	for _, s := range answers {
		if !sent[s] {
			return viol(fmt.Sprintf("C18: the kernel answered a message with sequence number %#x that was never sent: after a message of %d payload bytes, a Send of %d payload bytes put more on the wire than its one message (the kernel found a further header behind it)", s, len(long), c.Calls), fmt.Sprintf("answers: %#x", answers))
		}
	}
	if len(answers) != len(sent) {
		return viol(fmt.Sprintf("C18: %d messages were sent with NLM_F_ACK, the kernel answered %d", len(sent), len(answers)), fmt.Sprintf("answers: %#x", answers))
	}
	return nil
}

// runFdZeroCase: which descriptor number the socket gets is not the caller's choice. Standard input is put aside and
// closed, so that the next descriptor the process opens is 0; a NetlinkClient made now sends a request and must get
// the kernel's answer like any other. Standard input is put back afterwards. (This process does not read it.)
func runFdZeroCase(ctx *Ctx, c KCase, idx int) *common.Violation {
	ctx.Res.Count(c.canon(), true)
	ctx.Res.Hist("socket_on_descriptor_0")
	viol := func(clause string) *common.Violation {
		return &common.Violation{Kind: "monitor", Clause: clause, Input: c, Case: idx}
	}
	saved, err := syscall.Dup(0)
	if err != nil {
		// descriptor 0 is not open in this process: the next socket gets it anyway
		saved = -1
	} else {
		syscall.CloseOnExec(saved)
		syscall.Close(0)
	}
	restore := func() {
		if saved >= 0 {
			syscall.Dup2(saved, 0)
			syscall.Close(saved)
			saved = -1
		}
	}
	defer restore()
	nl, err := libaudit.NewNetlinkClient(syscall.NETLINK_ROUTE, 0, make([]byte, 4096), nil)
	if err != nil {
		socks.note(ctx, "route", "C18 clauses NOT explored: cannot open a NETLINK_ROUTE socket: "+err.Error())
		return nil
	}
	fd := -2
	if f := reflect.ValueOf(nl).Elem().FieldByName("fd"); f.IsValid() && f.Kind() == reflect.Int {
		fd = int(f.Int())
	}
	ctx.Res.Hist(fmt.Sprintf("socket_descriptor_%d", fd))
	defer func() {
		nl.Close()
	}()
	seq, err := nl.Send(syscall.NetlinkMessage{Header: syscall.NlMsghdr{Type: syscall.NLMSG_NOOP, Flags: uint16(syscall.NLM_F_REQUEST | syscall.NLM_F_ACK)}, Data: []byte{1, 2, 3, 4}})
	if err != nil {
		return viol(fmt.Sprintf("C18: Send on a NETLINK_ROUTE socket (descriptor %d) failed: %v", fd, err))
	}
	deadline := time.Now().Add(2 * time.Second)
	for {
		msgs, err := nl.Receive(true, syscall.ParseNetlinkMessage)
		if err == nil {
			if len(msgs) != 1 || msgs[0].Header.Type != syscall.NLMSG_ERROR || msgs[0].Header.Seq != seq {
				return viol(fmt.Sprintf("C18: Receive on a client whose socket is descriptor %d did not return the kernel's acknowledgement unchanged: %+v", fd, msgs))
			}
			return nil
		}
		if (errors.Is(err, syscall.EAGAIN) || errors.Is(err, syscall.EINTR)) && time.Now().Before(deadline) {
			time.Sleep(200 * time.Microsecond)
			continue
		}
		return viol(fmt.Sprintf("C18: Receive on a client whose socket is descriptor %d returned an error although the kernel acknowledged the request: %v", fd, err))
	}
}

// setNetlinkSeq starts the client's sequence counter at v. The counter is an unexported field: it is found by name
// and type through reflection (uint32, or a 4-byte sync/atomic type), so no hook in the library is needed; false
// when there is no such field any more.
func setNetlinkSeq(c *libaudit.NetlinkClient, v uint32) bool {
	rv := reflect.ValueOf(c).Elem()
	for i := 0; i < rv.NumField(); i++ {
		f := rv.Type().Field(i)
		if !strings.Contains(strings.ToLower(f.Name), "seq") || f.Type.Size() != 4 {
			continue
		}
		*(*uint32)(unsafe.Pointer(rv.Field(i).UnsafeAddr())) = v
		return true
	}
	return false
}

// runSeqWrapCase: Calls Sends on a fresh client whose counter starts at Seq0; every request is echoed by the kernel.
// The values returned and the values on the wire agree and go up by one, modulo 2^32, without repeating.
func runSeqWrapCase(ctx *Ctx, c KCase, idx int) *common.Violation {
	ctx.Res.Count(c.canon(), true)
	ctx.Res.Hist("seq_wrap")
	viol := func(clause, impl string) *common.Violation {
		return &common.Violation{Kind: "monitor", Clause: clause, Input: c, Impl: impl, Case: idx}
	}
	nl, err := libaudit.NewNetlinkClient(syscall.NETLINK_ROUTE, 0, make([]byte, 4096), nil)
	if err != nil {
		socks.note(ctx, "route", "C18 wrap clauses NOT explored: cannot open a NETLINK_ROUTE socket: "+err.Error())
		return nil
	}
	defer nl.Close()
	if !setNetlinkSeq(nl, c.Seq0) {
		socks.note(ctx, "seqfield", "C18 wrap clauses NOT explored: NetlinkClient has no 4-byte sequence counter field to start near 2^32")
		return nil
	}
	var got []string
	prev := c.Seq0
	for i := 0; i < c.Calls; i++ {
		seq, err := nl.Send(syscall.NetlinkMessage{Header: syscall.NlMsghdr{Type: 3000, Flags: uint16(syscall.NLM_F_REQUEST | syscall.NLM_F_ACK)}, Data: []byte{byte(i)}})
		if err != nil {
			return viol("C18: Send on a NETLINK_ROUTE socket failed: "+err.Error(), "")
		}
		var raw []byte
		deadline := time.Now().Add(2 * time.Second)
		for {
			_, err = nl.Receive(true, func(b []byte) ([]syscall.NetlinkMessage, error) {
				raw = append([]byte(nil), b...)
				return syscall.ParseNetlinkMessage(b)
			})
			if err == nil {
				break
			}
			if (errors.Is(err, syscall.EAGAIN) || errors.Is(err, syscall.EINTR)) && time.Now().Before(deadline) {
				time.Sleep(200 * time.Microsecond)
				continue
			}
			return viol(fmt.Sprintf("C18: the kernel did not answer send %d near the sequence wrap: %v", i, err), "")
		}
		if len(raw) < 36 {
			return viol("C18: kernel reply too short", common.Hex(raw))
		}
		wire := binary.LittleEndian.Uint32(raw[28:])
		got = append(got, fmt.Sprintf("%d/%d", seq, wire))
		if seq != prev+1 || wire != seq {
			return viol(fmt.Sprintf("C18: send %d after counter value %d returned sequence %d with %d on the wire: not distinct and increasing (modulo 2^32)", i, prev, seq, wire), strings.Join(got, " "))
		}
		prev = seq
	}
	return nil
}
