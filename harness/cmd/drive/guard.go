package main

// Crash / hang guard. The real library runs in-process, so a Go fatal error (stack overflow,
// out of memory, concurrent map write, a panic on a goroutine the library started) or an endless
// loop in it would take the harness down, or stall it, without a verdict. Every library call is
// therefore bracketed by guardEnter/guardLeave: the case in flight is journalled to
// .work/inflight-<prop>.json with one pwrite before the call, and a watchdog turns a call that
// stays inside go-libaudit frames beyond the limit into exit status 4 with
// .work/hang-<prop>.json. ./check turns either into a VIOLATION whose replay is the journalled case.

import (
	"encoding/json"
	"fmt"
	"os"
	"path/filepath"
	"runtime"
	"strings"
	"sync"
	"time"
)

var guard struct {
	mu     sync.Mutex
	f      *os.File
	prop   string
	verif  string
	input  interface{}
	since  time.Time
	active bool
	limit  time.Duration
}

const libFrame = "github.com/elastic/go-libaudit/v2"

func guardInit(verif, prop string, limit time.Duration) {
	dir := filepath.Join(verif, ".work")
	os.MkdirAll(dir, 0o755)
	os.Remove(filepath.Join(dir, "hang-"+prop+".json"))
	f, err := os.Create(filepath.Join(dir, "inflight-"+prop+".json"))
	if err != nil {
		return
	}
	guard.f, guard.prop, guard.verif, guard.limit = f, prop, verif, limit
	go guardWatch()
}

// guardEnter journals the case about to be run on the real library.
func guardEnter(input interface{}) {
	if guard.f == nil {
		return
	}
	b, err := json.Marshal(map[string]interface{}{"property": guard.prop, "input": input})
	if err != nil {
		b = []byte(`{"input":null}`)
	}
	// fixed-width length header so that a stale tail of a longer earlier entry is ignored
	rec := append([]byte(fmt.Sprintf("%010d\n", len(b))), b...)
	guard.mu.Lock()
	guard.input, guard.since, guard.active = input, time.Now(), true
	guard.mu.Unlock()
	guard.f.WriteAt(rec, 0)
}

func guardLeave() {
	if guard.f == nil {
		return
	}
	guard.mu.Lock()
	guard.active = false
	guard.mu.Unlock()
}

func guardWatch() {
	for {
		time.Sleep(time.Second)
		guard.mu.Lock()
		active, since, input := guard.active, guard.since, guard.input
		guard.mu.Unlock()
		if !active || time.Since(since) < guard.limit {
			continue
		}
		buf := make([]byte, 1<<20)
		buf = buf[:runtime.Stack(buf, true)]
		// the bracket holds only calls into the library, so some goroutine is inside its frames
		inLib := strings.Contains(string(buf), libFrame)
		if !inLib && time.Since(since) < 10*guard.limit {
			continue // the model subprocess or the harness is slow, not the library
		}
		out := map[string]interface{}{"property": guard.prop, "kind": "hang", "in_library": inLib,
			"seconds": int(time.Since(since).Seconds()), "input": input, "stacks": string(buf)}
		b, _ := json.MarshalIndent(out, "", " ")
		os.WriteFile(filepath.Join(guard.verif, ".work", "hang-"+guard.prop+".json"), b, 0o644)
		fmt.Printf("DRIVE-HANG property=%s in_library=%v seconds=%d\n", guard.prop, inLib, int(time.Since(since).Seconds()))
		os.Exit(4)
	}
}
