// drive runs the correspondence harness and property monitors for one
// property: generated cases are executed on the real go-libaudit code (built
// from /repo's working tree with -tags verif), the same cases are fed to the
// Lean model driver, observations are compared, and the property monitor is
// evaluated on the implementation's observations.
package main

import (
	"encoding/json"
	"flag"
	"fmt"
	"math/rand"
	"os"
	"path/filepath"
	"sort"
	"strconv"
	"strings"
	"time"

	"verifharness/internal/common"
)

// Ctx is what a family gets to work with.
type Ctx struct {
	Prop     string
	Tier     string
	Seed     int64
	Rng      *rand.Rand
	Res      *common.Result
	Verif    string // /verif
	Findings []Finding
	Replay   string
}

func (c *Ctx) Thorough() bool { return c.Tier == "thorough" }

// N picks the case count by tier.
func (c *Ctx) N(quick, thorough int) int {
	n := quick
	if c.Thorough() {
		n = thorough
	}
	// VERIF_SCALE=k cuts the random streams to 1/k (the second, 32-bit pass of the parser family)
	if k, err := strconv.Atoi(os.Getenv("VERIF_SCALE")); err == nil && k > 1 && n >= 4*k {
		n /= k
	}
	return n
}

// Finding is one entry of /verif/known_findings.json.
type Finding struct {
	ID       string          `json:"id"`
	Property string          `json:"property"`
	Status   string          `json:"status"` // open | fixed
	Commit   string          `json:"commit,omitempty"`
	What     string          `json:"what"`
	Matcher  json.RawMessage `json:"matcher,omitempty"`
	Witness  string          `json:"witness,omitempty"`
}

type findingsFile struct {
	Findings []Finding `json:"findings"`
}

func loadFindings(verif, prop string) []Finding {
	b, err := os.ReadFile(filepath.Join(verif, "known_findings.json"))
	if err != nil {
		return nil
	}
	var f findingsFile
	if err := json.Unmarshal(b, &f); err != nil {
		fmt.Fprintln(os.Stderr, "known_findings.json:", err)
		os.Exit(2)
	}
	var out []Finding
	for _, x := range f.Findings {
		if x.Property == prop {
			out = append(out, x)
		}
	}
	return out
}

// CorpusFiles lists corpus/<prop>/*.json in name order.
func (c *Ctx) CorpusFiles(prop string) []string {
	fs, _ := filepath.Glob(filepath.Join(c.Verif, "corpus", prop, "*.json"))
	sort.Strings(fs)
	return fs
}

type family func(*Ctx) error

var families = map[string]family{}

func main() {
	prop := flag.String("prop", "", "property id")
	tier := flag.String("tier", "quick", "quick|thorough")
	seed := flag.Int64("seed", 1, "PRNG seed")
	out := flag.String("out", "", "result json path")
	replay := flag.String("replay", "", "replay file")
	verif := flag.String("verif", "/verif", "verif dir")
	flag.Parse()

	f, ok := families[*prop]
	if !ok {
		fmt.Fprintf(os.Stderr, "unknown property %q\n", *prop)
		os.Exit(2)
	}
	ctx := &Ctx{Prop: *prop, Tier: *tier, Seed: *seed, Rng: rand.New(rand.NewSource(*seed)),
		Res: common.NewResult(*prop, *tier, *seed), Verif: *verif, Replay: *replay}
	ctx.Findings = loadFindings(*verif, *prop)
	if *replay == "" {
		limit := 60 * time.Second
		if *tier == "thorough" {
			limit = 120 * time.Second
		}
		guardInit(*verif, *prop, limit)
	}
	if err := f(ctx); err != nil {
		fmt.Fprintf(os.Stderr, "CHECK-ERROR drive %s: %v\n", *prop, err)
		os.Exit(2)
	}
	if *out != "" {
		if err := ctx.Res.Write(*out); err != nil {
			fmt.Fprintln(os.Stderr, "CHECK-ERROR", err)
			os.Exit(2)
		}
	}
	if *replay != "" {
		return
	}
	n := 0
	for _, v := range ctx.Res.Violations {
		if v.Known == "" {
			n++
		}
	}
	fmt.Printf("drive %s %s seed=%d: evaluations=%d violations=%d (unlisted %d) %s\n", *prop, *tier, *seed,
		ctx.Res.Evaluations, len(ctx.Res.Violations), n, strings.Join(ctx.Res.Notes, "; "))
}
