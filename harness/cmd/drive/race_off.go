//go:build !race

package main

// raceEnabled reports whether this binary was built with the race detector.
const raceEnabled = false
