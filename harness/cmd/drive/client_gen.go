package main

// Generators of the client family. Mostly-valid kernel dialogues aimed at the
// corners the properties name: unsolicited (sequence 0) records at every point,
// runs of transient receive failures up to 9 (and 10+), every errno, wrong ACK
// types, foreign sequence numbers, short payloads, short datagrams, missing
// replies, send failures (also inside Close), NoWait/WaitForPendingACKs/Close
// repeated, status replies of every length, setter arguments at the type
// boundaries, sequence numbers around the 2^32 wrap.

import (
	"encoding/binary"
	"encoding/hex"
	"math"
	"math/rand"

	"verifharness/internal/simkernel"
)

type clientGen struct {
	ctx    *Ctx
	rng    *rand.Rand
	eagain int // EAGAIN costs a 50 ms sleep in the library: budgeted
}

func newClientGen(ctx *Ctx) *clientGen {
	return &clientGen{ctx: ctx, rng: ctx.Rng, eagain: ctx.N(40, 600)}
}

func (g *clientGen) randomCount() int {
	switch g.ctx.Prop {
	case "C08":
		return g.ctx.N(4000, 150000)
	case "C16":
		return g.ctx.N(3500, 120000)
	case "C17":
		return g.ctx.N(4000, 150000)
	case "C18":
		return g.ctx.N(2500, 80000)
	}
	return 1000
}

func u32p(v uint32) *uint32 { return &v }

// dgram builds a raw netlink datagram.
func dgram(lenField uint32, typ, flags uint16, seq, pid uint32, payload []byte) []byte {
	b := make([]byte, 16+len(payload))
	binary.LittleEndian.PutUint32(b[0:], lenField)
	binary.LittleEndian.PutUint16(b[4:], typ)
	binary.LittleEndian.PutUint16(b[6:], flags)
	binary.LittleEndian.PutUint32(b[8:], seq)
	binary.LittleEndian.PutUint32(b[12:], pid)
	copy(b[16:], payload)
	return b
}

func (g *clientGen) bytesN(n int) []byte {
	b := make([]byte, n)
	g.rng.Read(b)
	return b
}

// lenField: the header's length field is ignored by the audit parser; mostly right, sometimes not.
func (g *clientGen) lenField(n int) uint32 {
	switch g.rng.Intn(10) {
	case 0:
		return 0
	case 1:
		return g.rng.Uint32()
	case 2:
		return uint32(n + 16 + 1 + g.rng.Intn(40))
	case 3:
		// a little less than the datagram (as if the datagram carried alignment padding or trailing bytes)
		if v := n + 16 - 1 - g.rng.Intn(8); v >= 0 {
			return uint32(v)
		}
	case 4:
		return []uint32{15, 16, 17, uint32(n), uint32(n + 12), uint32(n + 15)}[g.rng.Intn(6)]
	}
	return uint32(n + 16)
}

func rawItem(b []byte, patch *uint32) simkernel.Item {
	return simkernel.Item{K: "raw", Raw: hex.EncodeToString(b), Patch: patch}
}

// own-sequence datagram: the sequence field is patched with the request's number (+delta).
func (g *clientGen) ownMsg(typ uint16, payload []byte, delta uint32) simkernel.Item {
	return rawItem(dgram(g.lenField(len(payload)), typ, uint16(g.rng.Intn(4))*0x100, 0x55555555, g.rng.Uint32()&0xffff, payload), u32p(delta))
}

func (g *clientGen) event() simkernel.Item {
	types := []uint16{1300, 1302, 1305, 1307, 1309, 1320, 1327, 1100, 1112, 1006, 2, 3, 1000, 1013}
	n := g.rng.Intn(60)
	if g.rng.Intn(10) == 0 {
		n = g.rng.Intn(400)
	}
	return rawItem(dgram(g.lenField(n), types[g.rng.Intn(len(types))], 0, 0, 0, g.bytesN(n)), nil)
}

func (g *clientGen) transient() simkernel.Item {
	if g.eagain > 0 && g.rng.Intn(30) == 0 {
		g.eagain--
		return simkernel.Item{K: "eagain"}
	}
	return simkernel.Item{K: "eintr"}
}

func (g *clientGen) transients(n int) []simkernel.Item {
	var out []simkernel.Item
	for i := 0; i < n; i++ {
		out = append(out, g.transient())
	}
	return out
}

// noise: what may arrive before the reply a request is waiting for.
func (g *clientGen) noise() []simkernel.Item {
	var out []simkernel.Item
	switch x := g.rng.Intn(100); {
	case x < 35:
		return nil
	case x < 43: // many failures in total, never more than 9 in a row
		a := 5 + g.rng.Intn(5)
		out = append(out, g.transients(a)...)
		out = append(out, g.event())
		out = append(out, g.transients(10-a+g.rng.Intn(a))...)
		if g.rng.Intn(3) == 0 {
			out = append(out, g.event())
			out = append(out, g.transients(g.rng.Intn(10))...)
		}
		return out
	case x < 48:
		return g.transients(9)
	}
	k := 1 + g.rng.Intn(4)
	for i := 0; i < k; i++ {
		if g.rng.Intn(2) == 0 {
			out = append(out, g.transients(1+g.rng.Intn(3))...)
		}
		if g.rng.Intn(3) > 0 {
			out = append(out, g.event())
		}
	}
	return out
}

var commonErrnos = []int32{1, 2, 17, 22, 12, 39, 11, 4, 16, 13, 28, 95, 105, 133, 34, 14}

// recvErrnos: what recvfrom on a netlink socket fails with when it fails hard (0: an error that is no errno).
var recvErrnos = []int32{0, 105, 5, 9, 12, 111, 1, 107, 90, 14, 22, 88}

func (g *clientGen) failItem() simkernel.Item {
	return simkernel.Item{K: "fail", Errno: recvErrnos[g.rng.Intn(len(recvErrnos))]}
}

func (g *clientGen) errno() int32 {
	switch x := g.rng.Intn(20); {
	case x < 9:
		return commonErrnos[g.rng.Intn(len(commonErrnos))]
	case x < 18:
		return int32(1 + g.rng.Intn(133))
	case x == 18:
		return -int32(1 + g.rng.Intn(200)) // a positive word in the payload
	}
	return []int32{math.MinInt32, math.MaxInt32, 4095, 134, 65536}[g.rng.Intn(5)]
}

func (g *clientGen) ackPayload(e int32) []byte {
	p := make([]byte, 4)
	binary.LittleEndian.PutUint32(p, uint32(-e))
	switch g.rng.Intn(6) {
	case 0: // bare errno
	case 1:
		p = append(p, g.bytesN(g.rng.Intn(16))...)
	default:
		p = append(p, g.bytesN(16)...) // the echoed request header
		if g.rng.Intn(4) == 0 {
			p = append(p, g.bytesN(g.rng.Intn(48))...)
		}
	}
	return p
}

func (g *clientGen) ack(e int32) simkernel.Item { return g.ownMsg(2, g.ackPayload(e), 0) }

func (g *clientGen) foreignDelta() uint32 {
	switch g.rng.Intn(5) {
	case 0:
		return 1
	case 1:
		return 0xFFFFFFFF
	case 2:
		return 2
	case 3:
		return 0x80000000
	}
	return 1 + uint32(g.rng.Intn(1<<20))
}

// ackItems: the kernel's acknowledgement of a request, in all its variants.
// okBias in percent for a plain success.
func (g *clientGen) ackItems(okBias int) (items []simkernel.Item, success bool) {
	items = g.noise()
	x := g.rng.Intn(100)
	if x < okBias {
		return append(items, g.ack(0)), true
	}
	switch y := g.rng.Intn(100); {
	case y < 50:
		items = append(items, g.ack(g.errno()))
	case y < 57: // wrong ACK type
		t := []uint16{3, 1000, 1001, 1013, 1300, 0, 1, 4, 65535}[g.rng.Intn(9)]
		items = append(items, g.ownMsg(t, g.ackPayload(0), 0))
	case y < 70: // another request's sequence number, looking like a success
		items = append(items, g.ownMsg(2, g.ackPayload(0), g.foreignDelta()))
		if g.rng.Intn(2) == 0 {
			items = append(items, g.ack(0))
		}
	case y < 76: // payload too short for an errno
		items = append(items, g.ownMsg(2, g.bytesN(g.rng.Intn(4)), 0))
	case y < 80: // datagram shorter than a header
		items = append(items, rawItem(g.bytesN(g.rng.Intn(16)), nil))
	case y < 85:
		items = append(items, g.failItem())
	case y < 88:
		items = append(items, simkernel.Item{K: "nothing"})
	case y < 91: // nothing at all
	case y < 97: // ten or more transient failures in a row
		items = append(items, g.transients(10+g.rng.Intn(3))...)
		if g.rng.Intn(2) == 0 {
			items = append(items, g.ack(0))
		}
	default:
		items = append(items, g.ack(0), g.ack(g.errno())) // a duplicate acknowledgement
		return items, true
	}
	return items, false
}

func (g *clientGen) u32() uint32 {
	b := []uint32{0, 1, 2, 64, 8192, 0x7fffffff, 0x80000000, 0xffffffff, 0xfffffffe, 255, 256, 65535, 65536, 1 << 24}
	if g.rng.Intn(3) > 0 {
		return b[g.rng.Intn(len(b))]
	}
	return g.rng.Uint32()
}

func (g *clientGen) i32() int32 {
	b := []int32{0, 1, -1, 500, 60000, 600000, math.MinInt32, math.MaxInt32, -500, -2, 255, 256, -256, 65536}
	if g.rng.Intn(3) > 0 {
		return b[g.rng.Intn(len(b))]
	}
	return int32(g.rng.Uint32())
}

func (g *clientGen) rule() string {
	n := g.rng.Intn(80)
	if g.rng.Intn(8) == 0 {
		n = 0
	}
	if g.rng.Intn(20) == 0 {
		n = 1040 + g.rng.Intn(300)
	}
	return hex.EncodeToString(g.bytesN(n))
}

func (g *clientGen) waitMode(nowaitPct int) uint8 {
	x := g.rng.Intn(100)
	switch {
	case x < nowaitPct:
		return 2
	case x == 99:
		return []uint8{0, 3, 255}[g.rng.Intn(3)] // not a defined mode: treated as waiting
	}
	return 1
}

var setterKinds = []string{"setpid", "setratelimit", "setbackloglimit", "setenabled", "setimmutable", "setfailure", "setbacklogwaittime"}

func (g *clientGen) setter(nowaitPct, okBias int) KOp {
	op := KOp{K: setterKinds[g.rng.Intn(len(setterKinds))], WM: g.waitMode(nowaitPct)}
	switch op.K {
	case "setratelimit", "setbackloglimit":
		op.V = g.u32()
	case "setenabled":
		op.B = g.rng.Intn(2) == 0
	case "setfailure":
		if g.rng.Intn(4) > 0 {
			op.FM = []string{"silent", "log", "panic"}[g.rng.Intn(3)]
		} else {
			op.V = g.u32()
		}
	case "setbacklogwaittime":
		op.W = g.i32()
	}
	p := simkernel.Plan{}
	if g.rng.Intn(30) == 0 {
		p.SendFail = true
	} else {
		p.Items, _ = g.ackItems(okBias)
	}
	if op.WM == 2 && g.rng.Intn(3) > 0 { // a NoWait request is mostly acknowledged plainly (the noise stays)
		p.Items = append(g.noise(), g.ack(0))
		if g.rng.Intn(4) == 0 {
			p.Items = append(g.noise(), g.ack(g.errno()))
		}
	}
	op.Plans = []simkernel.Plan{p}
	return op
}

func (g *clientGen) ruleOp(k string, okBias int) KOp {
	op := KOp{K: k, Rule: g.rule()}
	p := simkernel.Plan{}
	if g.rng.Intn(30) == 0 {
		p.SendFail = true
	} else {
		p.Items, _ = g.ackItems(okBias)
		if k == "addrule" && g.rng.Intn(4) == 0 { // every errno on AddRule
			p.Items = append(g.noise(), g.ack(int32(g.rng.Intn(134))))
		}
	}
	op.Plans = []simkernel.Plan{p}
	return op
}

func (g *clientGen) statusLen() int {
	switch x := g.rng.Intn(10); {
	case x < 4:
		return 44
	case x < 6:
		return 32 + g.rng.Intn(12)
	case x < 7:
		return 45 + g.rng.Intn(40)
	case x < 8:
		return 32
	}
	return g.rng.Intn(32)
}

func (g *clientGen) getStatus(okBias int) KOp {
	op := KOp{K: "getstatus"}
	p := simkernel.Plan{}
	if g.rng.Intn(30) == 0 {
		p.SendFail = true
		op.Plans = []simkernel.Plan{p}
		return op
	}
	items, ok := g.ackItems(okBias)
	if ok || g.rng.Intn(3) == 0 {
		items = append(items, g.noise()...)
		switch x := g.rng.Intn(20); {
		case x < 15:
			items = append(items, g.ownMsg(1000, g.bytesN(g.statusLen()), 0))
		case x == 15:
			items = append(items, g.ownMsg([]uint16{1001, 2, 3, 1013, 0}[g.rng.Intn(5)], g.bytesN(44), 0))
		case x == 16:
			items = append(items, g.ownMsg(1000, g.bytesN(44), g.foreignDelta()))
		case x == 17:
			items = append(items, g.failItem())
		case x == 18:
			items = append(items, g.transients(10)...)
		}
	}
	if g.rng.Intn(5) == 0 {
		items = append(items, g.event())
	}
	p.Items = items
	op.Plans = []simkernel.Plan{p}
	return op
}

// rulesPlan: reaction to AUDIT_LIST_RULES; returns the payloads a complete listing carries.
func (g *clientGen) rulesPlan(okBias int) (simkernel.Plan, int) {
	p := simkernel.Plan{}
	if g.rng.Intn(30) == 0 {
		p.SendFail = true
		return p, 0
	}
	items, ok := g.ackItems(okBias)
	n := 0
	if ok || g.rng.Intn(4) == 0 {
		k := g.rng.Intn(6)
		complete := true
		for i := 0; i < k; i++ {
			items = append(items, g.noise()...)
			if g.rng.Intn(25) == 0 { // the listing goes wrong in the middle
				switch g.rng.Intn(4) {
				case 0:
					items = append(items, g.ownMsg(1013, g.bytesN(20), g.foreignDelta()))
				case 1:
					items = append(items, g.ownMsg([]uint16{1000, 2, 1011, 0}[g.rng.Intn(4)], g.bytesN(20), 0))
				case 2:
					items = append(items, g.failItem())
				case 3:
					items = append(items, g.transients(10)...)
				}
				complete = false
				break
			}
			items = append(items, g.ownMsg(1013, g.bytesN(g.rng.Intn(90)), 0))
			n++
		}
		if complete {
			items = append(items, g.noise()...)
			if g.rng.Intn(15) > 0 {
				items = append(items, g.ownMsg(3, g.bytesN(g.rng.Intn(8)), 0))
			} else {
				n = 0
			}
		} else {
			n = 0
		}
	}
	p.Items = items
	return p, n
}

func (g *clientGen) op(prop string) KOp {
	x := g.rng.Intn(100)
	switch prop {
	case "C08":
		switch {
		case x < 20:
			return g.ruleOp("addrule", 45)
		case x < 35:
			return g.ruleOp("deleterule", 45)
		case x < 55:
			return g.setter(6, 45)
		case x < 70:
			return g.getStatus(65)
		case x < 85:
			p, _ := g.rulesPlan(70)
			return KOp{K: "getrules", Plans: []simkernel.Plan{p}}
		case x < 93:
			return g.deleteRules()
		case x < 96:
			return KOp{K: "wait"}
		case x < 98:
			return g.receiveOp()
		}
		return g.closeOp()
	case "C16":
		switch {
		case x < 60:
			return g.setter(45, 85)
		case x < 80:
			return g.getStatus(90)
		case x < 88:
			return g.statusAsync()
		case x < 94:
			return KOp{K: "wait"}
		}
		return g.closeOp()
	case "C17":
		switch {
		case x < 35:
			return g.setter(92, 80)
		case x < 57:
			return KOp{K: "wait"}
		case x < 69:
			return g.closeOp()
		case x < 77:
			op := g.setter(60, 80)
			op.K, op.V, op.W, op.B, op.FM = "setpid", 0, 0, false, ""
			return op
		case x < 88:
			p, _ := g.rulesPlan(90)
			return KOp{K: "getrules", Plans: []simkernel.Plan{p}}
		case x < 92:
			return g.deleteRules()
		case x < 96:
			return g.receiveOp()
		}
		return g.ruleOp("addrule", 70)
	}
	// C18
	switch {
	case x < 50:
		return g.receiveOp()
	case x < 60:
		return g.ruleOp("addrule", 60)
	case x < 70:
		return g.getStatus(80)
	case x < 80:
		p, _ := g.rulesPlan(80)
		return KOp{K: "getrules", Plans: []simkernel.Plan{p}}
	case x < 90:
		return g.setter(30, 70)
	case x < 95:
		return KOp{K: "wait"}
	}
	return g.closeOp()
}

func (g *clientGen) statusAsync() KOp {
	op := KOp{K: "getstatusasync", B: g.rng.Intn(2) == 0}
	p := simkernel.Plan{SendFail: g.rng.Intn(10) == 0}
	op.Plans = []simkernel.Plan{p}
	return op
}

func (g *clientGen) closeOp() KOp {
	p := simkernel.Plan{SendFail: g.rng.Intn(4) == 0} // used only if the PID has to be cleared
	if g.rng.Intn(2) == 0 {
		p.Items = []simkernel.Item{g.ack(0)}
	}
	return KOp{K: "close", Plans: []simkernel.Plan{p}}
}

func (g *clientGen) deleteRules() KOp {
	p, n := g.rulesPlan(85)
	op := KOp{K: "deleterules", Plans: []simkernel.Plan{p}}
	for i := 0; i < n; i++ {
		d := simkernel.Plan{}
		if g.rng.Intn(40) == 0 {
			d.SendFail = true
		} else {
			d.Items, _ = g.ackItems(88)
		}
		op.Plans = append(op.Plans, d)
	}
	return op
}

// receiveOp: AuditClient.Receive. What it reads is unsolicited traffic: the operation carries the
// item, which the harness puts on the receive queue just before the call (KOp.Pre).
func (g *clientGen) receiveOp() KOp {
	var it simkernel.Item
	switch x := g.rng.Intn(20); {
	case x < 12:
		n := g.rng.Intn(49)
		if g.rng.Intn(6) == 0 {
			n = g.rng.Intn(2000)
		}
		typ := []uint16{1300, 1305, 1320, 1327, 1100, 2, 3, 1000, 0, 65535}[g.rng.Intn(10)]
		it = rawItem(dgram(g.lenField(n), typ, uint16(g.rng.Intn(1<<16)), g.rng.Uint32()*uint32(g.rng.Intn(2)), g.rng.Uint32(), g.bytesN(n)), nil)
	case x < 16:
		it = rawItem(g.bytesN(g.rng.Intn(17)), nil)
	case x == 16:
		it = simkernel.Item{K: "eintr"}
	case x == 17:
		it = g.failItem()
	case x == 18:
		it = simkernel.Item{K: "nothing"}
	default:
		return KOp{K: "receive"} // whatever is left in the queue (possibly nothing)
	}
	return KOp{K: "receive", Pre: []simkernel.Item{it}}
}

func (g *clientGen) history(prop string) KCase {
	c := KCase{Kind: "history", BufLen: 64}
	switch r := g.rng.Intn(24); {
	case r == 0:
		c.Seq0 = 0xFFFFFFFF - uint32(g.rng.Intn(6))
	case r == 1:
		c.Seq0 = g.rng.Uint32()
	}
	c.CloseFail = g.rng.Intn(15) == 0
	c.WrapErrno = g.rng.Intn(8) == 0
	n := 1 + g.rng.Intn(9)
	if g.rng.Intn(10) == 0 {
		n += g.rng.Intn(12)
	}
	for i := 0; i < n; i++ {
		c.Ops = append(c.Ops, g.op(prop))
	}
	if prop == "C17" {
		// shapes the property names: requests, wait, wait again; Close repeated; SetPID before Close
		switch g.rng.Intn(5) {
		case 0:
			c.Ops = append(c.Ops, KOp{K: "wait"}, KOp{K: "wait"})
		case 1:
			c.Ops = append(c.Ops, g.closeOp(), g.closeOp())
		case 2:
			c.Ops = append(c.Ops, KOp{K: "wait"}, g.setter(100, 80), KOp{K: "wait"})
		}
	}
	return c
}

func (g *clientGen) fromWire() KCase {
	n := g.rng.Intn(81)
	switch g.rng.Intn(6) {
	case 0:
		n = 28 + g.rng.Intn(20)
	case 1:
		n = []int{0, 31, 32, 33, 43, 44, 45, 36, 40, 64}[g.rng.Intn(10)]
	}
	prior := g.bytesN(44)
	if g.rng.Intn(4) == 0 {
		prior = make([]byte, 44)
	}
	return KCase{Kind: "fromwire", Prior: hex.EncodeToString(prior), Buf: hex.EncodeToString(g.bytesN(n))}
}

func (g *clientGen) perr() KCase {
	n := g.rng.Intn(12)
	b := g.bytesN(n)
	if n >= 4 {
		switch g.rng.Intn(4) {
		case 0:
			binary.LittleEndian.PutUint32(b, uint32(-g.errno()))
		case 1:
			binary.LittleEndian.PutUint32(b, 0)
		}
	}
	return KCase{Kind: "perr", Buf: hex.EncodeToString(b)}
}

func (g *clientGen) next() KCase {
	x := g.rng.Intn(100)
	switch g.ctx.Prop {
	case "C16":
		if x < 20 {
			return g.fromWire()
		}
	case "C18":
		if x < 20 {
			return g.perr()
		}
	case "C08":
		if x < 4 {
			return g.perr()
		}
	}
	return g.history(g.ctx.Prop)
}

// fixedCases: deterministic sweeps run before the random stream.
func (g *clientGen) fixedCases() []KCase {
	var out []KCase
	switch g.ctx.Prop {
	case "C16":
		out = append(out, KCase{Kind: "consts"})
		for n := 0; n <= 80; n++ { // every reply length, into a dirty and into a fresh receiver
			ff := make([]byte, 44)
			for i := range ff {
				ff[i] = 0xFF
			}
			out = append(out, KCase{Kind: "fromwire", Prior: hex.EncodeToString(ff), Buf: hex.EncodeToString(g.bytesN(n))})
			out = append(out, KCase{Kind: "fromwire", Prior: hex.EncodeToString(make([]byte, 44)), Buf: hex.EncodeToString(g.bytesN(n))})
		}
		// every setter x boundary arguments x both modes, plainly acknowledged
		for _, wmode := range []uint8{1, 2} {
			mk := func(op KOp) {
				op.WM = wmode
				op.Plans = []simkernel.Plan{{Items: []simkernel.Item{g.ack(0)}}}
				out = append(out, KCase{Kind: "history", BufLen: 64, Ops: []KOp{op}})
			}
			mk(KOp{K: "setpid"})
			mk(KOp{K: "setimmutable"})
			mk(KOp{K: "setenabled", B: true})
			mk(KOp{K: "setenabled", B: false})
			for _, fm := range []string{"silent", "log", "panic"} {
				mk(KOp{K: "setfailure", FM: fm})
			}
			for _, v := range []uint32{0, 1, 2, 3, 0x7fffffff, 0x80000000, 0xffffffff, 0x01020304} {
				mk(KOp{K: "setfailure", V: v})
				mk(KOp{K: "setratelimit", V: v})
				mk(KOp{K: "setbackloglimit", V: v})
			}
			for _, w := range []int32{0, 1, -1, 500, math.MaxInt32, math.MinInt32, -500, 0x01020304} {
				mk(KOp{K: "setbacklogwaittime", W: w})
			}
		}
		// GetStatus with every reply length 0..80
		for n := 0; n <= 80; n++ {
			op := KOp{K: "getstatus", Plans: []simkernel.Plan{{Items: []simkernel.Item{g.ack(0), g.ownMsg(1000, g.bytesN(n), 0)}}}}
			out = append(out, KCase{Kind: "history", BufLen: 64, Ops: []KOp{op}})
		}
	case "C17":
		for _, sp := range []bool{false, true} {
			for _, sf := range []bool{false, true} {
				for _, cf := range []bool{false, true} {
					out = append(out, KCase{Kind: "concclose", SetPID: sp, SendFail: sf, CloseFail: cf, Goroutines: 8, Calls: 3, Iters: g.ctx.N(300, 3000)})
				}
			}
		}
	case "C18":
		for n := 0; n <= 64; n++ { // AuditClient.Receive over the simulator, every datagram length
			b := g.bytesN(n)
			out = append(out, KCase{Kind: "history", BufLen: 64, Ops: []KOp{{K: "receive", Pre: []simkernel.Item{rawItem(b, nil)}},
				{K: "receive", Pre: []simkernel.Item{rawItem(g.bytesN(g.rng.Intn(65)), nil)}}}})
		}
		for n := 0; n <= 8; n++ {
			out = append(out, KCase{Kind: "perr", Buf: hex.EncodeToString(g.bytesN(n))})
		}
		out = append(out, g.socketCases()...)
	}
	// sizes a generated history does not reach by chance (all client properties): request payloads around a page
	// and around the maximum message length, long queues of unacknowledged requests, long rule listings, long
	// runs of unsolicited events in front of a reply
	for _, n := range []int{0, 1, 3, 4, 5, 4079, 4080, 4081, 4095, 4096, 4097, 8953, 8954, 8955, 8969, 8970} {
		op := KOp{K: "addrule", Rule: hex.EncodeToString(g.bytesN(n)), Plans: []simkernel.Plan{{Items: []simkernel.Item{g.ack(0)}}}}
		out = append(out, KCase{Kind: "history", BufLen: 64, Ops: []KOp{op, {K: "deleterule", Rule: op.Rule, Plans: []simkernel.Plan{{Items: []simkernel.Item{g.ack(0)}}}}}})
	}
	for _, n := range []int{8, 9, 16, 17, 64, 65, 255, 256, 257, 300} {
		c := KCase{Kind: "history", BufLen: 64}
		for i := 0; i < n; i++ {
			e := int32(0)
			if i == n-2 {
				e = 13 // the first kernel error sits deep in the queue
			}
			c.Ops = append(c.Ops, KOp{K: "setratelimit", V: uint32(i), WM: 2, Plans: []simkernel.Plan{{Items: []simkernel.Item{g.ack(e)}}}})
		}
		c.Ops = append(c.Ops, KOp{K: "wait"}, KOp{K: "wait"}, KOp{K: "setenabled", B: true, WM: 1, Plans: []simkernel.Plan{{Items: []simkernel.Item{g.ack(0)}}}}, KOp{K: "wait"})
		out = append(out, c)
	}
	// a hard receive failure of every kind while acknowledgements are pending and while a command waits: the pending
	// list is as it was (nothing was received), the next wait consumes the acknowledgements in order
	for _, e := range recvErrnos {
		for _, wrap := range []bool{false, true} {
			f := simkernel.Item{K: "fail", Errno: e}
			out = append(out, KCase{Kind: "history", BufLen: 64, WrapErrno: wrap, Ops: []KOp{
				{K: "setratelimit", V: 7, WM: 2, Plans: []simkernel.Plan{{Items: []simkernel.Item{f, g.ack(0)}}}},
				{K: "setbackloglimit", V: 8, WM: 2, Plans: []simkernel.Plan{{Items: []simkernel.Item{g.ack(13)}}}},
				{K: "wait"}, {K: "wait"}, {K: "wait"},
				{K: "setenabled", B: true, WM: 1, Plans: []simkernel.Plan{{Items: []simkernel.Item{g.ack(0)}}}}, {K: "wait"}}})
			out = append(out, KCase{Kind: "history", BufLen: 64, WrapErrno: wrap, Ops: []KOp{
				{K: "setratelimit", V: 7, WM: 1, Plans: []simkernel.Plan{{Items: []simkernel.Item{f, g.ack(0)}}}},
				{K: "getstatus", Plans: []simkernel.Plan{{Items: []simkernel.Item{g.ack(0), f}}}},
				{K: "setenabled", B: true, WM: 2, Plans: []simkernel.Plan{{Items: []simkernel.Item{g.ack(0)}}}}, {K: "wait"}, {K: "wait"}}})
		}
	}
	// a reply that arrives after exactly k transient receive failures, k around the retry budget, for a waiting
	// command, for WaitForPendingACKs, and on both sides of an unsolicited event; then the client is used again
	for k := 0; k <= 12; k++ {
		for _, kind := range []string{"eintr", "eagain"} {
			if kind == "eagain" && (k < 8 || k > 10) {
				continue // each EAGAIN costs the library a 50 ms pause
			}
			var tr []simkernel.Item
			for i := 0; i < k; i++ {
				tr = append(tr, simkernel.Item{K: kind})
			}
			after := []KOp{{K: "setenabled", B: true, WM: 1, Plans: []simkernel.Plan{{Items: []simkernel.Item{g.ack(0)}}}}, {K: "wait"}}
			out = append(out, KCase{Kind: "history", BufLen: 64, Ops: append([]KOp{
				{K: "setratelimit", V: 7, WM: 1, Plans: []simkernel.Plan{{Items: append(append([]simkernel.Item{}, tr...), g.ack(0))}}}}, after...)})
			out = append(out, KCase{Kind: "history", BufLen: 64, Ops: append([]KOp{
				{K: "setratelimit", V: 7, WM: 2, Plans: []simkernel.Plan{{Items: append(append([]simkernel.Item{}, tr...), g.ack(0))}}}, {K: "wait"}, {K: "wait"}}, after...)})
			out = append(out, KCase{Kind: "history", BufLen: 64, Ops: append([]KOp{
				{K: "getstatus", Plans: []simkernel.Plan{{Items: append(append(append([]simkernel.Item{}, tr...), g.ack(0)), append(append([]simkernel.Item{g.event()}, tr...), g.ownMsg(1000, g.bytesN(44), 0))...)}}}}, after...)})
			if k == 1 || k == 5 || k == 9 {
				// the same, the transport wrapping the errno
				out = append(out, KCase{Kind: "history", BufLen: 64, WrapErrno: true, Ops: append([]KOp{
					{K: "setratelimit", V: 7, WM: 1, Plans: []simkernel.Plan{{Items: append(append([]simkernel.Item{}, tr...), g.ack(13))}}}}, after...)})
				out = append(out, KCase{Kind: "history", BufLen: 64, WrapErrno: true, Ops: append([]KOp{
					{K: "setratelimit", V: 7, WM: 2, Plans: []simkernel.Plan{{Items: append(append([]simkernel.Item{}, tr...), g.ack(0))}}}, {K: "wait"}}, after...)})
			}
		}
	}
	// the same when every receive call takes a while: 9 failures of 70 ms each, 4 of 260 ms, 2 of 600 ms
	for _, sl := range []struct{ k, ms int }{{9, 70}, {4, 260}, {2, 600}} {
		var tr []simkernel.Item
		for i := 0; i < sl.k; i++ {
			tr = append(tr, simkernel.Item{K: "eagain"})
		}
		after := []KOp{{K: "setenabled", B: true, WM: 1, Plans: []simkernel.Plan{{Items: []simkernel.Item{g.ack(0)}}}}}
		if g.ctx.Prop == "C17" {
			out = append(out, KCase{Kind: "history", BufLen: 64, RecvDelayMs: sl.ms, Ops: append([]KOp{
				{K: "setratelimit", V: 7, WM: 2, Plans: []simkernel.Plan{{Items: append(append([]simkernel.Item{}, tr...), g.ack(0))}}}, {K: "wait"}}, after...)})
		} else {
			out = append(out, KCase{Kind: "history", BufLen: 64, RecvDelayMs: sl.ms, Ops: append([]KOp{
				{K: "addrule", Rule: hex.EncodeToString(g.bytesN(40)), Plans: []simkernel.Plan{{Items: append(append([]simkernel.Item{}, tr...), g.ack(17))}}}}, after...)})
		}
	}
	// requests whose acknowledgements are still pending while real time passes: a second, a quarter of a minute
	// (thorough: also more than a minute), then further requests and the wait for all of them; the first kernel error
	// is reported and every acknowledgement is consumed, however old
	gaps := []int{1200}
	if g.ctx.Thorough() && g.ctx.Prop == "C17" {
		gaps = []int{1200, 11000, 31000, 61000}
	}
	for _, gap := range gaps {
		out = append(out, KCase{Kind: "history", BufLen: 64, Ops: []KOp{
			{K: "setratelimit", V: 1, WM: 2, Plans: []simkernel.Plan{{Items: []simkernel.Item{g.ack(1)}}}},
			{K: "setbackloglimit", V: 2, WM: 2, GapMs: gap, Plans: []simkernel.Plan{{Items: []simkernel.Item{g.ack(0)}}}},
			{K: "wait"}, {K: "wait"},
			{K: "setpid", WM: 2, Plans: []simkernel.Plan{{Items: []simkernel.Item{g.ack(0)}}}},
			{K: "close", GapMs: gap, Plans: []simkernel.Plan{{Items: []simkernel.Item{g.ack(0)}}}}}})
	}
	// status replies whose fields hold small numbers (version-like values, flags), one field at a time, at the
	// lengths of the historical layouts
	for _, n := range []int{32, 36, 40, 44, 48} {
		for w := 0; w*4 < n && w < 11; w++ {
			for v := uint32(0); v <= 8; v++ {
				b := make([]byte, n)
				binary.LittleEndian.PutUint32(b[4*w:], v)
				op := KOp{K: "getstatus", Plans: []simkernel.Plan{{Items: []simkernel.Item{g.ack(0), g.ownMsg(1000, b, 0)}}}}
				out = append(out, KCase{Kind: "history", BufLen: 64, Ops: []KOp{op}})
				if g.ctx.Prop == "C16" {
					out = append(out, KCase{Kind: "fromwire", Prior: hex.EncodeToString(make([]byte, 44)), Buf: hex.EncodeToString(b)})
				}
			}
		}
	}
	for _, n := range []int{64, 255, 256, 257, 300} {
		items := []simkernel.Item{g.ack(0)}
		for i := 0; i < n; i++ {
			items = append(items, g.ownMsg(1013, g.bytesN(1+i%90), 0))
		}
		items = append(items, g.ownMsg(3, nil, 0))
		out = append(out, KCase{Kind: "history", BufLen: 64, Ops: []KOp{{K: "getrules", Plans: []simkernel.Plan{{Items: items}}}, {K: "receive", Pre: []simkernel.Item{g.event()}}}})
		// ... and that many unsolicited events in front of a plain acknowledgement
		var ev []simkernel.Item
		for i := 0; i < n; i++ {
			ev = append(ev, g.event())
		}
		ev = append(ev, g.ack(0))
		out = append(out, KCase{Kind: "history", BufLen: 64, Ops: []KOp{{K: "setenabled", B: true, WM: 1, Plans: []simkernel.Plan{{Items: ev}}}}})
	}
	return out
}
