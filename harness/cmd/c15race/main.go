// c15race is the concurrent part of property C15's tie: many goroutines coalesce and resolve
// IDs for *different* events (own message objects per goroutine) at the same time, sharing
// only what the library shares — the normalisation tables, the package-level ID caches and
// one pair of caller-made caches.  It is built with -race when the race runtime is
// available and always runs as a child process of the drive harness, so that a runtime
// `fatal error: concurrent map writes` or a race report is an observation, not a crash of
// the harness.  Input: JSON on stdin; output: JSON on stdout.
package main

import (
	"encoding/json"
	"fmt"
	"os"
	"sync"
	"time"

	"github.com/elastic/go-libaudit/v2/aucoalesce"

	"verifharness/internal/coal"
)

type input struct {
	Groups     [][]coal.Rec `json:"groups"`
	Goroutines int          `json:"goroutines"`
	Rounds     int          `json:"rounds"`
}

type output struct {
	Runs       int      `json:"runs"`
	Mismatches []string `json:"mismatches"`
}

// one sequential pass: coalesce every group from fresh messages and resolve IDs through the
// given caches; returns the flattened events before and after resolution.
func pass(groups [][]coal.Rec, users, groupsC *aucoalesce.EntityCache, keep *[]*aucoalesce.Event) ([]string, []string, error) {
	before := make([]string, len(groups))
	after := make([]string, len(groups))
	for i, g := range groups {
		msgs, err := coal.BuildAll(g)
		if err != nil {
			return nil, nil, err
		}
		ev, obs := coal.RunCoalesce(msgs)
		before[i] = obs
		after[i] = obs
		if ev != nil {
			perr := coal.PrimaryErr(msgs)
			if users != nil {
				aucoalesce.ResolveIDsFromCaches(ev, users, groupsC)
			} else {
				aucoalesce.ResolveIDs(ev)
			}
			after[i] = coal.Flatten(ev, perr)
			if keep != nil {
				*keep = append(*keep, ev)
			}
		}
	}
	return before, after, nil
}

func main() {
	var in input
	if err := json.NewDecoder(os.Stdin).Decode(&in); err != nil {
		fmt.Fprintln(os.Stderr, "c15race: bad input:", err)
		os.Exit(3)
	}
	// sequential reference through private caches (the shared ones stay cold)
	refBefore, refAfter, err := pass(in.Groups, aucoalesce.NewUserCache(time.Minute), aucoalesce.NewGroupCache(time.Minute), nil)
	if err != nil {
		fmt.Fprintln(os.Stderr, "c15race:", err)
		os.Exit(3)
	}
	// shared by all goroutines: caches whose entries expire at once (every lookup is a miss
	// and therefore a write), and the package-level caches (cold at start)
	users, groups := aucoalesce.NewUserCache(0), aucoalesce.NewGroupCache(0)
	var mu sync.Mutex
	out := output{Mismatches: []string{}}
	report := func(s string) {
		mu.Lock()
		if len(out.Mismatches) < 10 {
			out.Mismatches = append(out.Mismatches, s)
		}
		mu.Unlock()
	}
	var wg sync.WaitGroup
	start := make(chan struct{})
	for g := 0; g < in.Goroutines; g++ {
		wg.Add(1)
		go func(g int) {
			defer wg.Done()
			<-start
			for r := 0; r < in.Rounds; r++ {
				// rotate so that different goroutines work on different groups at the same time
				n := len(in.Groups)
				rot := make([][]coal.Rec, n)
				idx := make([]int, n)
				for i := range rot {
					idx[i] = (i + g*7 + r) % n
					rot[i] = in.Groups[idx[i]]
				}
				var held []*aucoalesce.Event
				var b, a []string
				var err error
				if (g+r)%2 == 0 {
					b, a, err = pass(rot, users, groups, &held)
				} else {
					b, a, err = pass(rot, nil, nil, &held)
				}
				if err != nil {
					report(err.Error())
					return
				}
				for i := range rot {
					if b[i] != refBefore[idx[i]] {
						report(fmt.Sprintf("goroutine %d round %d group %d: concurrent CoalesceMessages result differs from the sequential one: %s / %s", g, r, idx[i], b[i], refBefore[idx[i]]))
					}
					if a[i] != refAfter[idx[i]] {
						report(fmt.Sprintf("goroutine %d round %d group %d: concurrent ResolveIDs result differs from the sequential one: %s / %s", g, r, idx[i], a[i], refAfter[idx[i]]))
					}
				}
				// events held while others were produced must still read the same
				k := 0
				for i := range rot {
					if b[i] == "panic" || len(b[i]) < 4 || b[i][:3] != "ts=" {
						continue
					}
					if k < len(held) {
						// the warning classes need the primary error; compare without them
						got := coal.Flatten(held[k], nil)
						want := a[i]
						if stripWarn(got) != stripWarn(want) {
							report(fmt.Sprintf("goroutine %d round %d group %d: a held event changed while other events were coalesced: %s / %s", g, r, idx[i], got, want))
						}
						k++
					}
				}
				mu.Lock()
				out.Runs += len(rot)
				mu.Unlock()
			}
		}(g)
	}
	close(start)
	wg.Wait()
	json.NewEncoder(os.Stdout).Encode(out)
}

func stripWarn(s string) string {
	for i := len(s) - 1; i >= 0; i-- {
		if s[i] == ';' {
			return s[:i]
		}
	}
	return s
}
