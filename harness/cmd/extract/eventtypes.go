package main

// Extraction of aucoalesce.GetAuditEventType, shared by Gen/EventTypes (C20) and
// Gen/CoalEventTypes (C09, C15).
//
//   - ranges: if the function is one tagless switch over constant ranges, its cases in source
//     order; otherwise (any other shape: a table and a loop, a map, helper functions, ...) the
//     run-length encoding of what the function answers for all 65536 codes in this fresh process.
//     Either way the ranges are cross-checked against the running library on every code.
//   - purity: the function and the same-package functions it calls (transitively) may only read
//     package-level variables that are written nowhere in the package (no assignment, element or
//     field store, ++/--, address-of, method call on them) and may not call into sync, sync/atomic,
//     time, math/rand or os: then its answer depends on its argument only. Emitted as
//     `pureFn : Bool` with the reason when false.
//   - order: the function is evaluated over all codes in descending and then ascending order in
//     this process; a code answered differently is emitted as `orderWitness` (some (t, first, second)).

import (
	"bytes"
	"fmt"
	"go/ast"
	"go/token"
	"go/types"
	"sort"
	"strings"

	"github.com/elastic/go-libaudit/v2/aucoalesce"
	"github.com/elastic/go-libaudit/v2/auparse"
)

type etExtract struct {
	items   []string // "(lo, hi, cat)"
	def     int64
	how     string
	pure    bool
	impure  string
	witness string // Lean Option (Nat × Nat × Nat)
}

var etCache *etExtract

func extractEventTypes(p *pkg) *etExtract {
	if etCache != nil {
		return etCache
	}
	e := &etExtract{witness: "none"}
	// runtime answers, descending first (so that a memo keyed on low codes cannot hide behind them)
	var first, second [65536]int64
	for t := 65535; t >= 0; t-- {
		first[t] = int64(aucoalesce.GetAuditEventType(auparse.AuditMessageType(t)))
	}
	for t := 0; t < 65536; t++ {
		second[t] = int64(aucoalesce.GetAuditEventType(auparse.AuditMessageType(t)))
		if second[t] != first[t] && e.witness == "none" {
			e.witness = fmt.Sprintf("some (%d, %d, %d)", t, first[t], second[t])
		}
	}
	fn := findFunc(p, "GetAuditEventType")
	if fn == nil || fn.Body == nil {
		fatal("aucoalesce.GetAuditEventType not found")
	}
	items, def, ok := switchRanges(p, fn)
	if ok {
		// cross-check the syntactic reading against the running library
		for t := int64(0); t < 65536 && ok; t++ {
			got := def
			for _, r := range items {
				if r[0] <= t && t <= r[1] {
					got = r[2]
					break
				}
			}
			if got != first[t] {
				ok = false
			}
		}
	}
	if ok {
		e.how = "tagless switch, cases in source order"
		e.def = def
		for _, r := range items {
			e.items = append(e.items, fmt.Sprintf("(%d, %d, %d)", r[0], r[1], r[2]))
		}
	} else {
		// behavioural reading: run-length encoding of the answers; default = the most frequent answer
		count := map[int64]int{}
		for _, c := range first {
			count[c]++
		}
		best := int64(0)
		for c, n := range count {
			if n > count[best] || n == count[best] && c < best {
				best = c
			}
		}
		e.def = best
		e.how = "function of unrecognised shape: run-length encoding of its answers over all 65536 codes"
		for t := 0; t < 65536; {
			u := t
			for u+1 < 65536 && first[u+1] == first[t] {
				u++
			}
			if first[t] != best {
				e.items = append(e.items, fmt.Sprintf("(%d, %d, %d)", t, u, first[t]))
			}
			t = u + 1
		}
	}
	e.pure, e.impure = pureFunc(p, fn)
	etCache = e
	return e
}

func findFunc(p *pkg, name string) *ast.FuncDecl {
	for _, f := range p.files {
		for _, d := range f.Decls {
			if fd, ok := d.(*ast.FuncDecl); ok && fd.Name.Name == name && fd.Recv == nil {
				return fd
			}
		}
	}
	return nil
}

// switchRanges reads `switch { case t == A, t >= A && t <= B: return C ... default: return D }`.
func switchRanges(p *pkg, fn *ast.FuncDecl) (items [][3]int64, def int64, ok bool) {
	if fn.Type.Params == nil || len(fn.Type.Params.List) != 1 || len(fn.Type.Params.List[0].Names) != 1 {
		return nil, 0, false
	}
	param := fn.Type.Params.List[0].Names[0].Name
	if len(fn.Body.List) != 1 {
		return nil, 0, false
	}
	sw, isSw := fn.Body.List[0].(*ast.SwitchStmt)
	if !isSw || sw.Tag != nil || sw.Init != nil {
		return nil, 0, false
	}
	isParam := func(e ast.Expr) bool {
		id, ok := e.(*ast.Ident)
		return ok && id.Name == param
	}
	cmp := func(e ast.Expr, op token.Token) (int64, bool) {
		be, ok := e.(*ast.BinaryExpr)
		if !ok || be.Op != op || !isParam(be.X) {
			return 0, false
		}
		return p.exprInt(be.Y)
	}
	def = -1
	seenDefault := false
	for _, st := range sw.Body.List {
		cc, isCC := st.(*ast.CaseClause)
		if !isCC || seenDefault || len(cc.Body) != 1 {
			return nil, 0, false
		}
		rs, isRet := cc.Body[0].(*ast.ReturnStmt)
		if !isRet || len(rs.Results) != 1 {
			return nil, 0, false
		}
		cat, isConst := p.exprInt(rs.Results[0])
		if !isConst {
			return nil, 0, false
		}
		if cc.List == nil {
			def, seenDefault = cat, true
			continue
		}
		for _, e := range cc.List {
			if v, ok := cmp(e, token.EQL); ok {
				items = append(items, [3]int64{v, v, cat})
				continue
			}
			if be, ok := e.(*ast.BinaryExpr); ok && be.Op == token.LAND {
				lo, ok1 := cmp(be.X, token.GEQ)
				hi, ok2 := cmp(be.Y, token.LEQ)
				if ok1 && ok2 {
					items = append(items, [3]int64{lo, hi, cat})
					continue
				}
			}
			return nil, 0, false
		}
	}
	if def < 0 {
		return nil, 0, false
	}
	return items, def, true
}

// pureFunc: see the file comment.
func pureFunc(p *pkg, root *ast.FuncDecl) (bool, string) {
	pkgVar := func(id *ast.Ident) *types.Var {
		if o, ok := p.info.Uses[id].(*types.Var); ok && o.Parent() == p.tpkg.Scope() {
			return o
		}
		return nil
	}
	rootIdent := func(e ast.Expr) *ast.Ident {
		for {
			switch x := e.(type) {
			case *ast.Ident:
				return x
			case *ast.SelectorExpr:
				e = x.X
			case *ast.IndexExpr:
				e = x.X
			case *ast.StarExpr:
				e = x.X
			case *ast.ParenExpr:
				e = x.X
			case *ast.SliceExpr:
				e = x.X
			default:
				return nil
			}
		}
	}
	// package-level variables written anywhere in the package
	written := map[*types.Var]string{}
	mark := func(e ast.Expr, why string, pos token.Pos) {
		if id := rootIdent(e); id != nil {
			if v := pkgVar(id); v != nil {
				if _, dup := written[v]; !dup {
					written[v] = fmt.Sprintf("%s at %s", why, p.fset.Position(pos))
				}
			}
		}
	}
	for _, f := range p.files {
		ast.Inspect(f, func(n ast.Node) bool {
			switch x := n.(type) {
			case *ast.AssignStmt:
				if x.Tok != token.DEFINE {
					for _, l := range x.Lhs {
						mark(l, "assigned", x.Pos())
					}
				}
			case *ast.IncDecStmt:
				mark(x.X, "incremented", x.Pos())
			case *ast.UnaryExpr:
				if x.Op == token.AND {
					mark(x.X, "address taken", x.Pos())
				}
			case *ast.CallExpr:
				if sel, ok := x.Fun.(*ast.SelectorExpr); ok {
					if _, isMethod := p.info.Uses[sel.Sel].(*types.Func); isMethod {
						if s, ok := p.info.Uses[sel.Sel].(*types.Func); ok && s.Type().(*types.Signature).Recv() != nil {
							mark(sel.X, "method "+sel.Sel.Name+" called on it", x.Pos())
						}
					}
				}
			case *ast.RangeStmt:
				if x.Tok == token.ASSIGN {
					if x.Key != nil {
						mark(x.Key, "assigned", x.Pos())
					}
					if x.Value != nil {
						mark(x.Value, "assigned", x.Pos())
					}
				}
			}
			return true
		})
	}
	banned := map[string]bool{"sync": true, "sync/atomic": true, "time": true, "math/rand": true, "os": true, "unsafe": true}
	seen := map[*ast.FuncDecl]bool{}
	var why string
	var visit func(fd *ast.FuncDecl)
	visit = func(fd *ast.FuncDecl) {
		if seen[fd] || why != "" || fd.Body == nil {
			return
		}
		seen[fd] = true
		ast.Inspect(fd.Body, func(n ast.Node) bool {
			if why != "" {
				return false
			}
			switch x := n.(type) {
			case *ast.Ident:
				if v := pkgVar(x); v != nil {
					if w, bad := written[v]; bad {
						why = fmt.Sprintf("%s reads package variable %s, which is %s", fd.Name.Name, v.Name(), w)
					}
				}
				if pn, ok := p.info.Uses[x].(*types.PkgName); ok && banned[pn.Imported().Path()] {
					why = fmt.Sprintf("%s uses package %s", fd.Name.Name, pn.Imported().Path())
				}
				if f, ok := p.info.Uses[x].(*types.Func); ok && f.Pkg() == p.tpkg {
					if sig := f.Type().(*types.Signature); sig.Recv() == nil {
						if callee := findFunc(p, f.Name()); callee != nil {
							visit(callee)
						}
					}
				}
			case *ast.GoStmt:
				why = fd.Name.Name + " starts a goroutine"
			case *ast.FuncLit:
				// closures are walked as part of the body
			}
			return true
		})
	}
	visit(root)
	return why == "", why
}

func emitEventTypes(module string, e *etExtract) {
	var b bytes.Buffer
	fmt.Fprintf(&b, "namespace LA.Gen.%s\n\n/-- GetAuditEventType as ordered (lo, hi, category) ranges; first match wins. Reading: %s. -/\n", module, e.how)
	chunked(&b, "ranges", "Nat × Nat × Nat", e.items)
	fmt.Fprintf(&b, "\n/-- the category of every code outside the ranges -/\ndef defaultCategory : Nat := %d\n", e.def)
	reason := e.impure
	if e.pure {
		reason = "reads only package variables that are written nowhere; no sync/atomic/time/rand/os"
	}
	fmt.Fprintf(&b, "\n/-- the function's answer depends on its argument only (syntactic purity check): %s -/\ndef pureFn : Bool := %v\n", strings.ReplaceAll(reason, "-/", "- /"), e.pure)
	fmt.Fprintf(&b, "\n/-- a code the function answered differently when asked a second time in the translator process: (code, first, second) -/\ndef orderWitness : Option (Nat × Nat × Nat) := %s\n", e.witness)
	fmt.Fprintf(&b, "\nend LA.Gen.%s\n", module)
	emit(module, &b)
	_ = sort.Strings
}
