package main

// Gen/ClientFacts: what (*AuditStatus).FromWireFormat does as a function of the buffer length, read
// off the running library: for every length 0..80 a receiver whose eleven fields are 0xAAAAAAAA
// decodes a buffer of that many 0x55 bytes; the table records the error (none) or the eleven words
// afterwards, whose bytes are 0x55 (copied from the buffer), 0x00 (zeroed) or 0xAA (left over from
// the receiver). LA.Props.C16 proves that the model's fromWire gives the same words for every
// length in the table.

import (
	"bytes"
	"fmt"
	"go/ast"
	"go/types"
	"path/filepath"
	"sort"
	"strings"

	libaudit "github.com/elastic/go-libaudit/v2"
)

func init() {
	generators = append(generators, func(repo string, root *pkg) {
		clientRoot = root
		runGen("genClientFacts", []string{"ClientFacts"}, func() { genClientFactsImpl() })
	})
}

var clientRoot *pkg

// clientClocks lists, for audit.go and netlink.go, every call that reads a clock or arms a timer or a deadline: a
// package-level function of package time other than Sleep (Now, Since, Until, After, AfterFunc, NewTimer, NewTicker,
// Tick), anything of package context, and a method named SetDeadline / SetReadDeadline / SetWriteDeadline:
// "function: callee". The client model waits for a reply through any number of unsolicited records and transient
// failures (its only notion of time is the bounded run of retries per read); a wait that also ends when a clock
// says so reports a failure for a request the kernel acknowledged, after an amount of waiting no check can afford to
// reproduce for every conceivable limit.
func clientClocks(root *pkg) []string {
	var out []string
	for _, f := range root.files {
		base := filepath.Base(root.fset.Position(f.Pos()).Filename)
		if base != "audit.go" && base != "netlink.go" {
			continue
		}
		for _, d := range f.Decls {
			fd, ok := d.(*ast.FuncDecl)
			if !ok || fd.Body == nil {
				continue
			}
			ast.Inspect(fd.Body, func(n ast.Node) bool {
				call, ok := n.(*ast.CallExpr)
				if !ok {
					return true
				}
				sel, ok := call.Fun.(*ast.SelectorExpr)
				if !ok {
					return true
				}
				switch sel.Sel.Name {
				case "SetDeadline", "SetReadDeadline", "SetWriteDeadline":
					out = append(out, fd.Name.Name+": "+sel.Sel.Name)
					return true
				}
				obj := root.info.Uses[sel.Sel]
				fn, ok := obj.(*types.Func)
				if !ok || fn.Pkg() == nil {
					return true
				}
				if sig, ok := fn.Type().(*types.Signature); ok && sig.Recv() != nil {
					return true
				}
				switch fn.Pkg().Path() {
				case "time":
					if fn.Name() != "Sleep" {
						out = append(out, fd.Name.Name+": time."+fn.Name())
					}
				case "context":
					out = append(out, fd.Name.Name+": context."+fn.Name())
				}
				return true
			})
		}
	}
	sort.Strings(out)
	return out
}

func genClientFactsImpl() {
	var b bytes.Buffer
	b.WriteString("namespace LA.Gen.ClientFacts\n")
	b.WriteString("/-- (buffer length, none = error | some (the eleven words of the receiver afterwards)); see harness/cmd/extract/clientfacts.go -/\n")
	var items []string
	for l := 0; l <= 80; l++ {
		const a = 0xAAAAAAAA
		s := libaudit.AuditStatus{Mask: a, Enabled: a, Failure: a, PID: a, RateLimit: a, BacklogLimit: a, Lost: a, Backlog: a,
			FeatureBitmap: a, BacklogWaitTime: a, BacklogWaitTimeActual: a}
		buf := bytes.Repeat([]byte{0x55}, l)
		err := s.FromWireFormat(buf)
		if err != nil {
			items = append(items, fmt.Sprintf("(%d, none)", l))
			continue
		}
		w := []uint32{uint32(s.Mask), s.Enabled, s.Failure, s.PID, s.RateLimit, s.BacklogLimit, s.Lost, s.Backlog, s.FeatureBitmap, s.BacklogWaitTime, s.BacklogWaitTimeActual}
		var ws []string
		for _, x := range w {
			ws = append(ws, fmt.Sprint(x))
		}
		items = append(items, fmt.Sprintf("(%d, some [%s])", l, strings.Join(ws, ", ")))
	}
	fmt.Fprintf(&b, "def fromWireByLength : List (Nat × Option (List Nat)) := [%s]\n", strings.Join(items, ",\n  "))
	b.WriteString("/-- calls in audit.go / netlink.go that read a clock or arm a timer or deadline (\"function: callee\"); see clientClocks in harness/cmd/extract/clientfacts.go -/\n")
	b.WriteString("def clientClocks : List String := [")
	for i, c := range clientClocks(clientRoot) {
		if i > 0 {
			b.WriteString(", ")
		}
		fmt.Fprintf(&b, "%q", c)
	}
	b.WriteString("]\n")
	b.WriteString("end LA.Gen.ClientFacts\n")
	emit("ClientFacts", &b)
}
