package main

// Gen/ClientFacts: what (*AuditStatus).FromWireFormat does as a function of the buffer length, read
// off the running library: for every length 0..80 a receiver whose eleven fields are 0xAAAAAAAA
// decodes a buffer of that many 0x55 bytes; the table records the error (none) or the eleven words
// afterwards, whose bytes are 0x55 (copied from the buffer), 0x00 (zeroed) or 0xAA (left over from
// the receiver). LA.Props.C16 proves that the model's fromWire gives the same words for every
// length in the table.

import (
	"bytes"
	"fmt"
	"strings"

	libaudit "github.com/elastic/go-libaudit/v2"
)

func init() {
	generators = append(generators, func(repo string, root *pkg) {
		runGen("genClientFacts", []string{"ClientFacts"}, func() { genClientFactsImpl() })
	})
}

func genClientFactsImpl() {
	var b bytes.Buffer
	b.WriteString("namespace LA.Gen.ClientFacts\n")
	b.WriteString("/-- (buffer length, none = error | some (the eleven words of the receiver afterwards)); see harness/cmd/extract/clientfacts.go -/\n")
	var items []string
	for l := 0; l <= 80; l++ {
		const a = 0xAAAAAAAA
		s := libaudit.AuditStatus{Mask: a, Enabled: a, Failure: a, PID: a, RateLimit: a, BacklogLimit: a, Lost: a, Backlog: a,
			FeatureBitmap: a, BacklogWaitTime: a, BacklogWaitTimeActual: a}
		buf := bytes.Repeat([]byte{0x55}, l)
		err := s.FromWireFormat(buf)
		if err != nil {
			items = append(items, fmt.Sprintf("(%d, none)", l))
			continue
		}
		w := []uint32{uint32(s.Mask), s.Enabled, s.Failure, s.PID, s.RateLimit, s.BacklogLimit, s.Lost, s.Backlog, s.FeatureBitmap, s.BacklogWaitTime, s.BacklogWaitTimeActual}
		var ws []string
		for _, x := range w {
			ws = append(ws, fmt.Sprint(x))
		}
		items = append(items, fmt.Sprintf("(%d, some [%s])", l, strings.Join(ws, ", ")))
	}
	fmt.Fprintf(&b, "def fromWireByLength : List (Nat × Option (List Nat)) := [%s]\n", strings.Join(items, ",\n  "))
	b.WriteString("end LA.Gen.ClientFacts\n")
	emit("ClientFacts", &b)
}
