package main

// Name/number tables (C20, and the models that use them): auparse message types,
// errno, arches, per-arch syscalls, rule field/operator/comparison tables, the
// names used by aucoalesce/normalizations.yaml and the event-type ranges.

import (
	"bytes"
	"fmt"
	"go/ast"
	"go/token"
	"go/types"
	"math/big"
	"os"
	"path/filepath"
	"sort"
	"strings"

	"gopkg.in/yaml.v3"
)

func init() { generators = append(generators, genTables) }

type kv struct {
	name string
	num  int64
}

// mapLit returns the entries of a map composite literal as (key, value) exprs.
func mapLit(cl *ast.CompositeLit) [][2]ast.Expr {
	var out [][2]ast.Expr
	for _, e := range cl.Elts {
		k := e.(*ast.KeyValueExpr)
		out = append(out, [2]ast.Expr{k.Key, k.Value})
	}
	return out
}

func bytesLit(s string) string {
	parts := make([]string, len(s))
	for i := 0; i < len(s); i++ {
		parts[i] = fmt.Sprint(s[i])
	}
	return "[" + strings.Join(parts, ", ") + "]"
}

func codeOf(s string) *big.Int {
	n := big.NewInt(1)
	for i := 0; i < len(s); i++ {
		n.Mul(n, big.NewInt(256))
		n.Add(n, big.NewInt(int64(s[i])))
	}
	return n
}

// tree emits a balanced BST literal over entries sorted by code.
type tent struct {
	code *big.Int
	val  int64
}

func treeLit(es []tent) string {
	if len(es) == 0 {
		return ".leaf"
	}
	m := len(es) / 2
	return fmt.Sprintf("(.node %s %s %d %s)", treeLit(es[:m]), es[m].code.String(), es[m].val, treeLit(es[m+1:]))
}

// emitTree writes `def name : Tree := …` splitting subtrees into separate defs so no
// single term is too deep/large for the elaborator.
func emitTree(b *bytes.Buffer, name string, es []tent) {
	sort.Slice(es, func(i, j int) bool { return es[i].code.Cmp(es[j].code) < 0 })
	// drop exact duplicates (same code and value); a code with two values stays and will fail the certificate
	var ded []tent
	for i, e := range es {
		if i > 0 && e.code.Cmp(es[i-1].code) == 0 && e.val == es[i-1].val {
			continue
		}
		ded = append(ded, e)
	}
	es = ded
	cnt := 0
	var rec func(es []tent) string
	rec = func(es []tent) string {
		if len(es) <= 16 {
			return treeLit(es)
		}
		m := len(es) / 2
		l, r := rec(es[:m]), rec(es[m+1:])
		cnt++
		sub := fmt.Sprintf("%s_t%d", name, cnt)
		fmt.Fprintf(b, "def %s : LA.Tree := .node %s %s %d %s\n", sub, l, es[m].code.String(), es[m].val, r)
		return sub
	}
	top := rec(es)
	fmt.Fprintf(b, "def %s : LA.Tree := %s\n", name, top)
}

func genTables(repo string, root *pkg) {
	var au, ru, co *pkg
	runGen("load auparse", []string{"MsgTypes", "Errno", "Arches", "Syscalls"}, func() { au = load(repo, "auparse", "auparse") })
	if au != nil {
		runGen("msgtypes", []string{"MsgTypes"}, func() { genMsgTypes(au) })
		runGen("errno", []string{"Errno"}, func() { genErrno(au) })
		runGen("arches", []string{"Arches"}, func() { genArches(au) })
		runGen("syscalls", []string{"Syscalls"}, func() { genSyscalls(au) })
	}
	runGen("load rule", []string{"RuleTables"}, func() { ru = load(repo, "rule", "rule") })
	if ru != nil {
		runGen("ruletables", []string{"RuleTables"}, func() { genRuleTables(ru) })
	}
	runGen("load aucoalesce", []string{"EventTypes"}, func() { co = load(repo, "aucoalesce", "aucoalesce") })
	if co != nil {
		runGen("eventtypes", []string{"EventTypes"}, func() { genEventTypes(co, au) })
	}
	runGen("normnames", []string{"NormNames"}, func() { genNormNames(repo) })
}

func genMsgTypes(au *pkg) {
	var b bytes.Buffer
	b.WriteString("import LA.Base.Table\nnamespace LA.Gen.MsgTypes\n")
	// type -> name
	var t2n []kv
	for _, e := range mapLit(au.varLit("auditMessageTypeToName")) {
		num, ok := au.exprInt(e[0])
		name, ok2 := au.exprStr(e[1])
		if !ok || !ok2 {
			fatal("auditMessageTypeToName: non-constant entry")
		}
		t2n = append(t2n, kv{name, num})
	}
	sort.Slice(t2n, func(i, j int) bool { return t2n[i].num < t2n[j].num })
	var items []string
	var tn []tent
	for _, e := range t2n {
		items = append(items, fmt.Sprintf("(%d, %s)", e.num, bytesLit(e.name)))
		tn = append(tn, tent{big.NewInt(e.num), 0})
	}
	chunked(&b, "typeToName", "Nat × List Nat", items)
	// name -> type
	var n2t []kv
	for _, e := range mapLit(au.varLit("auditMessageNameToType")) {
		name, ok := au.exprStr(e[0])
		num, ok2 := au.exprInt(e[1])
		if !ok || !ok2 {
			fatal("auditMessageNameToType: non-constant entry")
		}
		n2t = append(n2t, kv{name, num})
	}
	sort.Slice(n2t, func(i, j int) bool { return codeOf(n2t[i].name).Cmp(codeOf(n2t[j].name)) < 0 })
	items = nil
	var es []tent
	for _, e := range n2t {
		items = append(items, fmt.Sprintf("(%s, %d)", bytesLit(e.name), e.num))
		es = append(es, tent{codeOf(e.name), e.num})
	}
	chunked(&b, "nameToType", "List Nat × Nat", items)
	emitTree(&b, "nameTree", es)
	// type -> index into typeToName (tree keyed by type code) for logarithmic lookup
	var ti []tent
	for i, e := range t2n {
		ti = append(ti, tent{big.NewInt(e.num), int64(i)})
	}
	emitTree(&b, "typeTree", ti)
	for _, c := range []string{"AUDIT_EOE", "AUDIT_PROCTITLE", "AUDIT_LAST_DAEMON", "AUDIT_ANOM_LOGIN_FAILURES", "AUDIT_SYSCALL", "AUDIT_PATH",
		"AUDIT_SECCOMP", "AUDIT_SOCKADDR", "AUDIT_USER_CMD", "AUDIT_TTY", "AUDIT_USER_TTY", "AUDIT_EXECVE", "AUDIT_USER_LOGIN", "AUDIT_AVC",
		"AUDIT_LOGIN", "AUDIT_CRED_DISP", "AUDIT_USER_START", "AUDIT_USER_END", "AUDIT_CWD", "AUDIT_LIST_RULES", "AUDIT_ADD_RULE", "AUDIT_DEL_RULE"} {
		fmt.Fprintf(&b, "def %s : Nat := %d\n", c, au.constInt(c))
	}
	b.WriteString("end LA.Gen.MsgTypes\n")
	emit("MsgTypes", &b)
}

func genErrno(au *pkg) {
	var b bytes.Buffer
	b.WriteString("import LA.Base.Table\nnamespace LA.Gen.Errno\n")
	var toNum, toName []string
	var es []tent
	for _, e := range mapLit(au.varLit("AuditErrnoToNum")) {
		name, ok := au.exprStr(e[0])
		num, ok2 := au.exprInt(e[1])
		if !ok || !ok2 {
			fatal("AuditErrnoToNum: non-constant entry")
		}
		toNum = append(toNum, fmt.Sprintf("(%s, %d)", bytesLit(name), num))
		es = append(es, tent{codeOf(name), num})
	}
	for _, e := range mapLit(au.varLit("AuditErrnoToName")) {
		num, ok := au.exprInt(e[0])
		name, ok2 := au.exprStr(e[1])
		if !ok || !ok2 {
			fatal("AuditErrnoToName: non-constant entry")
		}
		toName = append(toName, fmt.Sprintf("(%d, %s)", num, bytesLit(name)))
	}
	chunked(&b, "errnoToNum", "List Nat × Nat", toNum)
	chunked(&b, "errnoToName", "Nat × List Nat", toName)
	emitTree(&b, "numTree", es)
	b.WriteString("end LA.Gen.Errno\n")
	emit("Errno", &b)
}

func genArches(au *pkg) {
	var b bytes.Buffer
	b.WriteString("namespace LA.Gen.Arches\n")
	var items []string
	for _, e := range mapLit(au.varLit("AuditArchNames")) {
		num, ok := au.exprInt(e[0])
		name, ok2 := au.exprStr(e[1])
		if !ok || !ok2 {
			fatal("AuditArchNames: non-constant entry")
		}
		items = append(items, fmt.Sprintf("(%d, %s)", num, bytesLit(name)))
	}
	chunked(&b, "archNames", "Nat × List Nat", items)
	b.WriteString("end LA.Gen.Arches\n")
	emit("Arches", &b)
}

// syscallIndex[arch][name] = index of the entry in that arch's table (sorted by number).
var syscallIndex = map[string]map[string]int{}
var syscallArchOrder []string

func genSyscalls(au *pkg) {
	cl := au.varLit("AuditSyscalls")
	var arches []string
	for _, e := range mapLit(cl) {
		arch, ok := au.exprStr(e[0])
		if !ok {
			fatal("AuditSyscalls: non-constant arch")
		}
		arches = append(arches, arch)
		var b bytes.Buffer
		mod := "Syscalls_" + arch
		fmt.Fprintf(&b, "import LA.Base.Table\nnamespace LA.Gen.%s\n", mod)
		var ents []kv
		for _, f := range mapLit(e[1].(*ast.CompositeLit)) {
			num, ok := au.exprInt(f[0])
			name, ok2 := au.exprStr(f[1])
			if !ok || !ok2 {
				fatal("AuditSyscalls[%s]: non-constant entry", arch)
			}
			ents = append(ents, kv{name, num})
		}
		sort.SliceStable(ents, func(i, j int) bool { return ents[i].num < ents[j].num })
		var items []string
		var es, byNum []tent
		for i, x := range ents {
			items = append(items, fmt.Sprintf("(%d, %s)", x.num, bytesLit(x.name)))
			es = append(es, tent{codeOf(x.name), x.num})
			byNum = append(byNum, tent{big.NewInt(x.num), int64(i)})
		}
		chunked(&b, "table", "Nat × List Nat", items)
		emitTree(&b, "nameTree", es)
		emitTree(&b, "numTree", byNum)
		fmt.Fprintf(&b, "def archName : List Nat := %s\n", bytesLit(arch))
		// certificates, re-checked by the kernel whenever this table changes
		b.WriteString("/-- every entry's name is found in the name tree with the entry's number: a name maps to one number. -/\n")
		b.WriteString("theorem cert_names : table.all (fun p => nameTree.find (LA.encode p.2) == some p.1) = true := by decide +kernel\n")
		b.WriteString("theorem cert_nums : (table.zipIdx).all (fun q => numTree.find q.1.1 == some q.2) = true := by decide +kernel\n")
		b.WriteString("theorem cert_sorted : LA.strictlyIncreasing (table.map (·.1)) = true := by decide +kernel\n")
		idx := map[string]int{}
		for i, x := range ents {
			if _, dup := idx[x.name]; !dup {
				idx[x.name] = i
			}
		}
		syscallIndex[arch] = idx
		fmt.Fprintf(&b, "end LA.Gen.%s\n", mod)
		emit(mod, &b)
	}
	// the init() aliases: verify their shape (ppc64, ppc64le := ppc) and record them
	var aliases [][2]string
	for _, f := range au.files {
		for _, d := range f.Decls {
			fd, ok := d.(*ast.FuncDecl)
			if !ok || fd.Name.Name != "init" || fd.Recv != nil {
				continue
			}
			src := map[string]string{}
			ast.Inspect(fd.Body, func(n ast.Node) bool {
				as, ok := n.(*ast.AssignStmt)
				if !ok {
					return true
				}
				// x, found := AuditSyscalls["ppc"]
				if len(as.Rhs) == 1 {
					if ix, ok := as.Rhs[0].(*ast.IndexExpr); ok {
						if id, ok := ix.X.(*ast.Ident); ok && id.Name == "AuditSyscalls" && as.Tok == token.DEFINE {
							if s, ok := au.exprStr(ix.Index); ok {
								src[as.Lhs[0].(*ast.Ident).Name] = s
							}
						}
					}
				}
				// AuditSyscalls["ppc64"] = x
				if len(as.Lhs) == 1 && as.Tok == token.ASSIGN {
					if ix, ok := as.Lhs[0].(*ast.IndexExpr); ok {
						if id, ok := ix.X.(*ast.Ident); ok && id.Name == "AuditSyscalls" {
							dst, ok1 := au.exprStr(ix.Index)
							rid, ok2 := as.Rhs[0].(*ast.Ident)
							if !ok1 || !ok2 || src[rid.Name] == "" {
								fatal("auparse init(): unexpected assignment to AuditSyscalls")
							}
							aliases = append(aliases, [2]string{dst, src[rid.Name]})
						}
					}
				}
				return true
			})
		}
	}
	var b bytes.Buffer
	sort.Strings(arches)
	syscallArchOrder = arches
	for _, a := range arches {
		fmt.Fprintf(&b, "import LA.Gen.Syscalls_%s\n", a)
	}
	b.WriteString("import LA.Base.Table\nnamespace LA.Gen.Syscalls\n")
	var rows []string
	for _, a := range arches {
		rows = append(rows, fmt.Sprintf("(%s, LA.Gen.Syscalls_%s.table, LA.Gen.Syscalls_%s.nameTree, LA.Gen.Syscalls_%s.numTree)", bytesLit(a), a, a, a))
	}
	for _, al := range aliases {
		rows = append(rows, fmt.Sprintf("(%s, LA.Gen.Syscalls_%s.table, LA.Gen.Syscalls_%s.nameTree, LA.Gen.Syscalls_%s.numTree)", bytesLit(al[0]), al[1], al[1], al[1]))
	}
	fmt.Fprintf(&b, "def tables : List (List Nat × List (Nat × List Nat) × LA.Tree × LA.Tree) := [\n  %s]\n", strings.Join(rows, ",\n  "))
	b.WriteString("end LA.Gen.Syscalls\n")
	emit("Syscalls", &b)
}

func genRuleTables(ru *pkg) {
	var b bytes.Buffer
	b.WriteString("namespace LA.Gen.RuleTables\n")
	var items []string
	for _, e := range mapLit(ru.varLit("fieldsTable")) {
		name, ok := ru.exprStr(e[0])
		num, ok2 := ru.exprInt(e[1])
		if !ok || !ok2 {
			fatal("fieldsTable: non-constant entry")
		}
		items = append(items, fmt.Sprintf("(%s, %d)", bytesLit(name), num))
	}
	sort.Strings(items)
	chunked(&b, "fieldsTable", "List Nat × Nat", items)
	items = nil
	for _, e := range mapLit(ru.varLit("operatorsTable")) {
		name, ok := ru.exprStr(e[0])
		num, ok2 := ru.exprInt(e[1])
		if !ok || !ok2 {
			fatal("operatorsTable: non-constant entry")
		}
		items = append(items, fmt.Sprintf("(%s, %d)", bytesLit(name), num))
	}
	sort.Strings(items)
	chunked(&b, "operatorsTable", "List Nat × Nat", items)
	items = nil
	for _, e := range mapLit(ru.varLit("comparisonsTable")) {
		l, ok := ru.exprInt(e[0])
		if !ok {
			fatal("comparisonsTable: non-constant key")
		}
		for _, f := range mapLit(e[1].(*ast.CompositeLit)) {
			r, ok1 := ru.exprInt(f[0])
			c, ok2 := ru.exprInt(f[1])
			if !ok1 || !ok2 {
				fatal("comparisonsTable: non-constant entry")
			}
			items = append(items, fmt.Sprintf("(%d, %d, %d)", l, r, c))
		}
	}
	sort.Strings(items)
	chunked(&b, "comparisonsTable", "Nat × Nat × Nat", items)
	// scalar constants
	for _, c := range []string{"maxKeyLength", "pathMax", "keySeparator", "syscallBitmaskSize", "maxFields", "ruleHeaderSize",
		"userFilter", "taskFilter", "entryFilter", "watchFilter", "exitFilter", "typeFilter", "excludeFilter", "prependFilter",
		"neverAction", "possibleAction", "alwaysAction", "fieldCompare",
		"execPerm", "writePerm", "readPerm", "attrPerm",
		"fileFiletype", "socketFiletype", "linkFiletype", "blockFiletype", "dirFiletype", "characterFiletype", "fifoFiletype"} {
		fmt.Fprintf(&b, "def %s : Nat := %d\n", c, ru.constInt(c))
	}
	// field constants by Go identifier (used by the rule model's field classes)
	var fc []string
	sc := ru.tpkg.Scope()
	for _, n := range sc.Names() {
		if _, isConst := sc.Lookup(n).(*types.Const); isConst && strings.HasSuffix(n, "Field") && n != "fieldCompare" {
			fc = append(fc, n)
		}
	}
	sort.Strings(fc)
	for _, n := range fc {
		fmt.Fprintf(&b, "def %s : Nat := %d\n", n, ru.constInt(n))
	}
	b.WriteString("end LA.Gen.RuleTables\n")
	emit("RuleTables", &b)
}

// genEventTypes: see eventtypes.go.
func genEventTypes(co, au *pkg) {
	emitEventTypes("EventTypes", extractEventTypes(co))
}

// genNormNames extracts from normalizations.yaml what C20 needs: per normalisation
// its record types, syscalls and whether it has a has_fields qualifier.
func genNormNames(repo string) {
	data, err := os.ReadFile(filepath.Join(repo, "aucoalesce", "normalizations.yaml"))
	if err != nil {
		fatal("%v", err)
	}
	type strs []string
	var cfg struct {
		Normalizations []map[string]yaml.Node `yaml:"normalizations"`
	}
	if err := yaml.Unmarshal(data, &cfg); err != nil {
		fatal("normalizations.yaml: %v", err)
	}
	list := func(n yaml.Node) []string {
		var one string
		if err := n.Decode(&one); err == nil {
			return []string{one}
		}
		var many []string
		if err := n.Decode(&many); err != nil {
			fatal("normalizations.yaml: %v", err)
		}
		return many
	}
	var b bytes.Buffer
	b.WriteString("import LA.Base.Table\nnamespace LA.Gen.NormNames\n")
	var rts, scs []string
	var scTree []tent
	for i, n := range cfg.Normalizations {
		hf := "false"
		if x, ok := n["has_fields"]; ok && len(list(x)) > 0 {
			hf = "true"
		}
		if x, ok := n["record_types"]; ok {
			for _, s := range list(x) {
				rts = append(rts, fmt.Sprintf("(%s, %d, %s)", bytesLit(s), i, hf))
			}
		}
		if x, ok := n["syscalls"]; ok {
			for _, s := range list(x) {
				// witness: (position of the arch in LA.Gen.Syscalls.tables, index in its table), or none
				wit := "none"
				for ai, a := range syscallArchOrder {
					if j, ok := syscallIndex[a][s]; ok {
						wit = fmt.Sprintf("some (%d, %d)", ai, j)
						break
					}
				}
				scs = append(scs, fmt.Sprintf("(%s, %d, %s)", bytesLit(s), i, wit))
				scTree = append(scTree, tent{codeOf(s), int64(i)})
			}
		}
	}
	chunked(&b, "recordTypes", "List Nat × Nat × Bool", rts)
	chunked(&b, "syscalls", "List Nat × Nat × Option (Nat × Nat)", scs)
	emitTree(&b, "syscallTree", scTree)
	fmt.Fprintf(&b, "def count : Nat := %d\n", len(cfg.Normalizations))
	b.WriteString("end LA.Gen.NormNames\n")
	emit("NormNames", &b)
}
