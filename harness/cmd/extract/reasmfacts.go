package main

// Gen/ReasmFacts: the life cycle of a lone record, for every one of the 65536 record types, read
// off the running library through its public API only (so the shape of event.Add, eventList.Put and
// eventList.CleanUp does not matter):
//
//	0  the record is delivered by the very push that brought it (a terminating record type)
//	1  it stays buffered and is delivered, alone, by the push of an EOE (type 1320) with its sequence
//	2  neither push delivers anything (the record is not buffered: the EOE type itself)
//	3  anything else (delivered together with something, delivered twice, losses reported, ...)
//
// Emitted as a run-length encoding; LA.Props.C10 proves that the model's step function has the same
// life cycle for all 65536 types.

import (
	"bytes"
	"fmt"
	"time"

	libaudit "github.com/elastic/go-libaudit/v2"
	"github.com/elastic/go-libaudit/v2/auparse"
)

func init() {
	generators = append(generators, func(repo string, root *pkg) {
		runGen("genReasmFacts", []string{"ReasmFacts"}, func() { genReasmFactsImpl() })
	})
}

type lifeStream struct {
	groups [][]*auparse.AuditMessage
	lost   int
}

func (s *lifeStream) ReassemblyComplete(msgs []*auparse.AuditMessage) {
	s.groups = append(s.groups, msgs)
}
func (s *lifeStream) EventsLost(n int) { s.lost += n }

func lifeCycle(t int) int {
	s := &lifeStream{}
	r, err := libaudit.NewReassembler(4, time.Hour, s)
	if err != nil {
		fatal("NewReassembler: %v", err)
	}
	defer r.Close()
	first := &auparse.AuditMessage{RecordType: auparse.AuditMessageType(t), Sequence: 7, Timestamp: time.Unix(1, 0)}
	r.PushMessage(first)
	alone := func() bool {
		return len(s.groups) == 1 && len(s.groups[0]) == 1 && s.groups[0][0] == first && s.lost == 0
	}
	if len(s.groups) != 0 || s.lost != 0 {
		if alone() {
			return 0
		}
		return 3
	}
	r.PushMessage(&auparse.AuditMessage{RecordType: auparse.AuditMessageType(1320), Sequence: 7, Timestamp: time.Unix(1, 0)})
	if len(s.groups) == 0 && s.lost == 0 {
		return 2
	}
	if alone() {
		return 1
	}
	return 3
}

func genReasmFactsImpl() {
	var life [65536]int
	for t := 0; t < 65536; t++ {
		life[t] = lifeCycle(t)
	}
	var b bytes.Buffer
	b.WriteString("namespace LA.Gen.ReasmFacts\n")
	b.WriteString("/-- (first type, last type, life cycle of a lone record of these types); see harness/cmd/extract/reasmfacts.go -/\n")
	b.WriteString("def lifeCycle : List (Nat × Nat × Nat) := [")
	n := 0
	for t := 0; t < 65536; {
		u := t
		for u+1 < 65536 && life[u+1] == life[t] {
			u++
		}
		if n > 0 {
			b.WriteString(", ")
		}
		fmt.Fprintf(&b, "(%d, %d, %d)", t, u, life[t])
		n++
		t = u + 1
	}
	b.WriteString("]\n")
	b.WriteString("end LA.Gen.ReasmFacts\n")
	if n > 4096 {
		fatal("life cycle table has %d runs: not a range-shaped function of the record type", n)
	}
	emit("ReasmFacts", &b)
}
