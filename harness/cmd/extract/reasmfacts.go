package main

// Gen/ReasmFacts: the life cycle of a lone record, for every one of the 65536 record types, read
// off the running library through its public API only (so the shape of event.Add, eventList.Put and
// eventList.CleanUp does not matter):
//
//	0  the record is delivered by the very push that brought it (a terminating record type)
//	1  it stays buffered and is delivered, alone, by the push of an EOE (type 1320) with its sequence
//	2  neither push delivers anything (the record is not buffered: the EOE type itself)
//	3  anything else (delivered together with something, delivered twice, losses reported, ...)
//
// Emitted as a run-length encoding; LA.Props.C10 proves that the model's step function has the same
// life cycle for all 65536 types.

import (
	"bytes"
	"fmt"
	"go/ast"
	"go/types"
	"path/filepath"
	"reflect"
	"sort"
	"strings"
	"time"

	libaudit "github.com/elastic/go-libaudit/v2"
	"github.com/elastic/go-libaudit/v2/auparse"
)

var reasmRoot *pkg

func init() {
	generators = append(generators, func(repo string, root *pkg) {
		reasmRoot = root
		runGen("genReasmFacts", []string{"ReasmFacts"}, func() { genReasmFactsImpl() })
	})
}

// clockStrips lists, for reassembler.go, every call on a time.Time value of a method that gives up the monotonic clock
// reading or turns the time into a number (UTC, Local, In, Round, Truncate, Unix, UnixNano, UnixMilli, UnixMicro,
// Format, String, MarshalX, AddDate): "function: method". A deadline is compared on the monotonic clock only if both
// sides still carry the reading; a `time.Now().UTC()` on either side makes it a wall-clock comparison, which no
// history a check may produce (it must not step the system clock) tells from the right one.
func clockStrips(root *pkg) []string {
	strips := map[string]bool{"UTC": true, "Local": true, "In": true, "Round": true, "Truncate": true, "Unix": true, "UnixNano": true, "UnixMilli": true, "UnixMicro": true,
		"Format": true, "String": true, "AddDate": true, "MarshalBinary": true, "MarshalText": true, "MarshalJSON": true, "GobEncode": true, "Zone": true, "ZoneBounds": true}
	var out []string
	for _, f := range root.files {
		if filepath.Base(root.fset.Position(f.Pos()).Filename) != "reassembler.go" {
			continue
		}
		for _, d := range f.Decls {
			fd, ok := d.(*ast.FuncDecl)
			if !ok || fd.Body == nil {
				continue
			}
			ast.Inspect(fd.Body, func(n ast.Node) bool {
				call, ok := n.(*ast.CallExpr)
				if !ok {
					return true
				}
				sel, ok := call.Fun.(*ast.SelectorExpr)
				if !ok || !strips[sel.Sel.Name] {
					return true
				}
				if tv, ok := root.info.Types[sel.X]; ok && tv.Type != nil && strings.TrimPrefix(tv.Type.String(), "*") == "time.Time" {
					out = append(out, fd.Name.Name+": "+sel.Sel.Name)
				}
				return true
			})
		}
	}
	sort.Strings(out)
	return out
}

// msgReads lists what reassembler.go does with the messages it is given beyond keeping and handing on the pointers:
// "field:<Name>" for every field or method of auparse.AuditMessage it selects, and "call:<callee>" for every call that
// hands a message or a slice of messages to a function declared outside the root package (append excepted). The
// Reassembler model's message is (identity, sequence, record type): grouping, order, completion and loss accounting
// are functions of those and of the clock. A Reassembler that also looks at the time stamp, the text or the parsed
// data of a record is outside that reading, whatever it uses them for.
func msgReads(root *pkg) []string {
	seen := map[string]bool{}
	isMsg := func(t types.Type) bool {
		if t == nil {
			return false
		}
		s := t.String()
		s = strings.TrimPrefix(s, "[]")
		s = strings.TrimPrefix(s, "*")
		return strings.HasSuffix(s, "/auparse.AuditMessage")
	}
	for _, f := range root.files {
		if filepath.Base(root.fset.Position(f.Pos()).Filename) != "reassembler.go" {
			continue
		}
		ast.Inspect(f, func(n ast.Node) bool {
			switch x := n.(type) {
			case *ast.SelectorExpr:
				if tv, ok := root.info.Types[x.X]; ok && isMsg(tv.Type) && !strings.HasPrefix(tv.Type.String(), "[]") {
					seen["field:"+x.Sel.Name] = true
				}
			case *ast.CallExpr:
				hands := false
				for _, a := range x.Args {
					if tv, ok := root.info.Types[a]; ok && isMsg(tv.Type) {
						hands = true
					}
				}
				if !hands {
					return true
				}
				switch fun := x.Fun.(type) {
				case *ast.Ident:
					if obj := root.info.Uses[fun]; obj != nil && obj.Pkg() == nil {
						return true // a builtin (append, make, len, cap, copy): the pointers are kept or counted, not read
					}
					if obj := root.info.Uses[fun]; obj != nil && obj.Pkg() == root.tpkg {
						return true
					}
					seen["call:"+fun.Name] = true
				case *ast.SelectorExpr:
					if obj := root.info.Uses[fun.Sel]; obj != nil && obj.Pkg() == root.tpkg {
						if fn, ok := obj.(*types.Func); ok {
							if sig, ok := fn.Type().(*types.Signature); ok && sig.Recv() != nil {
								if _, isIface := sig.Recv().Type().Underlying().(*types.Interface); !isIface {
									return true
								}
							}
						}
					}
					seen["call:"+fun.Sel.Name] = true
				default:
					seen["call:?"] = true
				}
			}
			return true
		})
	}
	var out []string
	for k := range seen {
		out = append(out, k)
	}
	sort.Strings(out)
	return out
}

type lifeStream struct {
	groups [][]*auparse.AuditMessage
	lost   int
}

func (s *lifeStream) ReassemblyComplete(msgs []*auparse.AuditMessage) {
	s.groups = append(s.groups, msgs)
}
func (s *lifeStream) EventsLost(n int) { s.lost += n }

func lifeCycle(t int) int {
	s := &lifeStream{}
	r, err := libaudit.NewReassembler(4, time.Hour, s)
	if err != nil {
		fatal("NewReassembler: %v", err)
	}
	defer r.Close()
	first := &auparse.AuditMessage{RecordType: auparse.AuditMessageType(t), Sequence: 7, Timestamp: time.Unix(1, 0)}
	r.PushMessage(first)
	alone := func() bool {
		return len(s.groups) == 1 && len(s.groups[0]) == 1 && s.groups[0][0] == first && s.lost == 0
	}
	if len(s.groups) != 0 || s.lost != 0 {
		if alone() {
			return 0
		}
		return 3
	}
	r.PushMessage(&auparse.AuditMessage{RecordType: auparse.AuditMessageType(1320), Sequence: 7, Timestamp: time.Unix(1, 0)})
	if len(s.groups) == 0 && s.lost == 0 {
		return 2
	}
	if alone() {
		return 1
	}
	return 3
}

// windowStored reads, for a ladder of maxInFlight values, what the constructor keeps as the size of the window. The
// field is found by value, not by name: a Reassembler made with maxInFlight 7 and one made with 11 are walked through
// reflection, and the int-kinded fields (at any depth below the struct) that hold 7 in the first and 11 in the second
// are the ones followed. No such field: an empty list (nothing to state).
func windowStored() [][2]int {
	type path []int
	var find func(v reflect.Value, depth int, cur path, out *[]path, want int64)
	find = func(v reflect.Value, depth int, cur path, out *[]path, want int64) {
		if depth > 4 {
			return
		}
		for v.Kind() == reflect.Ptr || v.Kind() == reflect.Interface {
			if v.IsNil() {
				return
			}
			v = v.Elem()
		}
		if v.Kind() != reflect.Struct {
			return
		}
		for i := 0; i < v.NumField(); i++ {
			f := v.Field(i)
			p := append(append(path{}, cur...), i)
			switch f.Kind() {
			case reflect.Int, reflect.Int64, reflect.Int32:
				if f.Int() == want {
					*out = append(*out, p)
				}
			case reflect.Ptr, reflect.Struct, reflect.Interface:
				find(f, depth+1, p, out, want)
			}
		}
	}
	at := func(v reflect.Value, p path) (int64, bool) {
		for _, i := range p {
			for v.Kind() == reflect.Ptr || v.Kind() == reflect.Interface {
				if v.IsNil() {
					return 0, false
				}
				v = v.Elem()
			}
			if v.Kind() != reflect.Struct || i >= v.NumField() {
				return 0, false
			}
			v = v.Field(i)
		}
		switch v.Kind() {
		case reflect.Int, reflect.Int64, reflect.Int32:
			return v.Int(), true
		}
		return 0, false
	}
	mk := func(n int) (reflect.Value, func()) {
		r, err := libaudit.NewReassembler(n, time.Hour, &lifeStream{})
		if err != nil {
			fatal("NewReassembler(%d): %v", n, err)
		}
		return reflect.ValueOf(r), func() { r.Close() }
	}
	v7, c7 := mk(7)
	defer c7()
	v11, c11 := mk(11)
	defer c11()
	var p7 []path
	find(v7, 0, nil, &p7, 7)
	var fields []path
	for _, p := range p7 {
		if x, ok := at(v11, p); ok && x == 11 {
			fields = append(fields, p)
		}
	}
	var out [][2]int
	for _, n := range []int{0, 1, 5, 255, 256, 4096, 65535, 65536, 65537, 131071, 131072, 131073, 200000, 1 << 18, 1<<20 + 1} {
		v, cl := mk(n)
		for _, p := range fields {
			if x, ok := at(v, p); ok {
				out = append(out, [2]int{n, int(x)})
			}
		}
		cl()
	}
	return out
}

// deadlinesMonotonic: which clock the time-out is measured on. The model's times are readings of one clock that never
// jumps; in Go that is the monotonic reading a time.Time carries when it comes from time.Now() and has not been
// stripped (Round, Truncate, UTC, In, Local, a trip through an integer). A record that never completes is pushed into a
// fresh Reassembler and everything reachable from the Reassembler is walked through reflection; for every non-zero
// time.Time found (the event's deadline, however the field is called) the answer is whether it carries a monotonic
// reading. The pushed message's own Timestamp is zero and therefore not among them.
func deadlinesMonotonic() []bool {
	r, err := libaudit.NewReassembler(5, time.Hour, &lifeStream{})
	if err != nil {
		fatal("NewReassembler: %v", err)
	}
	defer r.Close()
	r.PushMessage(&auparse.AuditMessage{RecordType: 1300, Sequence: 77})
	r.Maintain() // whatever a clean-up pass remembers about when it ran is set by now
	var out []bool
	seen := map[uintptr]bool{}
	timeT := reflect.TypeOf(time.Time{})
	var walk func(v reflect.Value, depth int)
	walk = func(v reflect.Value, depth int) {
		if depth > 12 || !v.IsValid() {
			return
		}
		if v.Type() == timeT {
			wall, ext := v.Field(0), v.Field(1)
			if wall.Kind() == reflect.Uint64 && ext.Kind() == reflect.Int64 && (wall.Uint() != 0 || ext.Int() != 0) {
				out = append(out, wall.Uint()&(1<<63) != 0)
			}
			return
		}
		switch v.Kind() {
		case reflect.Ptr:
			if v.IsNil() || seen[v.Pointer()] {
				return
			}
			seen[v.Pointer()] = true
			walk(v.Elem(), depth+1)
		case reflect.Interface:
			if !v.IsNil() {
				walk(v.Elem(), depth+1)
			}
		case reflect.Struct:
			for i := 0; i < v.NumField(); i++ {
				walk(v.Field(i), depth+1)
			}
		case reflect.Slice, reflect.Array:
			for i := 0; i < v.Len() && i < 64; i++ {
				walk(v.Index(i), depth+1)
			}
		case reflect.Map:
			it := v.MapRange()
			for n := 0; it.Next() && n < 64; n++ {
				walk(it.Value(), depth+1)
			}
		}
	}
	walk(reflect.ValueOf(r), 0)
	return out
}

// narrowCounters: integer fields of at most 32 bits, anywhere below a Reassembler, that count operations. A fresh
// Reassembler delivers six events (sequence numbers 1000, 2000, ...: a field that follows the sequence number moves in
// steps of a thousand, not of one), with a Maintain after each; another one is closed four times. A field whose value
// grows by the same small step (1..4) from one round to the next is a counter of deliveries, calls or closes; if it is
// narrower than 64 bits it wraps within the life of a daemon (2^32 events are a few hours of a busy host), and whatever
// is decided from it is then decided wrongly. The model's state has no such component. Fields are named by their
// position (indices from the Reassembler struct down) and kind, not by name.
func narrowCounters() []string {
	type snap map[string]int64
	take := func(root reflect.Value) snap {
		out := snap{}
		seen := map[uintptr]bool{}
		var walk func(v reflect.Value, path string, depth int)
		walk = func(v reflect.Value, path string, depth int) {
			if depth > 6 || !v.IsValid() {
				return
			}
			switch v.Kind() {
			case reflect.Int8, reflect.Int16, reflect.Int32:
				out[path+":"+v.Kind().String()] = v.Int()
			case reflect.Uint8, reflect.Uint16, reflect.Uint32:
				out[path+":"+v.Kind().String()] = int64(v.Uint())
			case reflect.Ptr:
				if v.IsNil() || seen[v.Pointer()] {
					return
				}
				seen[v.Pointer()] = true
				walk(v.Elem(), path, depth+1)
			case reflect.Interface:
				if !v.IsNil() {
					walk(v.Elem(), path, depth+1)
				}
			case reflect.Struct:
				if v.Type().PkgPath() == "sync" || v.Type().PkgPath() == "time" {
					return // a mutex's state word, a Time's fields: not the library's counters
				}
				for i := 0; i < v.NumField(); i++ {
					walk(v.Field(i), fmt.Sprintf("%s.%d", path, i), depth+1)
				}
			}
		}
		walk(root, "r", 0)
		return out
	}
	counters := func(snaps []snap) []string {
		var out []string
		for p, v0 := range snaps[0] {
			step := int64(0)
			ok := true
			prev := v0
			for _, s := range snaps[1:] {
				v, has := s[p]
				if !has {
					ok = false
					break
				}
				d := v - prev
				if d < 1 || d > 4 || (step != 0 && d != step) {
					ok = false
					break
				}
				step, prev = d, v
			}
			if ok && len(snaps) > 2 {
				out = append(out, p)
			}
		}
		return out
	}
	var found []string
	{
		r, err := libaudit.NewReassembler(5, time.Hour, &lifeStream{})
		if err != nil {
			fatal("NewReassembler: %v", err)
		}
		snaps := []snap{take(reflect.ValueOf(r))}
		for k := 1; k <= 6; k++ {
			r.PushMessage(&auparse.AuditMessage{RecordType: 1300, Sequence: uint32(1000 * k)})
			r.PushMessage(&auparse.AuditMessage{RecordType: 1320, Sequence: uint32(1000 * k)})
			r.Maintain()
			snaps = append(snaps, take(reflect.ValueOf(r)))
		}
		r.Close()
		for _, c := range counters(snaps) {
			found = append(found, "per delivery or call: "+c)
		}
	}
	{
		r, err := libaudit.NewReassembler(5, time.Hour, &lifeStream{})
		if err != nil {
			fatal("NewReassembler: %v", err)
		}
		snaps := []snap{take(reflect.ValueOf(r))}
		for k := 1; k <= 4; k++ {
			r.Close()
			snaps = append(snaps, take(reflect.ValueOf(r)))
		}
		for _, c := range counters(snaps) {
			found = append(found, "per Close: "+c)
		}
	}
	sort.Strings(found)
	return found
}

func genReasmFactsImpl() {
	var life [65536]int
	for t := 0; t < 65536; t++ {
		life[t] = lifeCycle(t)
	}
	var b bytes.Buffer
	b.WriteString("namespace LA.Gen.ReasmFacts\n")
	b.WriteString("/-- (first type, last type, life cycle of a lone record of these types); see harness/cmd/extract/reasmfacts.go -/\n")
	b.WriteString("def lifeCycle : List (Nat × Nat × Nat) := [")
	n := 0
	for t := 0; t < 65536; {
		u := t
		for u+1 < 65536 && life[u+1] == life[t] {
			u++
		}
		if n > 0 {
			b.WriteString(", ")
		}
		fmt.Fprintf(&b, "(%d, %d, %d)", t, u, life[t])
		n++
		t = u + 1
	}
	b.WriteString("]\n")
	b.WriteString("/-- (maxInFlight given to NewReassembler, what the new Reassembler keeps as the size of its window) -/\n")
	b.WriteString("def windowStored : List (Nat × Nat) := [")
	for i, w := range windowStored() {
		if i > 0 {
			b.WriteString(", ")
		}
		fmt.Fprintf(&b, "(%d, %d)", w[0], w[1])
	}
	b.WriteString("]\n")
	b.WriteString("/-- for every non-zero time.Time reachable from a Reassembler that buffers one event: does it carry a monotonic clock reading -/\n")
	b.WriteString("def deadlinesMonotonic : List Bool := [")
	for i, m := range deadlinesMonotonic() {
		if i > 0 {
			b.WriteString(", ")
		}
		fmt.Fprintf(&b, "%v", m)
	}
	b.WriteString("]\n")
	b.WriteString("/-- integer fields of at most 32 bits below a Reassembler that grow by a constant small step per delivery, call or Close -/\n")
	b.WriteString("def narrowCounters : List String := [")
	for i, s := range narrowCounters() {
		if i > 0 {
			b.WriteString(", ")
		}
		fmt.Fprintf(&b, "%q", s)
	}
	b.WriteString("]\n")
	b.WriteString("/-- calls in reassembler.go that strip the monotonic reading from a time.Time or turn it into a number (function: method) -/\n")
	b.WriteString("def clockStrips : List String := [")
	if reasmRoot != nil {
		for i, s := range clockStrips(reasmRoot) {
			if i > 0 {
				b.WriteString(", ")
			}
			fmt.Fprintf(&b, "%q", s)
		}
	}
	b.WriteString("]\n")
	b.WriteString("/-- what reassembler.go reads of, and does with, the messages it is given (see msgReads in harness/cmd/extract/reasmfacts.go) -/\n")
	b.WriteString("def msgReads : List String := [")
	if reasmRoot != nil {
		for i, s := range msgReads(reasmRoot) {
			if i > 0 {
				b.WriteString(", ")
			}
			fmt.Fprintf(&b, "%q", s)
		}
	}
	b.WriteString("]\n")
	b.WriteString("end LA.Gen.ReasmFacts\n")
	if n > 4096 {
		fatal("life cycle table has %d runs: not a range-shaped function of the record type", n)
	}
	emit("ReasmFacts", &b)
}
