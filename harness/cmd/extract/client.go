package main

// Client family: constants and struct layouts of audit.go / netlink.go (and of the
// packages they take their numbers from) → lean/LA/Gen/ClientConsts.lean.
// Everything is evaluated by go/types (constants) or types.Sizes for amd64
// (layouts), never pattern-matched from the text.

import (
	"bytes"
	"fmt"
	"go/constant"
	"go/types"
	"strings"
)

func init() { generators = append(generators, genClientConsts) }

func importedConst(root *pkg, path, name string) int64 {
	for _, ip := range root.tpkg.Imports() {
		if ip.Path() != path {
			continue
		}
		c, ok := ip.Scope().Lookup(name).(*types.Const)
		if !ok {
			fatal("constant %s.%s not found", path, name)
		}
		v, ok := constant.Int64Val(constant.ToInt(c.Val()))
		if !ok {
			fatal("constant %s.%s is not an integer", path, name)
		}
		return v
	}
	fatal("package %s is not imported by the root package", path)
	return 0
}

func structLayout(p *types.Package, name string) (fields []string, size int64) {
	o := p.Scope().Lookup(name)
	if o == nil {
		fatal("type %s not found in %s", name, p.Path())
	}
	st, ok := o.Type().Underlying().(*types.Struct)
	if !ok {
		fatal("%s.%s is not a struct", p.Path(), name)
	}
	sizes := types.SizesFor("gc", "amd64")
	var vars []*types.Var
	for i := 0; i < st.NumFields(); i++ {
		vars = append(vars, st.Field(i))
	}
	offs := sizes.Offsetsof(vars)
	for i, v := range vars {
		fields = append(fields, fmt.Sprintf("(%s, %d, %d)", leanStr(v.Name()), offs[i], sizes.Sizeof(v.Type())))
	}
	return fields, sizes.Sizeof(o.Type())
}

func genClientConsts(repo string, root *pkg) {
	runGen("genClientConsts", []string{"ClientConsts"}, func() { genClientConstsImpl(repo, root) })
}

func genClientConstsImpl(repo string, root *pkg) {
	var b bytes.Buffer
	b.WriteString("namespace LA.Gen.ClientConsts\n")
	b.WriteString("-- audit.go\n")
	for _, n := range []string{"AuditMessageMaxLength", "AuditGet", "AuditSet", "NetlinkGroupNone", "NetlinkGroupReadLog",
		"WaitForReply", "NoWait", "SilentOnFailure", "LogOnFailure", "PanicOnFailure",
		"AuditStatusEnabled", "AuditStatusFailure", "AuditStatusPID", "AuditStatusRateLimit", "AuditStatusBacklogLimit",
		"AuditStatusBacklogWaitTime", "AuditStatusLost",
		"AuditFeatureBitmapBacklogLimit", "AuditFeatureBitmapBacklogWaitTime", "AuditFeatureBitmapExecutablePath",
		"AuditFeatureBitmapExcludeExtend", "AuditFeatureBitmapSessionIDFilter", "AuditFeatureBitmapLostReset",
		"sizeofAuditStatus", "MinSizeofAuditStatus"} {
		fmt.Fprintf(&b, "def %s : Nat := %d\n", n, root.constInt(n))
	}
	fields, size := structLayout(root.tpkg, "AuditStatus")
	b.WriteString("-- struct AuditStatus: (field, offset, size) per types.Sizes for gc/amd64\n")
	fmt.Fprintf(&b, "def auditStatusFields : List (String × Nat × Nat) := [%s]\n", strings.Join(fields, ", "))
	fmt.Fprintf(&b, "def auditStatusSize : Nat := %d\n", size)

	b.WriteString("-- github.com/elastic/go-libaudit/v2/auparse\n")
	for _, n := range []string{"AUDIT_ADD_RULE", "AUDIT_DEL_RULE", "AUDIT_LIST_RULES"} {
		fmt.Fprintf(&b, "def %s : Nat := %d\n", n, importedConst(root, "github.com/elastic/go-libaudit/v2/auparse", n))
	}
	b.WriteString("-- syscall\n")
	for _, n := range []string{"NLMSG_ERROR", "NLMSG_DONE", "NLM_F_REQUEST", "NLM_F_ACK", "NLMSG_HDRLEN", "SizeofNlMsghdr"} {
		fmt.Fprintf(&b, "def %s : Nat := %d\n", n, importedConst(root, "syscall", n))
	}
	for _, ip := range root.tpkg.Imports() {
		if ip.Path() == "syscall" {
			f, sz := structLayout(ip, "NlMsghdr")
			fmt.Fprintf(&b, "def nlMsghdrFields : List (String × Nat × Nat) := [%s]\n", strings.Join(f, ", "))
			fmt.Fprintf(&b, "def nlMsghdrSize : Nat := %d\n", sz)
		}
	}
	b.WriteString("end LA.Gen.ClientConsts\n")
	emit("ClientConsts", &b)
}
