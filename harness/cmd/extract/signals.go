package main

// Signal names as the library sees them (golang.org/x/sys/unix.SignalName of the
// version pinned by /repo's go.mod), used by the parser model for SECCOMP records.

import (
	"bytes"
	"fmt"
	"syscall"

	"golang.org/x/sys/unix"
)

func init() { generators = append(generators, genSignals) }

func genSignals(repo string, root *pkg) {
	runGen("genSignals", []string{"Signals"}, func() { genSignalsImpl(repo, root) })
}

func genSignalsImpl(repo string, root *pkg) {
	var b bytes.Buffer
	b.WriteString("namespace LA.Gen.Signals\n")
	var items []string
	for n := 0; n < 256; n++ {
		if name := unix.SignalName(syscall.Signal(n)); name != "" {
			items = append(items, fmt.Sprintf("(%d, %s)", n, bytesLit(name)))
		}
	}
	chunked(&b, "signalNames", "Nat × List Nat", items)
	b.WriteString("end LA.Gen.Signals\n")
	emit("Signals", &b)
}
