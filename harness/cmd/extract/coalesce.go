package main

// Coalescer family (C09, C15): regenerates
//   Gen/Norms      from aucoalesce/normalizations.yaml, decoded with the repository's own
//                  yaml.v3 and its own exported `aucoalesce.Strings` type (so the slices have
//                  the very len/cap the library's tables have after init), and
//   Gen/CoalEventTypes from the switch in aucoalesce.GetAuditEventType (go/ast + go/types).

import (
	"bytes"
	"fmt"
	"math/bits"
	"os"
	"path/filepath"
	"sort"
	"strings"

	"github.com/elastic/go-libaudit/v2/aucoalesce"
	"github.com/elastic/go-libaudit/v2/auparse"
	"gopkg.in/yaml.v3"
)

func init() { generators = append(generators, genCoalNorms, genCoalEventTypes, genCoalesceConsts) }

// coalNormY mirrors aucoalesce.Normalization field for field (KnownFields(true) is used like in
// LoadNormalizationConfig, so a field added to the library's struct makes this decode fail
// loudly instead of being ignored). List fields use the library's own Strings type.
type coalNormY struct {
	SubjectPrimary   aucoalesce.Strings `yaml:"subject_primary"`
	SubjectSecondary aucoalesce.Strings `yaml:"subject_secondary"`
	Action           string             `yaml:"action"`
	ObjectPrimary    aucoalesce.Strings `yaml:"object_primary"`
	ObjectSecondary  aucoalesce.Strings `yaml:"object_secondary"`
	ObjectWhat       string             `yaml:"object_what"`
	ObjectPathIndex  int                `yaml:"object_path_index"`
	How              aucoalesce.Strings `yaml:"how"`
	RecordTypes      aucoalesce.Strings `yaml:"record_types"`
	Syscalls         aucoalesce.Strings `yaml:"syscalls"`
	SourceIP         aucoalesce.Strings `yaml:"source_ip"`
	HasFields        aucoalesce.Strings `yaml:"has_fields"`
	ECS              struct {
		Kind     string             `yaml:"kind"`
		Category aucoalesce.Strings `yaml:"category"`
		Type     aucoalesce.Strings `yaml:"type"`
		Mappings []struct {
			From *string `yaml:"from"`
			To   *string `yaml:"to"`
		} `yaml:"mappings"`
	} `yaml:"ecs"`
	Description string `yaml:"description,omitempty"`
}

type coalNormConfigY struct {
	Macros         []any       `yaml:"macros"`
	Normalizations []coalNormY `yaml:"normalizations"`
}

func coalLeanBytes(s string) string {
	if len(s) == 0 {
		return "[]"
	}
	parts := make([]string, len(s))
	for i := 0; i < len(s); i++ {
		parts[i] = fmt.Sprintf("%d", s[i])
	}
	return "[" + strings.Join(parts, ", ") + "]"
}

func coalLeanBytesList(ss []string) string {
	parts := make([]string, len(ss))
	for i, s := range ss {
		parts[i] = coalLeanBytes(s)
	}
	return "[" + strings.Join(parts, ", ") + "]"
}

// coalFromRef mirrors aucoalesce.resolveFieldReference: (code, key).
func coalFromRef(s string) (int, string) {
	switch s {
	case "subject.primary":
		return 1, ""
	case "subject.secondary":
		return 2, ""
	case "object.primary":
		return 3, ""
	case "object.secondary":
		return 4, ""
	}
	if dot := strings.IndexByte(s, '.'); dot != -1 {
		switch s[:dot] {
		case "data":
			return 5, s[dot+1:]
		case "uid":
			return 6, s[dot+1:]
		}
	}
	fatal("normalizations.yaml: from-reference %q has a shape the translator does not know", s)
	return 0, ""
}

func coalToRef(s string) int {
	switch s {
	case "user":
		return 1
	case "user.effective":
		return 2
	case "user.target":
		return 3
	case "user.changes":
		return 4
	case "group":
		return 5
	}
	fatal("normalizations.yaml: to-reference %q has a shape the translator does not know", s)
	return 0
}

func genCoalNorms(repo string, root *pkg) {
	runGen("genCoalNorms", []string{"Norms"}, func() { genCoalNormsImpl(repo, root) })
}

func genCoalNormsImpl(repo string, root *pkg) {
	raw, err := os.ReadFile(filepath.Join(repo, "aucoalesce", "normalizations.yaml"))
	if err != nil {
		fatal("%v", err)
	}
	// the library itself must accept the file (same call as its init)
	sysMap, rtMap, err := aucoalesce.LoadNormalizationConfig(raw)
	if err != nil {
		fatal("aucoalesce.LoadNormalizationConfig rejects normalizations.yaml: %v", err)
	}
	var c coalNormConfigY
	dec := yaml.NewDecoder(bytes.NewReader(raw))
	dec.KnownFields(true)
	if err := dec.Decode(&c); err != nil {
		fatal("normalizations.yaml: %v", err)
	}

	var b bytes.Buffer
	b.WriteString("namespace LA.Gen.Norms\n\n")
	b.WriteString(`/-- One entry of normalizations.yaml. Byte strings are byte lists. ` + "`catCap`/`typCap`" + ` are the
capacities of the decoded ECS category/type slices (yaml.v3 + aucoalesce.Strings), ` + "`mappings`" + ` are
(from-code, from-key, to-code): from 1 subject.primary 2 subject.secondary 3 object.primary
4 object.secondary 5 data.<key> 6 uid.<key> 0 absent; to 1 user 2 user.effective 3 user.target
4 user.changes 5 group 0 absent. -/
structure Norm where
  action : List UInt8
  objectWhat : List UInt8
  objectPathIndex : Int
  subjPrimary : List (List UInt8)
  subjSecondary : List (List UInt8)
  objPrimary : List (List UInt8)
  objSecondary : List (List UInt8)
  how : List (List UInt8)
  sourceIP : List (List UInt8)
  hasFields : List (List UInt8)
  ecsKind : List UInt8
  ecsCategory : List (List UInt8)
  catCap : Nat
  ecsType : List (List UInt8)
  typCap : Nat
  mappings : List (Nat × List UInt8 × Nat)
deriving Repr, DecidableEq, Inhabited

`)
	var names []string
	for i, n := range c.Normalizations {
		var maps []string
		for _, m := range n.ECS.Mappings {
			fc, fk, tc := 0, "", 0
			if m.From != nil {
				fc, fk = coalFromRef(*m.From)
			}
			if m.To != nil {
				tc = coalToRef(*m.To)
			}
			maps = append(maps, fmt.Sprintf("(%d, %s, %d)", fc, coalLeanBytes(fk), tc))
		}
		idx := fmt.Sprintf("%d", n.ObjectPathIndex)
		if n.ObjectPathIndex < 0 {
			idx = fmt.Sprintf("(%d)", n.ObjectPathIndex)
		}
		fmt.Fprintf(&b, "def n%d : Norm := {\n  action := %s, objectWhat := %s, objectPathIndex := %s,\n  subjPrimary := %s, subjSecondary := %s,\n  objPrimary := %s, objSecondary := %s,\n  how := %s, sourceIP := %s, hasFields := %s,\n  ecsKind := %s, ecsCategory := %s, catCap := %d, ecsType := %s, typCap := %d,\n  mappings := [%s] }\n",
			i, coalLeanBytes(n.Action), coalLeanBytes(n.ObjectWhat), idx,
			coalLeanBytesList(n.SubjectPrimary.Values), coalLeanBytesList(n.SubjectSecondary.Values),
			coalLeanBytesList(n.ObjectPrimary.Values), coalLeanBytesList(n.ObjectSecondary.Values),
			coalLeanBytesList(n.How.Values), coalLeanBytesList(n.SourceIP.Values), coalLeanBytesList(n.HasFields.Values),
			coalLeanBytes(n.ECS.Kind), coalLeanBytesList(n.ECS.Category.Values), cap(n.ECS.Category.Values),
			coalLeanBytesList(n.ECS.Type.Values), cap(n.ECS.Type.Values), strings.Join(maps, ", "))
		names = append(names, fmt.Sprintf("n%d", i))
	}
	b.WriteString("\n/-- the normalisations in file order; the index is the identity of the entry. -/\n")
	chunked(&b, "norms", "Norm", names)

	// syscall name -> index (LoadNormalizationConfig rejects duplicates, so this is a function)
	type se struct {
		name string
		idx  int
	}
	var sys []se
	for i, n := range c.Normalizations {
		for _, s := range n.Syscalls.Values {
			sys = append(sys, se{s, i})
		}
	}
	if len(sys) != len(sysMap) {
		fatal("syscall table: %d entries extracted, the library holds %d", len(sys), len(sysMap))
	}
	sort.SliceStable(sys, func(i, j int) bool { return sys[i].name < sys[j].name })
	var items []string
	for _, s := range sys {
		items = append(items, fmt.Sprintf("(%s, %d)", coalLeanBytes(s.name), s.idx))
	}
	b.WriteString("\n/-- `syscallNorms`: syscall name ↦ index into `norms`. -/\n")
	chunked(&b, "syscalls", "List UInt8 × Nat", items)

	// record type number -> indices, through the library's own AuditMessageType.String()
	items = nil
	reached := map[string]bool{}
	for t := 0; t < 65536; t++ {
		name := auparse.AuditMessageType(t).String()
		var idxs []string
		for i, n := range c.Normalizations {
			for _, rt := range n.RecordTypes.Values {
				if rt == name {
					idxs = append(idxs, fmt.Sprintf("%d", i))
				}
			}
		}
		if len(idxs) > 0 {
			reached[name] = true
			if len(idxs) != len(rtMap[name]) {
				fatal("record type %s: %d normalisations extracted, the library holds %d", name, len(idxs), len(rtMap[name]))
			}
			items = append(items, fmt.Sprintf("(%d, [%s])", t, strings.Join(idxs, ", ")))
		}
	}
	b.WriteString("\n/-- `recordTypeNorms` keyed by the record type *number* t (every t in 0..65535 whose\n`AuditMessageType(t).String()` is a key of the Go map), indices in the order of the Go slice. -/\n")
	chunked(&b, "recordTypes", "Nat × List Nat", items)
	var dead []string
	for name := range rtMap {
		if !reached[name] {
			dead = append(dead, name)
		}
	}
	sort.Strings(dead)
	fmt.Fprintf(&b, "\n/-- record type names in the file that no record type number prints as (dead entries): %d -/\ndef deadRecordTypeNames : Nat := %d\n", len(dead), len(dead))
	b.WriteString("\nend LA.Gen.Norms\n")
	emit("Norms", &b)
}

// genCoalEventTypes: see eventtypes.go.
func genCoalEventTypes(repo string, root *pkg) {
	runGen("genCoalEventTypes", []string{"CoalEventTypes"}, func() { genCoalEventTypesImpl(repo, root) })
}

func genCoalEventTypesImpl(repo string, root *pkg) {
	emitEventTypes("CoalEventTypes", extractEventTypes(load(repo, "aucoalesce", "aucoalesce")))
}

// genCoalesceConsts emits the record type numbers the coalescer switches on, the os.FileMode
// bit layout used by setFileObject (as bit indices) and aucoalesce's own modeBlockDevice.
func genCoalesceConsts(repo string, root *pkg) {
	runGen("genCoalesceConsts", []string{"CoalesceConsts"}, func() { genCoalesceConstsImpl(repo, root) })
}

func genCoalesceConstsImpl(repo string, root *pkg) {
	p := load(repo, "aucoalesce", "aucoalesce")
	bitsOf := func(v uint32) string {
		var out []string
		for i := 0; i < 32; i++ {
			if v&(1<<uint(i)) != 0 {
				out = append(out, fmt.Sprintf("%d", i))
			}
		}
		return "[" + strings.Join(out, ", ") + "]"
	}
	one := func(name string, v uint32) int {
		if bits.OnesCount32(v) != 1 {
			fatal("%s is not a single bit", name)
		}
		return bits.TrailingZeros32(v)
	}
	var b bytes.Buffer
	b.WriteString("namespace LA.Gen.CoalesceConsts\n")
	fmt.Fprintf(&b, "def auditSyscall : Nat := %d\n", auparse.AUDIT_SYSCALL)
	fmt.Fprintf(&b, "def auditPath : Nat := %d\n", auparse.AUDIT_PATH)
	fmt.Fprintf(&b, "def auditSockaddr : Nat := %d\n", auparse.AUDIT_SOCKADDR)
	fmt.Fprintf(&b, "def auditExecve : Nat := %d\n", auparse.AUDIT_EXECVE)
	fmt.Fprintf(&b, "def auditEOE : Nat := %d\n", auparse.AUDIT_EOE)
	fmt.Fprintf(&b, "/-- bit indices of os.ModeType -/\ndef modeTypeBits : List Nat := %s\n", bitsOf(uint32(os.ModeType)))
	fmt.Fprintf(&b, "def modeDirBit : Nat := %d\n", one("os.ModeDir", uint32(os.ModeDir)))
	fmt.Fprintf(&b, "def modeCharDeviceBit : Nat := %d\n", one("os.ModeCharDevice", uint32(os.ModeCharDevice)))
	fmt.Fprintf(&b, "def modeNamedPipeBit : Nat := %d\n", one("os.ModeNamedPipe", uint32(os.ModeNamedPipe)))
	fmt.Fprintf(&b, "def modeSymlinkBit : Nat := %d\n", one("os.ModeSymlink", uint32(os.ModeSymlink)))
	fmt.Fprintf(&b, "def modeSocketBit : Nat := %d\n", one("os.ModeSocket", uint32(os.ModeSocket)))
	fmt.Fprintf(&b, "/-- bit indices of aucoalesce.modeBlockDevice -/\ndef modeBlockDeviceBits : List Nat := %s\n", bitsOf(uint32(p.constInt("modeBlockDevice"))))
	b.WriteString("end LA.Gen.CoalesceConsts\n")
	emit("CoalesceConsts", &b)
}
