package main

// Gen/State: which functions of the library write package-level state after initialisation.
//
// The Lean models are functions of their arguments (parser, rule encoder, coalescer) or of the object they are given
// (Reassembler, AuditClient). That reading of the code is only right if the library keeps nothing between calls
// outside those objects. This generator lists, per package, every place in a function other than init (and other than
// the initialiser of a package-level variable) that
//
//	write  assigns to, increments, deletes from, clears or copies into a package-level variable (or a part of one)
//	addr   hands the address of a package-level variable to a function (the usual way of using sync/atomic on it)
//	passes hands a package-level map or pointer to a function of the same package (which could write through it)
//	uses   mentions a function that writes (so that a table builder called from anywhere but init shows up)
//	call   calls a method on a package-level variable whose type comes from sync or sync/atomic (Pool.Get, Once.Do,
//	       Mutex.Lock, Value.Store, ...), or a method named Store, Swap, CompareAndSwap, Add, Put, LoadOrStore, Delete
//
// LA.Props.* state, per property, that the list is the one the models were written against.

import (
	"bytes"
	"fmt"
	"go/ast"
	"go/token"
	"go/types"
	"path/filepath"
	"sort"
	"strings"
)

func init() {
	generators = append(generators, func(repo string, root *pkg) {
		runGen("genState", []string{"State"}, func() { genStateImpl(repo, root) })
	})
}

func calleeOf(p *pkg, c *ast.CallExpr) *types.Func {
	switch f := c.Fun.(type) {
	case *ast.Ident:
		fo, _ := p.info.Uses[f].(*types.Func)
		return fo
	case *ast.SelectorExpr:
		fo, _ := p.info.Uses[f.Sel].(*types.Func)
		return fo
	}
	return nil
}

var mutatingMethods = map[string]bool{"Store": true, "Swap": true, "CompareAndSwap": true, "Add": true, "Put": true, "LoadOrStore": true, "LoadAndDelete": true, "Delete": true}

func genStateImpl(repo string, root *pkg) {
	type fact struct{ pkg, file, fn, kind, target string }
	var facts []fact
	pkgs := []struct {
		rel, name string
		p         *pkg
	}{{"", "libaudit", root}, {"auparse", "auparse", nil}, {"aucoalesce", "aucoalesce", nil}, {"rule", "rule", nil}, {"rule/flags", "flags", nil}}
	envReads := map[string]bool{}
	for pi, pk := range pkgs {
		p := pk.p
		if p == nil {
			p = load(repo, pk.rel, pk.name)
			pkgs[pi].p = p
		}
		if p.tpkg == nil {
			fatal("package %s did not type-check", pk.rel)
		}
		// what the package reads of the process environment: calls of package-level functions of os, os/user, os/exec,
		// net, runtime, math/rand, crypto/rand, of time.Now / Since / Until, of filepath functions that look at the file
		// system, and of syscall functions that ask about the process (in non-test files, wherever they occur)
		for _, f := range p.files {
			if strings.HasSuffix(p.fset.Position(f.Pos()).Filename, "_test.go") {
				continue
			}
			ast.Inspect(f, func(n ast.Node) bool {
				call, ok := n.(*ast.CallExpr)
				if !ok {
					return true
				}
				fn := calleeOf(p, call)
				if fn == nil || fn.Pkg() == nil {
					return true
				}
				if sig, ok := fn.Type().(*types.Signature); ok && sig.Recv() != nil {
					return true
				}
				pp, name := fn.Pkg().Path(), fn.Name()
				env := false
				switch pp {
				case "os", "os/user", "os/exec", "net", "runtime", "math/rand", "math/rand/v2", "crypto/rand", "io/ioutil":
					env = !(pp == "os" && (name == "NewSyscallError" || name == "IsNotExist" || name == "IsExist" || name == "IsPermission")) &&
						!(pp == "runtime" && (name == "KeepAlive" || name == "SetFinalizer")) &&
						!(pp == "net" && (name == "JoinHostPort" || name == "ParseIP" || name == "IPv4" || name == "SplitHostPort"))
				case "time":
					env = name == "Now" || name == "Since" || name == "Until"
				case "path/filepath":
					env = name == "Glob" || name == "Walk" || name == "WalkDir" || name == "Abs" || name == "EvalSymlinks"
				case "syscall", "golang.org/x/sys/unix":
					env = strings.HasPrefix(name, "Get") && name != "GetsockoptInt" && name != "Getsockname" && name != "Getsockopt"
				}
				if env {
					envReads[pk.rel+"\x00"+pp+"."+name] = true
				}
				return true
			})
		}
		scope := p.tpkg.Scope()
		pkgVar := func(e ast.Expr) *types.Var {
			for {
				switch x := e.(type) {
				case *ast.ParenExpr:
					e = x.X
				case *ast.SelectorExpr:
					// a qualified identifier of another package is not ours
					if id, ok := x.X.(*ast.Ident); ok {
						if _, isPkg := p.info.Uses[id].(*types.PkgName); isPkg {
							return nil
						}
					}
					e = x.X
				case *ast.IndexExpr:
					e = x.X
				case *ast.SliceExpr:
					e = x.X
				case *ast.StarExpr:
					e = x.X
				case *ast.Ident:
					if v, ok := p.info.Uses[x].(*types.Var); ok && v.Parent() == scope {
						return v
					}
					return nil
				default:
					return nil
				}
			}
		}
		fromSync := func(t types.Type) bool {
			for {
				if pt, ok := t.(*types.Pointer); ok {
					t = pt.Elem()
					continue
				}
				break
			}
			if n, ok := t.(*types.Named); ok && n.Obj().Pkg() != nil {
				pp := n.Obj().Pkg().Path()
				return pp == "sync" || pp == "sync/atomic"
			}
			return false
		}
		for _, f := range p.files {
			file := filepath.Base(p.fset.Position(f.Pos()).Filename)
			if strings.HasPrefix(file, "verif_") {
				continue // the harness's own hooks (build tag verif)
			}
			walk := func(fn string, body ast.Node) {
				ast.Inspect(body, func(n ast.Node) bool {
					switch x := n.(type) {
					case *ast.AssignStmt:
						for _, l := range x.Lhs {
							if x.Tok == token.DEFINE {
								if _, plain := l.(*ast.Ident); plain {
									continue
								}
							}
							if v := pkgVar(l); v != nil {
								facts = append(facts, fact{pk.rel, file, fn, "write", v.Name()})
							}
						}
					case *ast.IncDecStmt:
						if v := pkgVar(x.X); v != nil {
							facts = append(facts, fact{pk.rel, file, fn, "write", v.Name()})
						}
					case *ast.CallExpr:
						for _, a := range x.Args {
							if u, ok := a.(*ast.UnaryExpr); ok && u.Op == token.AND {
								if v := pkgVar(u.X); v != nil {
									facts = append(facts, fact{pk.rel, file, fn, "addr", v.Name()})
								}
							}
						}
						if id, ok := x.Fun.(*ast.Ident); ok && (id.Name == "delete" || id.Name == "clear" || id.Name == "copy") && len(x.Args) > 0 {
							if _, builtin := p.info.Uses[id].(*types.Builtin); builtin {
								if v := pkgVar(x.Args[0]); v != nil {
									facts = append(facts, fact{pk.rel, file, fn, "write", v.Name()})
								}
							}
						}
						// a map or pointer handed to a function of this package can be written through there
						if fo := calleeOf(p, x); fo != nil && fo.Pkg() == p.tpkg {
							for _, a := range x.Args {
								if id, ok := a.(*ast.Ident); ok {
									if v := pkgVar(id); v != nil {
										switch v.Type().Underlying().(type) {
										case *types.Map, *types.Pointer:
											facts = append(facts, fact{pk.rel, file, fn, "passes", v.Name() + " to " + fo.Name()})
										}
									}
								}
							}
						}
						if sel, ok := x.Fun.(*ast.SelectorExpr); ok {
							if v := pkgVar(sel.X); v != nil {
								recv := p.info.Types[sel.X].Type
								if mutatingMethods[sel.Sel.Name] || (recv != nil && fromSync(recv)) {
									facts = append(facts, fact{pk.rel, file, fn, "call", v.Name() + "." + sel.Sel.Name})
								}
							}
						}
					}
					return true
				})
			}
			for _, d := range f.Decls {
				switch x := d.(type) {
				case *ast.FuncDecl:
					if x.Body == nil || (x.Recv == nil && x.Name.Name == "init") {
						continue
					}
					name := x.Name.Name
					if x.Recv != nil && len(x.Recv.List) == 1 {
						name = types.ExprString(x.Recv.List[0].Type) + "." + name
					}
					walk(name, x.Body)
				case *ast.GenDecl:
					if x.Tok != token.VAR {
						continue
					}
					// closures stored in package-level variables run later, at call time
					for _, s := range x.Specs {
						vs := s.(*ast.ValueSpec)
						for i, val := range vs.Values {
							name := "var"
							if i < len(vs.Names) {
								name = "var " + vs.Names[i].Name
							}
							ast.Inspect(val, func(n ast.Node) bool {
								if fl, ok := n.(*ast.FuncLit); ok {
									walk(name, fl.Body)
									return false
								}
								return true
							})
						}
					}
				}
			}
		}
	}
	// a function that writes is harmless while only init calls it (table builders): list every other caller, and the
	// callers of those
	for _, pk := range pkgs {
		p := pk.p
		if p == nil {
			continue
		}
		writers := map[string]bool{}
		for _, f := range facts {
			if f.pkg == pk.rel && !strings.Contains(f.fn, ".") && !strings.HasPrefix(f.fn, "var") {
				writers[f.fn] = true
			}
		}
		for changed := true; changed; {
			changed = false
			for _, f := range p.files {
				file := filepath.Base(p.fset.Position(f.Pos()).Filename)
				if strings.HasPrefix(file, "verif_") {
					continue
				}
				for _, d := range f.Decls {
					fd, ok := d.(*ast.FuncDecl)
					if !ok || fd.Body == nil || (fd.Recv == nil && fd.Name.Name == "init") {
						continue
					}
					name := fd.Name.Name
					if fd.Recv != nil && len(fd.Recv.List) == 1 {
						name = types.ExprString(fd.Recv.List[0].Type) + "." + name
					}
					ast.Inspect(fd.Body, func(n ast.Node) bool {
						// any mention counts: a call, or the function passed around as a value
						if id, ok := n.(*ast.Ident); ok && writers[id.Name] {
							if fo, ok := p.info.Uses[id].(*types.Func); ok && fo.Pkg() == p.tpkg {
								nf := fact{pk.rel, file, name, "uses", id.Name}
								dup := false
								for _, e := range facts {
									if e == nf {
										dup = true
									}
								}
								if !dup {
									facts = append(facts, nf)
									if fd.Recv == nil && !writers[name] {
										writers[name] = true
										changed = true
									}
								}
							}
						}
						return true
					})
				}
			}
		}
	}
	sort.Slice(facts, func(i, j int) bool {
		a, b := facts[i], facts[j]
		return a.pkg+"\x00"+a.file+"\x00"+a.fn+"\x00"+a.kind+"\x00"+a.target < b.pkg+"\x00"+b.file+"\x00"+b.fn+"\x00"+b.kind+"\x00"+b.target
	})
	var b bytes.Buffer
	b.WriteString("namespace LA.Gen.State\n")
	b.WriteString("/-- (package, file, function, kind, package-level variable): see harness/cmd/extract/state.go -/\n")
	b.WriteString("def runtimeWrites : List (String × String × String × String × String) := [")
	n := 0
	var prev fact
	for _, f := range facts {
		if n > 0 && f == prev {
			continue
		}
		if n > 0 {
			b.WriteString(",")
		}
		fmt.Fprintf(&b, "\n  (%q, %q, %q, %q, %q)", f.pkg, f.file, f.fn, f.kind, f.target)
		prev = f
		n++
	}
	b.WriteString("]\n")
	b.WriteString("/-- (package, callee): what each package reads of the process environment; see harness/cmd/extract/state.go -/\n")
	b.WriteString("def envReads : List (String × String) := [")
	var ers []string
	for k := range envReads {
		ers = append(ers, k)
	}
	sort.Strings(ers)
	for i, k := range ers {
		if i > 0 {
			b.WriteString(",")
		}
		kv := strings.SplitN(k, "\x00", 2)
		fmt.Fprintf(&b, "\n  (%q, %q)", kv[0], kv[1])
	}
	b.WriteString("]\n")
	b.WriteString("end LA.Gen.State\n")
	emit("State", &b)
}
