// extract is the translator: it type-checks /repo's packages with go/types (so
// constants are evaluated, not pattern-matched), walks the table literals with
// go/ast, and emits Lean definitions under lean/LA/Gen. Files are rewritten only
// when their content changes so lake rebuilds only what changed.
package main

import (
	"bytes"
	"encoding/json"
	"flag"
	"fmt"
	"go/ast"
	"go/constant"
	"go/importer"
	"go/parser"
	"go/token"
	"go/types"
	"os"
	"path/filepath"
	"sort"
	"strconv"
	"strings"
	"sync"
	"time"
)

type pkg struct {
	fset  *token.FileSet
	files []*ast.File
	info  *types.Info
	tpkg  *types.Package
	dir   string
}

var imp types.Importer

func load(repo, rel, name string) *pkg {
	dir := filepath.Join(repo, rel)
	fset := token.NewFileSet()
	pkgs, err := parser.ParseDir(fset, dir, func(fi os.FileInfo) bool {
		n := fi.Name()
		if strings.HasSuffix(n, "_test.go") || strings.HasPrefix(n, "mk_") || strings.HasPrefix(n, "defs_") || n == "tools.go" || n == "verif_off.go" {
			return false
		}
		return true
	}, parser.ParseComments)
	if err != nil {
		fatal("parse %s: %v", dir, err)
	}
	ap := pkgs[name]
	if ap == nil {
		fatal("package %s not found in %s", name, dir)
	}
	var files []*ast.File
	var names []string
	for n := range ap.Files {
		names = append(names, n)
	}
	sort.Strings(names)
	for _, n := range names {
		files = append(files, ap.Files[n])
	}
	info := &types.Info{Types: map[ast.Expr]types.TypeAndValue{}, Defs: map[*ast.Ident]types.Object{}, Uses: map[*ast.Ident]types.Object{}}
	conf := types.Config{Importer: imp, Sizes: types.SizesFor("gc", "amd64"), Error: func(err error) {}}
	tp, _ := conf.Check("github.com/elastic/go-libaudit/v2/"+rel, fset, files, info)
	return &pkg{fset: fset, files: files, info: info, tpkg: tp, dir: dir}
}

// extractFailure is what fatal throws: a generator that cannot read the construct it translates.
type extractFailure struct{ msg string }

// fatal aborts the current generator (see runGen). The other generators still run, the modules of
// the failed one keep their previous content, and ./check treats the failure as a broken tie for
// the properties that import those modules.
func fatal(f string, a ...interface{}) {
	panic(extractFailure{fmt.Sprintf(f, a...)})
}

type genFailure struct {
	Generator string   `json:"generator"`
	Modules   []string `json:"modules"`
	Message   string   `json:"message"`
}

var failures []genFailure

// runGen runs one generator; mods are the Gen modules it is responsible for. Generators that read
// behaviour off the running library can be made to hang by the code under test (a lock that is never
// released): each runs under a watchdog, and one that does not return counts as failed.
func runGen(name string, mods []string, fn func()) {
	fail := func(msg string) {
		stateMu.Lock()
		defer stateMu.Unlock()
		failures = append(failures, genFailure{name, mods, msg})
		fmt.Printf("TRANSLATOR-FAILURE %s [%s]: %s\n", name, strings.Join(mods, ","), strings.ReplaceAll(msg, "\n", " "))
		for _, m := range mods {
			// keep whatever an earlier run generated
			matches, _ := filepath.Glob(filepath.Join(outDir, m+"*.lean"))
			for _, f := range matches {
				rel, _ := filepath.Rel(outDir, f)
				emitted[rel] = true
			}
		}
	}
	done := make(chan string, 1)
	go func() {
		defer func() {
			if r := recover(); r != nil {
				msg := fmt.Sprint(r)
				if ef, ok := r.(extractFailure); ok {
					msg = ef.msg
				}
				done <- msg
				return
			}
			done <- ""
		}()
		fn()
	}()
	select {
	case msg := <-done:
		if msg != "" {
			fail(msg)
		}
	case <-time.After(genTimeout):
		fail(fmt.Sprintf("the generator did not return within %v (a library call it makes never returns)", genTimeout))
	}
}

const genTimeout = 60 * time.Second

var stateMu sync.Mutex

func (p *pkg) constInt(name string) int64 {
	o := p.tpkg.Scope().Lookup(name)
	c, ok := o.(*types.Const)
	if !ok {
		fatal("constant %s not found in %s", name, p.dir)
	}
	v, ok := constant.Int64Val(constant.ToInt(c.Val()))
	if !ok {
		fatal("constant %s is not an integer", name)
	}
	return v
}

// exprInt evaluates a constant integer expression.
func (p *pkg) exprInt(e ast.Expr) (int64, bool) {
	tv, ok := p.info.Types[e]
	if !ok || tv.Value == nil {
		return 0, false
	}
	return constant.Int64Val(constant.ToInt(tv.Value))
}

func (p *pkg) exprStr(e ast.Expr) (string, bool) {
	tv, ok := p.info.Types[e]
	if !ok || tv.Value == nil || tv.Value.Kind() != constant.String {
		return "", false
	}
	return constant.StringVal(tv.Value), true
}

// varLit finds the composite literal initialising package variable name.
func (p *pkg) varLit(name string) *ast.CompositeLit {
	for _, f := range p.files {
		for _, d := range f.Decls {
			gd, ok := d.(*ast.GenDecl)
			if !ok || gd.Tok != token.VAR {
				continue
			}
			for _, s := range gd.Specs {
				vs := s.(*ast.ValueSpec)
				for i, n := range vs.Names {
					if n.Name == name && i < len(vs.Values) {
						if cl, ok := vs.Values[i].(*ast.CompositeLit); ok {
							return cl
						}
					}
				}
			}
		}
	}
	fatal("variable %s with a composite literal not found in %s", name, p.dir)
	return nil
}

// ---- Lean emission ---------------------------------------------------------------

// nameCode encodes a name as a Nat: bytes in base 256 under a leading 1.
func nameCode(s string) string {
	n := new(bigInt).set1()
	for i := 0; i < len(s); i++ {
		n.mul256add(s[i])
	}
	return n.String()
}

func leanStr(s string) string {
	var b strings.Builder
	b.WriteByte('"')
	for i := 0; i < len(s); i++ {
		c := s[i]
		switch {
		case c == '"' || c == '\\':
			b.WriteByte('\\')
			b.WriteByte(c)
		case c < 0x20 || c > 0x7e:
			fmt.Fprintf(&b, "\\x%02x", c)
		default:
			b.WriteByte(c)
		}
	}
	b.WriteByte('"')
	return b.String()
}

// chunked emits `def name : List T := c0 ++ c1 ++ ...` with chunks of 32 entries.
func chunked(b *bytes.Buffer, name, typ string, items []string) {
	const sz = 32
	var chunks []string
	for i := 0; i < len(items); i += sz {
		j := i + sz
		if j > len(items) {
			j = len(items)
		}
		cn := fmt.Sprintf("%s_c%d", name, i/sz)
		fmt.Fprintf(b, "def %s : List (%s) := [%s]\n", cn, typ, strings.Join(items[i:j], ", "))
		chunks = append(chunks, cn)
	}
	if len(chunks) == 0 {
		fmt.Fprintf(b, "def %s : List (%s) := []\n", name, typ)
		return
	}
	fmt.Fprintf(b, "def %s : List (%s) := %s\n", name, typ, strings.Join(chunks, " ++ "))
}

func writeIfChanged(path string, content []byte) bool {
	old, err := os.ReadFile(path)
	if err == nil && bytes.Equal(old, content) {
		return false
	}
	if err := os.WriteFile(path, content, 0o644); err != nil {
		fatal("%v", err)
	}
	return true
}

var outDir string
var changed []string
var emitted = map[string]bool{}

func emit(mod string, body *bytes.Buffer) {
	stateMu.Lock()
	defer stateMu.Unlock()
	hdr := "-- GENERATED by harness/cmd/extract from /repo's current sources. Do not edit.\n"
	p := filepath.Join(outDir, mod+".lean")
	os.MkdirAll(filepath.Dir(p), 0o755)
	if writeIfChanged(p, append([]byte(hdr), body.Bytes()...)) {
		changed = append(changed, mod)
	}
	emitted[mod+".lean"] = true
}

func main() {
	repo := flag.String("repo", "/repo", "repository")
	out := flag.String("out", "/verif/lean/LA/Gen", "output directory")
	flag.Parse()
	outDir, _ = filepath.Abs(*out)
	if err := os.Chdir(*repo); err != nil {
		fatal("%v", err)
	}
	imp = importer.ForCompiler(token.NewFileSet(), "source", nil)

	var root *pkg
	runGen("load", []string{"Consts", "ClientConsts", "LockFacts"}, func() { root = load(*repo, "", "libaudit") })
	if root != nil {
		runGen("consts", []string{"Consts"}, func() { genConsts(root) })
		for _, g := range generators {
			g(*repo, root)
		}
	}

	// remove stale generated files
	filepath.Walk(outDir, func(p string, fi os.FileInfo, err error) error {
		if err != nil || fi.IsDir() || !strings.HasSuffix(p, ".lean") {
			return nil
		}
		rel, _ := filepath.Rel(outDir, p)
		if !emitted[rel] {
			os.Remove(p)
			changed = append(changed, "removed "+rel)
		}
		return nil
	})
	sort.Strings(changed)
	fj, _ := json.MarshalIndent(failures, "", " ")
	if failures == nil {
		fj = []byte("[]")
	}
	os.WriteFile(filepath.Join(outDir, "translator_failures.json"), fj, 0o644)
	fmt.Printf("extract: %d generated modules, %d changed %v, %d generator failures\n", len(emitted), len(changed), changed, len(failures))
}

func genConsts(root *pkg) {
	var b bytes.Buffer
	b.WriteString("namespace LA.Gen.Consts\n")
	fmt.Fprintf(&b, "def maxSortRange : Nat := %d\n", root.constInt("maxSortRange"))
	b.WriteString("end LA.Gen.Consts\n")
	emit("Consts", &b)
}

// ---- tiny big-number helper (names are longer than 8 bytes) ------------------------

type bigInt struct{ d []uint32 } // little-endian base 1e9

func (n *bigInt) set1() *bigInt { n.d = []uint32{1}; return n }
func (n *bigInt) mul256add(c byte) {
	carry := uint64(c)
	for i := range n.d {
		v := uint64(n.d[i])*256 + carry
		n.d[i] = uint32(v % 1000000000)
		carry = v / 1000000000
	}
	for carry > 0 {
		n.d = append(n.d, uint32(carry%1000000000))
		carry /= 1000000000
	}
}
func (n *bigInt) String() string {
	var b strings.Builder
	b.WriteString(strconv.FormatUint(uint64(n.d[len(n.d)-1]), 10))
	for i := len(n.d) - 2; i >= 0; i-- {
		fmt.Fprintf(&b, "%09d", n.d[i])
	}
	return b.String()
}

// generators are registered by the family files of this package (func init).
var generators []func(repo string, root *pkg)
