package main

// Lock-discipline facts for property C11, extracted from reassembler.go on every
// run and emitted as LA/Gen/LockFacts.lean (Bool/Nat/List String definitions).
// lean/LA/Props/C11.lean states each of them as a theorem (`C11_lock_facts_*`), so a
// fact that no longer holds breaks a proof obligation that names it.
//
// The facts justify the granularity of Model.ReasmConc: Put, CleanUp and Clear are
// one atomic step each (they run entirely under the eventList mutex and nothing
// else touches the table), the closed flag is an atomic load / one CAS whose
// success guards Clear, and no step can block while holding the lock (no Stream
// call-out and no yield point inside a locked region).
//
// The checks are deliberately small and syntactic (go/ast + resolved objects from
// go/types). A rewrite that locks differently but correctly may break them; it is
// then reported as a broken obligation with no failing input.

import (
	"bytes"
	"fmt"
	"go/ast"
	"go/token"
	"go/types"
	"sort"
	"strings"
)

func init() { generators = append(generators, genLockFacts) }

type lockFacts struct {
	listStateOnlyUnderLock     bool
	closedOnlyAtomic           bool
	closedSingleCasGuardsClear bool
	noCalloutUnderLock         bool
	lockedMethods              []string
	helperMethods              []string
	entryPoints                []string
	entryPointsAtomic          bool
	numStateAccesses           int
	numClosedAccesses          int
	numClosedWrites            int
	numClearCalls              int
	why                        []string // human-readable reasons for every false fact
}

func (f *lockFacts) fail(fact *bool, format string, a ...interface{}) {
	*fact = false
	f.why = append(f.why, fmt.Sprintf(format, a...))
}

func genLockFacts(repo string, root *pkg) {
	runGen("genLockFacts", []string{"LockFacts"}, func() { genLockFactsImpl(repo, root) })
}

func genLockFactsImpl(repo string, root *pkg) {
	f := computeLockFacts(root)
	var b bytes.Buffer
	b.WriteString("-- lock-discipline facts of reassembler.go (see harness/cmd/extract/conc.go)\n")
	for _, w := range f.why {
		b.WriteString("-- VIOLATED: " + strings.ReplaceAll(w, "\n", " ") + "\n")
	}
	b.WriteString("namespace LA.Gen.LockFacts\n")
	bl := func(name string, v bool, doc string) {
		fmt.Fprintf(&b, "/-- %s -/\ndef %s : Bool := %v\n", doc, name, v)
	}
	bl("listStateOnlyUnderLock", f.listStateOnlyUnderLock, "every function touching a field of eventList (other than the embedded mutex) is an eventList method that starts with `l.Lock(); defer l.Unlock()` or is called only from such methods")
	bl("closedOnlyAtomic", f.closedOnlyAtomic, "Reassembler.closed is only ever used through a sync/atomic operation: atomic.F(&r.closed, ..), a method of a sync/atomic type, or a method of a local wrapper type that is a single such operation on the wrapper's own field")
	bl("closedSingleCasGuardsClear", f.closedSingleCasGuardsClear, "the only write to closed is one compare-and-swap from unset (0/false) to set (1/true), in Reassembler.Close, whose result is the condition of the `if` whose body holds every eventList.Clear call")
	bl("noCalloutUnderLock", f.noCalloutUnderLock, "no r.stream call, interface-method call or verifYield inside eventList/event methods; the mutex is taken only in the Lock/defer Unlock prologue; locked methods do not call locked methods")
	q := func(xs []string) string {
		p := make([]string, len(xs))
		for i, x := range xs {
			p[i] = leanStr(x)
		}
		return "[" + strings.Join(p, ", ") + "]"
	}
	fmt.Fprintf(&b, "/-- eventList methods with the lock prologue (sorted) -/\ndef lockedMethods : List String := %s\n", q(f.lockedMethods))
	fmt.Fprintf(&b, "/-- eventList methods without it that touch the table and are called only under the lock (sorted) -/\ndef helperMethods : List String := %s\n", q(f.helperMethods))
	fmt.Fprintf(&b, "/-- eventList methods called from outside eventList, i.e. by the Reassembler (sorted) -/\ndef entryPoints : List String := %s\n", q(f.entryPoints))
	bl("entryPointsAtomic", f.entryPointsAtomic, "every entry point has the lock prologue or only delegates to one method that has it")
	fmt.Fprintf(&b, "def numStateAccesses : Nat := %d\n", f.numStateAccesses)
	fmt.Fprintf(&b, "def numClosedAccesses : Nat := %d\n", f.numClosedAccesses)
	fmt.Fprintf(&b, "def numClosedWrites : Nat := %d\n", f.numClosedWrites)
	fmt.Fprintf(&b, "def numClearCalls : Nat := %d\n", f.numClearCalls)
	b.WriteString("def allHold : Bool :=\n  listStateOnlyUnderLock && closedOnlyAtomic && closedSingleCasGuardsClear && noCalloutUnderLock && entryPointsAtomic\n")
	b.WriteString("end LA.Gen.LockFacts\n")
	emit("LockFacts", &b)
}

// named returns the name of the (pointer to) named type t, "" otherwise.
func namedOf(t types.Type) string {
	if t == nil {
		return ""
	}
	if p, ok := t.(*types.Pointer); ok {
		t = p.Elem()
	}
	if n, ok := t.(*types.Named); ok {
		return n.Obj().Name()
	}
	return ""
}

func recvName(fd *ast.FuncDecl) (typ, ident string) {
	if fd.Recv == nil || len(fd.Recv.List) != 1 {
		return "", ""
	}
	t := fd.Recv.List[0].Type
	if s, ok := t.(*ast.StarExpr); ok {
		t = s.X
	}
	if id, ok := t.(*ast.Ident); ok {
		typ = id.Name
	}
	if len(fd.Recv.List[0].Names) == 1 {
		ident = fd.Recv.List[0].Names[0].Name
	}
	return
}

// isRecvCall reports whether e is the call `<recv>.<name>()`.
func isRecvCall(e ast.Expr, recv, name string) *ast.CallExpr {
	c, ok := e.(*ast.CallExpr)
	if !ok || len(c.Args) != 0 {
		return nil
	}
	s, ok := c.Fun.(*ast.SelectorExpr)
	if !ok || s.Sel.Name != name {
		return nil
	}
	id, ok := s.X.(*ast.Ident)
	if !ok || id.Name != recv {
		return nil
	}
	return c
}

func computeLockFacts(root *pkg) *lockFacts {
	f := &lockFacts{listStateOnlyUnderLock: true, closedOnlyAtomic: true, closedSingleCasGuardsClear: true, noCalloutUnderLock: true}
	allFalse := func(format string, a ...interface{}) *lockFacts {
		msg := fmt.Sprintf(format, a...)
		f.listStateOnlyUnderLock, f.closedOnlyAtomic, f.closedSingleCasGuardsClear, f.noCalloutUnderLock = false, false, false, false
		f.why = append(f.why, msg)
		return f
	}
	if root.tpkg == nil {
		return allFalse("package did not type-check")
	}
	lookupStruct := func(name string) (*types.Struct, bool) {
		o := root.tpkg.Scope().Lookup(name)
		if o == nil {
			return nil, false
		}
		st, ok := o.Type().Underlying().(*types.Struct)
		return st, ok
	}
	elStruct, ok := lookupStruct("eventList")
	if !ok {
		return allFalse("struct eventList not found")
	}
	rsStruct, ok := lookupStruct("Reassembler")
	if !ok {
		return allFalse("struct Reassembler not found")
	}
	// the guarded fields: every field of eventList other than the embedded mutex (whatever they are
	// called and however the table is represented)
	guarded := map[types.Object]string{}
	hasMutex := false
	for i := 0; i < elStruct.NumFields(); i++ {
		fl := elStruct.Field(i)
		if fl.Embedded() && fl.Type().String() == "sync.Mutex" {
			hasMutex = true
			continue
		}
		guarded[fl] = fl.Name()
	}
	if !hasMutex {
		return allFalse("eventList does not embed sync.Mutex")
	}
	if len(guarded) == 0 {
		return allFalse("eventList has no fields besides the mutex")
	}
	var closedVar, streamVar types.Object
	for i := 0; i < rsStruct.NumFields(); i++ {
		switch rsStruct.Field(i).Name() {
		case "closed":
			closedVar = rsStruct.Field(i)
		case "stream":
			streamVar = rsStruct.Field(i)
		}
	}
	if closedVar == nil || streamVar == nil {
		return allFalse("Reassembler has no closed/stream field")
	}

	// ---- all function declarations -------------------------------------------------
	type fn struct {
		decl     *ast.FuncDecl
		obj      types.Object
		recvType string
		locked   bool
		touches  bool
		prologue map[ast.Node]bool
	}
	var fns []*fn
	byObj := map[types.Object]*fn{}
	for _, file := range root.files {
		for _, d := range file.Decls {
			fd, ok := d.(*ast.FuncDecl)
			if !ok || fd.Body == nil {
				continue
			}
			x := &fn{decl: fd, obj: root.info.Defs[fd.Name], prologue: map[ast.Node]bool{}}
			rt, rn := recvName(fd)
			x.recvType = rt
			if rt == "eventList" && rn != "" && len(fd.Body.List) >= 2 {
				if es, ok := fd.Body.List[0].(*ast.ExprStmt); ok {
					if c := isRecvCall(es.X, rn, "Lock"); c != nil {
						if ds, ok := fd.Body.List[1].(*ast.DeferStmt); ok {
							if c2 := isRecvCall(ds.Call, rn, "Unlock"); c2 != nil {
								x.locked = true
								x.prologue[c] = true
								x.prologue[c2] = true
							}
						}
					}
				}
			}
			fns = append(fns, x)
			if x.obj != nil {
				byObj[x.obj] = x
			}
		}
	}

	// ---- F1: accesses to the guarded fields ---------------------------------------------
	// A function literal handed directly to a locked eventList method that does nothing with that parameter
	// but call it runs while the callee holds the lock: what it touches is touched under the lock, whoever
	// wrote the literal (`l.evict(func(e *event, n int) bool { return n > l.maxSize })`).
	callOnlyParam := func(callee *fn, idx int) bool {
		var obj types.Object
		k := 0
		for _, fld := range callee.decl.Type.Params.List {
			for _, nm := range fld.Names {
				if k == idx {
					obj = root.info.Defs[nm]
				}
				k++
			}
		}
		if obj == nil {
			return false
		}
		only := true
		var stack []ast.Node
		ast.Inspect(callee.decl.Body, func(n ast.Node) bool {
			if n == nil {
				stack = stack[:len(stack)-1]
				return true
			}
			if id, ok := n.(*ast.Ident); ok && root.info.Uses[id] == obj {
				c, isCall := stack[len(stack)-1].(*ast.CallExpr)
				if !isCall || c.Fun != ast.Expr(id) {
					only = false
				}
				// not from a goroutine or a deferred call either (those may run after the unlock)
				if len(stack) >= 2 {
					switch stack[len(stack)-2].(type) {
					case *ast.GoStmt, *ast.DeferStmt:
						only = false
					}
				}
			}
			stack = append(stack, n)
			return true
		})
		return only
	}
	transferred := map[*ast.FuncLit]bool{}
	for _, x := range fns {
		ast.Inspect(x.decl.Body, func(n ast.Node) bool {
			c, ok := n.(*ast.CallExpr)
			if !ok {
				return true
			}
			sel, ok := c.Fun.(*ast.SelectorExpr)
			if !ok {
				return true
			}
			callee := byObj[root.info.Uses[sel.Sel]]
			if callee == nil || callee.recvType != "eventList" || !callee.locked {
				return true
			}
			for i, a := range c.Args {
				if fl, ok := a.(*ast.FuncLit); ok && callOnlyParam(callee, i) {
					transferred[fl] = true
				}
			}
			return true
		})
	}
	for _, x := range fns {
		var count func(n ast.Node, own bool)
		count = func(root0 ast.Node, own bool) {
			ast.Inspect(root0, func(n ast.Node) bool {
				if fl, ok := n.(*ast.FuncLit); ok && transferred[fl] && n != root0 {
					count(fl.Body, false)
					return false
				}
				if s, ok := n.(*ast.SelectorExpr); ok {
					if _, g := guarded[root.info.Uses[s.Sel]]; g {
						if own {
							x.touches = true
						}
						f.numStateAccesses++
					}
				}
				return true
			})
		}
		count(x.decl.Body, true)
	}
	// call sites of every eventList method: caller -> callee, and uses that are not calls
	callers := map[*fn][]*fn{}
	escaped := map[*fn]bool{}
	for _, x := range fns {
		var stack []ast.Node
		ast.Inspect(x.decl.Body, func(n ast.Node) bool {
			if n == nil {
				stack = stack[:len(stack)-1]
				return true
			}
			if s, ok := n.(*ast.SelectorExpr); ok {
				if callee := byObj[root.info.Uses[s.Sel]]; callee != nil && callee.recvType == "eventList" {
					isCall := false
					if len(stack) > 0 {
						if c, ok := stack[len(stack)-1].(*ast.CallExpr); ok && c.Fun == n {
							isCall = true
						}
					}
					if isCall {
						callers[callee] = append(callers[callee], x)
					} else {
						escaped[callee] = true
					}
				}
			}
			stack = append(stack, n)
			return true
		})
	}
	safe := map[*fn]bool{}
	for _, x := range fns {
		if x.locked {
			safe[x] = true
		}
	}
	for changed := true; changed; {
		changed = false
		for _, x := range fns {
			if safe[x] || x.recvType != "eventList" || escaped[x] || len(callers[x]) == 0 {
				continue
			}
			all := true
			for _, c := range callers[x] {
				if !safe[c] {
					all = false
				}
			}
			if all {
				safe[x] = true
				changed = true
			}
		}
	}
	for _, x := range fns {
		if x.locked {
			f.lockedMethods = append(f.lockedMethods, x.decl.Name.Name)
		}
		if !x.touches {
			continue
		}
		switch {
		case x.recvType != "eventList":
			f.fail(&f.listStateOnlyUnderLock, "%s touches the event table but is not an eventList method", x.decl.Name.Name)
		case !safe[x]:
			f.fail(&f.listStateOnlyUnderLock, "eventList.%s touches the event table without `l.Lock(); defer l.Unlock()` and is not called only from locked methods", x.decl.Name.Name)
		case !x.locked:
			f.helperMethods = append(f.helperMethods, x.decl.Name.Name)
		}
	}
	sort.Strings(f.lockedMethods)
	sort.Strings(f.helperMethods)
	// entry points: the eventList methods called from outside eventList (the Reassembler's methods).
	// Each must be one atomic step: it has the lock prologue itself, or it does nothing but
	// delegate to one method that has it (`return l.m(...)` / `l.m(...)`, no table access of its own).
	f.entryPointsAtomic = true
	delegates := func(x *fn) bool {
		if x.touches || len(x.decl.Body.List) != 1 {
			return false
		}
		var e ast.Expr
		switch st := x.decl.Body.List[0].(type) {
		case *ast.ReturnStmt:
			if len(st.Results) != 1 {
				return false
			}
			e = st.Results[0]
		case *ast.ExprStmt:
			e = st.X
		default:
			return false
		}
		c, ok := e.(*ast.CallExpr)
		if !ok {
			return false
		}
		sel, ok := c.Fun.(*ast.SelectorExpr)
		if !ok {
			return false
		}
		callee := byObj[root.info.Uses[sel.Sel]]
		if callee == nil || callee.recvType != "eventList" || !callee.locked {
			return false
		}
		for _, a := range c.Args {
			if _, isCall := a.(*ast.CallExpr); isCall {
				return false
			}
		}
		return true
	}
	seenEntry := map[string]bool{}
	for callee, cs := range callers {
		for _, c := range cs {
			if c.recvType != "eventList" && !seenEntry[callee.decl.Name.Name] {
				seenEntry[callee.decl.Name.Name] = true
				f.entryPoints = append(f.entryPoints, callee.decl.Name.Name)
				if !callee.locked && !delegates(callee) {
					f.entryPointsAtomic = false
					f.why = append(f.why, fmt.Sprintf("eventList.%s is called from %s but neither has the lock prologue nor merely delegates to a method that has it", callee.decl.Name.Name, c.decl.Name.Name))
				}
			}
		}
	}
	sort.Strings(f.entryPoints)
	if f.numStateAccesses == 0 {
		f.fail(&f.listStateOnlyUnderLock, "no access to the event table found at all")
	}

	// ---- F2/F3: the closed flag -------------------------------------------------------------
	// An access to the flag is one of three forms, each classified as read / cas01 / write:
	//   A  atomic.F(&r.closed, ...)              closed is an integer used only through sync/atomic
	//   B  r.closed.M(...)                       closed has a sync/atomic type (atomic.Bool, atomic.Int32, ...)
	//   C  r.closed.m(...)                       closed has a package-local wrapper type whose method m does nothing
	//                                            but return one form-A/B operation on the wrapper's own field
	//                                            (optionally compared with a constant), and whose fields are touched
	//                                            nowhere else
	// cas01 = a compare-and-swap from the zero value (0 / false) to 1 / true whose result is the value of the call.
	atomicPkgCall := func(c *ast.CallExpr) (string, bool) {
		s, ok := c.Fun.(*ast.SelectorExpr)
		if !ok {
			return "", false
		}
		id, ok := s.X.(*ast.Ident)
		if !ok {
			return "", false
		}
		pn, ok := root.info.Uses[id].(*types.PkgName)
		if !ok || pn.Imported().Path() != "sync/atomic" {
			return "", false
		}
		return s.Sel.Name, true
	}
	isAtomicType := func(t types.Type) bool {
		if n, ok := t.(*types.Named); ok && n.Obj().Pkg() != nil && n.Obj().Pkg().Path() == "sync/atomic" {
			return true
		}
		return false
	}
	constIs := func(e ast.Expr, want ...string) bool {
		tv, ok := root.info.Types[e]
		if !ok || tv.Value == nil {
			return false
		}
		for _, w := range want {
			if tv.Value.ExactString() == w {
				return true
			}
		}
		return false
	}
	// classify an atomic operation given its name and the arguments after the address / receiver
	classOf := func(name string, args []ast.Expr) string {
		switch {
		case strings.HasPrefix(name, "Load"):
			return "read"
		case strings.HasPrefix(name, "CompareAndSwap"):
			if len(args) == 2 && constIs(args[0], "0", "false") && constIs(args[1], "1", "true") {
				return "cas01"
			}
			return "write"
		default:
			return "write"
		}
	}
	// opOn: if call c is a form-A/B operation on the variable `on`, its class; "" otherwise
	opOn := func(c *ast.CallExpr, on types.Object) string {
		if name, ok := atomicPkgCall(c); ok && len(c.Args) > 0 {
			if u, ok := c.Args[0].(*ast.UnaryExpr); ok && u.Op == token.AND {
				if sel, ok := u.X.(*ast.SelectorExpr); ok && root.info.Uses[sel.Sel] == on {
					return classOf(name, c.Args[1:])
				}
			}
			return ""
		}
		if ms, ok := c.Fun.(*ast.SelectorExpr); ok {
			if sel, ok := ms.X.(*ast.SelectorExpr); ok && root.info.Uses[sel.Sel] == on {
				if v, ok := on.(*types.Var); ok && isAtomicType(v.Type()) {
					return classOf(ms.Sel.Name, c.Args)
				}
			}
		}
		return ""
	}
	// wrapper methods (form C): method object -> class
	wrapperClass := map[types.Object]string{}
	wrapperOK := true
	if cv, ok := closedVar.(*types.Var); ok {
		if named, ok := cv.Type().(*types.Named); ok && named.Obj().Pkg() == root.tpkg {
			if st, ok := named.Underlying().(*types.Struct); ok {
				fields := map[types.Object]bool{}
				for i := 0; i < st.NumFields(); i++ {
					fields[st.Field(i)] = true
				}
				for _, x := range fns {
					if x.recvType != named.Obj().Name() {
						// the wrapper's fields must not be touched outside its methods
						ast.Inspect(x.decl.Body, func(n ast.Node) bool {
							if sel, ok := n.(*ast.SelectorExpr); ok && fields[root.info.Uses[sel.Sel]] {
								wrapperOK = false
								f.fail(&f.closedOnlyAtomic, "%s touches a field of %s outside its methods (%s)", x.decl.Name.Name, named.Obj().Name(), root.fset.Position(n.Pos()))
							}
							return true
						})
						continue
					}
					// method body: a single `return <op>` or `return <op> == const`, or a single `<op>` statement
					cls := ""
					if len(x.decl.Body.List) == 1 {
						var e ast.Expr
						switch st := x.decl.Body.List[0].(type) {
						case *ast.ReturnStmt:
							if len(st.Results) == 1 {
								e = st.Results[0]
							}
						case *ast.ExprStmt:
							e = st.X
						}
						direct := true
						if be, ok := e.(*ast.BinaryExpr); ok && (be.Op == token.EQL || be.Op == token.NEQ) {
							if tv, ok := root.info.Types[be.Y]; ok && tv.Value != nil {
								e, direct = be.X, false
							}
						}
						if c, ok := e.(*ast.CallExpr); ok {
							for fld := range fields {
								if k := opOn(c, fld); k != "" {
									cls = k
									if k == "cas01" && !direct {
										cls = "write" // the result of the CAS must be the result of the method
									}
								}
							}
						}
					}
					if cls == "" {
						wrapperOK = false
						f.fail(&f.closedOnlyAtomic, "method %s.%s is not a single sync/atomic operation on the wrapper's field", named.Obj().Name(), x.decl.Name.Name)
					} else if x.obj != nil {
						wrapperClass[x.obj] = cls
					}
				}
			}
		}
	}
	_ = wrapperOK
	type closedUse struct {
		fn   *fn
		call *ast.CallExpr
		name string      // read | cas01 | write
		ifSt *ast.IfStmt // the if statement whose condition is exactly this call (or, negated form, its negation)
		// negated form: `if !cas { ...; return }` with no else; what follows the statement in its block runs only
		// when the swap succeeded
		negated  bool
		ifParent ast.Node
	}
	var uses []closedUse
	var clearCalls []ast.Node
	var clearCallStacks [][]ast.Node
	for _, x := range fns {
		var stack []ast.Node
		ast.Inspect(x.decl.Body, func(n ast.Node) bool {
			if n == nil {
				stack = stack[:len(stack)-1]
				return true
			}
			if s, ok := n.(*ast.SelectorExpr); ok {
				if root.info.Uses[s.Sel] == closedVar {
					f.numClosedAccesses++
					cls := ""
					var call *ast.CallExpr
					depth := 0
					if len(stack) >= 2 {
						// form A: CallExpr(atomic.X){ UnaryExpr(&){ SelectorExpr } as Args[0] }
						if u, ok := stack[len(stack)-1].(*ast.UnaryExpr); ok && u.Op == token.AND && u.X == n {
							if c, ok := stack[len(stack)-2].(*ast.CallExpr); ok && len(c.Args) > 0 && c.Args[0] == u {
								if k := opOn(c, closedVar); k != "" {
									cls, call, depth = k, c, 3
								}
							}
						}
						// forms B and C: CallExpr{ Fun: SelectorExpr{ X: r.closed, Sel: M } }
						if ms, ok := stack[len(stack)-1].(*ast.SelectorExpr); ok && ms.X == n {
							if c, ok := stack[len(stack)-2].(*ast.CallExpr); ok && c.Fun == ms {
								if k := opOn(c, closedVar); k != "" {
									cls, call, depth = k, c, 3
								} else if k, ok := wrapperClass[root.info.Uses[ms.Sel]]; ok {
									cls, call, depth = k, c, 3
								}
							}
						}
					}
					if cls == "" {
						f.fail(&f.closedOnlyAtomic, "%s uses r.closed other than through a sync/atomic operation (%s)", x.decl.Name.Name, root.fset.Position(n.Pos()))
					} else {
						cu := closedUse{fn: x, call: call, name: cls}
						if len(stack) >= depth {
							if is, ok := stack[len(stack)-depth].(*ast.IfStmt); ok && is.Cond == ast.Expr(call) {
								cu.ifSt = is
							} else if un, ok := stack[len(stack)-depth].(*ast.UnaryExpr); ok && un.Op == token.NOT && un.X == ast.Expr(call) && len(stack) >= depth+2 {
								if is, ok := stack[len(stack)-depth-1].(*ast.IfStmt); ok && is.Cond == ast.Expr(un) && is.Else == nil && len(is.Body.List) > 0 {
									if _, ret := is.Body.List[len(is.Body.List)-1].(*ast.ReturnStmt); ret {
										cu.ifSt, cu.negated, cu.ifParent = is, true, stack[len(stack)-depth-2]
									}
								}
							}
						}
						uses = append(uses, cu)
					}
				}
				if callee := byObj[root.info.Uses[s.Sel]]; callee != nil && callee.recvType == "eventList" && callee.decl.Name.Name == "Clear" {
					if len(stack) > 0 {
						if c, ok := stack[len(stack)-1].(*ast.CallExpr); ok && c.Fun == n {
							clearCalls = append(clearCalls, c)
							clearCallStacks = append(clearCallStacks, append([]ast.Node{}, stack...))
						}
					}
				}
			}
			stack = append(stack, n)
			return true
		})
	}
	if f.numClosedAccesses == 0 {
		f.fail(&f.closedOnlyAtomic, "no access to r.closed found at all")
	}
	f.numClearCalls = len(clearCalls)
	var writes []closedUse
	for _, u := range uses {
		if u.name != "read" {
			writes = append(writes, u)
		}
	}
	f.numClosedWrites = len(writes)
	switch {
	case len(writes) != 1:
		f.fail(&f.closedSingleCasGuardsClear, "%d atomic writes to r.closed, want exactly one compare-and-swap from unset to set", len(writes))
	case writes[0].name != "cas01":
		f.fail(&f.closedSingleCasGuardsClear, "the write to r.closed is not a compare-and-swap from the zero value to 1/true whose result is used")
	default:
		w := writes[0]
		if w.fn.recvType != "Reassembler" || w.fn.decl.Name.Name != "Close" {
			f.fail(&f.closedSingleCasGuardsClear, "the compare-and-swap on r.closed is in %s, not in Reassembler.Close", w.fn.decl.Name.Name)
		}
		if w.ifSt == nil {
			f.fail(&f.closedSingleCasGuardsClear, "the compare-and-swap on r.closed is not the condition of an if statement")
		} else {
			if len(clearCalls) == 0 {
				f.fail(&f.closedSingleCasGuardsClear, "no call of eventList.Clear found")
			}
			for i := range clearCalls {
				inside := false
				for _, anc := range clearCallStacks[i] {
					if !w.negated && anc == ast.Node(w.ifSt.Body) {
						inside = true
					}
					// negated form: later in the block that holds `if !cas { return }`
					if w.negated && anc == w.ifParent && clearCalls[i].Pos() > w.ifSt.End() {
						inside = true
					}
				}
				if !inside {
					f.fail(&f.closedSingleCasGuardsClear, "a call of eventList.Clear (%s) is neither inside the body of the `if` whose condition is the compare-and-swap on r.closed nor after an `if !swap { return }` in the same block", root.fset.Position(clearCalls[i].Pos()))
				}
			}
		}
	}

	// ---- F4: nothing can block or call out while the lock is held -----------------------------
	verifYieldObj := root.tpkg.Scope().Lookup("verifYield")
	isMutexRecv := func(e ast.Expr) bool {
		tv, ok := root.info.Types[e]
		if !ok {
			return false
		}
		n := namedOf(tv.Type)
		return n == "eventList" || n == "Mutex" || n == "RWMutex"
	}
	for _, x := range fns {
		inList := x.recvType == "eventList" || x.recvType == "event" || x.recvType == "sequenceNumSlice"
		ast.Inspect(x.decl.Body, func(n ast.Node) bool {
			c, ok := n.(*ast.CallExpr)
			if !ok {
				return true
			}
			switch fun := c.Fun.(type) {
			case *ast.Ident:
				if inList && verifYieldObj != nil && root.info.Uses[fun] == verifYieldObj {
					f.fail(&f.noCalloutUnderLock, "%s.%s contains a yield point", x.recvType, x.decl.Name.Name)
				}
			case *ast.SelectorExpr:
				switch fun.Sel.Name {
				case "Lock", "Unlock", "TryLock", "RLock", "RUnlock":
					if isMutexRecv(fun.X) && !x.prologue[c] {
						f.fail(&f.noCalloutUnderLock, "%s calls %s on the eventList mutex outside the `l.Lock(); defer l.Unlock()` prologue of an eventList method (%s)", x.decl.Name.Name, fun.Sel.Name, root.fset.Position(c.Pos()))
					}
				}
				if inList {
					if callee, ok := root.info.Uses[fun.Sel].(*types.Func); ok {
						if sig, ok := callee.Type().(*types.Signature); ok && sig.Recv() != nil {
							if _, isIface := sig.Recv().Type().Underlying().(*types.Interface); isIface {
								f.fail(&f.noCalloutUnderLock, "%s.%s calls interface method %s (a call-out) while the lock may be held", x.recvType, x.decl.Name.Name, callee.Name())
							}
						}
					}
					if cal := byObj[root.info.Uses[fun.Sel]]; cal != nil && cal.locked && (x.locked || safe[x]) {
						f.fail(&f.noCalloutUnderLock, "eventList.%s calls the locked method %s while holding the lock (self-deadlock)", x.decl.Name.Name, cal.decl.Name.Name)
					}
				}
			}
			return true
		})
		if inList {
			ast.Inspect(x.decl.Body, func(n ast.Node) bool {
				if s, ok := n.(*ast.SelectorExpr); ok && root.info.Uses[s.Sel] == streamVar {
					f.fail(&f.noCalloutUnderLock, "%s.%s uses r.stream", x.recvType, x.decl.Name.Name)
				}
				return true
			})
		}
	}
	if len(f.lockedMethods) == 0 {
		f.fail(&f.noCalloutUnderLock, "no eventList method with the Lock/defer Unlock prologue found")
	}
	return f
}
