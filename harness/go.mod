module verifharness

go 1.23

require github.com/elastic/go-libaudit/v2 v2.0.0

require (
	golang.org/x/sys v0.11.0 // indirect
	gopkg.in/yaml.v3 v3.0.1 // indirect
)

replace github.com/elastic/go-libaudit/v2 => /repo
