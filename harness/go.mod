module verifharness

go 1.23

require (
	github.com/elastic/go-libaudit/v2 v2.0.0
	golang.org/x/sys v0.11.0
	gopkg.in/yaml.v3 v3.0.1
)

require github.com/kballard/go-shellquote v0.0.0-20180428030007-95032a82bc51

replace github.com/elastic/go-libaudit/v2 => /repo
