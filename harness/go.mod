module verifharness

go 1.23

require github.com/elastic/go-libaudit/v2 v2.0.0

require golang.org/x/sys v0.11.0 // indirect

replace github.com/elastic/go-libaudit/v2 => /repo
